//! X11 driver: the TACT key store (cascette-crypto keys.rs / store_trait.rs, KeyringConfig as a producer of
//! keys) and the statistics books (cascette-cache stats.rs, cascette-protocol cdn/streaming/metrics.rs).
//!
//! usage: drv_bookkeeping --programs <file|-> --out <file|-> [--random N --len L --dump-programs F]
//!
//! A program is {"kind":K, ...parameters, "ops":[...]}.  Every number that can leave TLC's 32-bit integers
//! (u64, usize, u128 nanoseconds) travels as a BigNat: the JSON array of its base-10000 digits, least
//! significant first, no trailing zeros (spec/lib/BigNat.tla).  A Duration is {"s":BigNat,"n":int} in
//! programs and {"s","n","ns"} in events.  A float is {"k":"fin"|"nan"|"inf"|"neg"|"big","n9":BigNat
//! floor(x * 10^9)}.  The driver executes and records; nothing is decided here.
//!
//! kinds
//!   ks    TactKeyStore / TactKeyProvider / UnifiedKeyStore: add, remove, get, load (csv/txt text), from_hex,
//!         load_keys, save_keys, debug; parameters "init": "empty"|"new", "via": "direct"|"trait"|"unified"|
//!         "nested"|"custom"
//!   kr    KeyringConfig: add, get, get_id, roundtrip, to_store
//!   met   AtomicCacheMetrics: get, put, rem, evi, exp, batch, reset
//!   merge CacheStats::merge over three slots
//!   opm   OperationMetrics: record, set_count
//!   mls   MultiLayerStats / PromotionStats: update, promo
//!   sm    StreamingMetrics: dl, hit, miss, evict, size, up
//!   pm    PoolMetrics: succ, fail, rt
//!   exp   PrometheusExporter over a PoolMetrics and a StreamingMetrics
use cascette_cache::stats::{AtomicCacheMetrics, CacheStats, MultiLayerStats, OperationMetrics};
use cascette_crypto::{TactKey, TactKeyProvider, TactKeyStore, UnifiedKeyStore};
use cascette_formats::config::KeyringConfig;
use cascette_protocol::cdn::streaming::{PoolMetrics, PrometheusExporter, StreamingMetrics};
use serde_json::{Value, json};
use std::collections::BTreeMap;
use std::sync::atomic::Ordering;
use std::time::Duration;
use verif_harness::*;

// --------------------------------------------------------------------------- numbers
fn bn(mut v: u128) -> Value {
    let mut l = vec![];
    while v > 0 {
        l.push((v % 10_000) as u64);
        v /= 10_000;
    }
    json!(l)
}
fn un(v: &Value) -> u128 {
    match v {
        Value::Number(n) => u128::from(n.as_u64().expect("non-negative number")),
        Value::Array(a) => {
            let mut r: u128 = 0;
            for x in a.iter().rev() {
                r = r.checked_mul(10_000).expect("BigNat fits u128") + u128::from(x.as_u64().expect("limb"));
            }
            r
        }
        other => panic!("driver: not a number: {other}"),
    }
}
fn u64_of(v: &Value) -> u64 {
    u64::try_from(un(v)).expect("driver: value fits u64")
}
fn usize_of(v: &Value) -> usize {
    usize::try_from(un(v)).expect("driver: value fits usize")
}
fn dur_of(v: &Value) -> Duration {
    Duration::new(u64_of(&v["s"]), u32::try_from(un(&v["n"])).expect("subsec nanos"))
}
fn dj(d: Duration) -> Value {
    json!({"s": bn(u128::from(d.as_secs())), "n": d.subsec_nanos(), "ns": bn(d.as_nanos())})
}
fn dprog(ns: u128) -> Value {
    json!({"s": bn(ns / 1_000_000_000), "n": (ns % 1_000_000_000) as u64})
}
fn fl(x: f64) -> Value {
    if x.is_nan() {
        json!({"k": "nan", "n9": []})
    } else if x.is_infinite() {
        json!({"k": if x > 0.0 { "inf" } else { "neg" }, "n9": []})
    } else if x < 0.0 {
        json!({"k": "neg", "n9": []})
    } else {
        let y = x * 1e9;
        if y >= 3.0e38 { json!({"k": "big", "n9": []}) } else { json!({"k": "fin", "n9": bn(y.floor() as u128)}) }
    }
}
fn res_of(r: Result<Value, String>) -> Value {
    match r {
        Ok(v) => v,
        Err(m) => outcome_panic(&m),
    }
}

// --------------------------------------------------------------------------- text
/// Placeholders that MC_KeyStore uses for characters outside printable ASCII.
fn render(s: &str) -> String {
    s.replace("<BOM>", "\u{feff}")
        .replace("<NBSP>", "\u{a0}")
        .replace("<IDSP>", "\u{3000}")
        .replace("<TAB>", "\t")
        .replace("<CR>", "\r")
        .replace("<VT>", "\u{b}")
        .replace("<E9>", "\u{e9}")
        .replace("<FW1>", "\u{ff11}")
        .replace("<EMOJI>", "\u{1f511}")
}
fn text_of(op: &Value) -> String {
    if let Some(cp) = op.get("cp").and_then(Value::as_array) {
        return cp.iter().filter_map(|c| char::from_u32(c.as_u64().unwrap_or(0xfffd) as u32)).collect();
    }
    let eol = match op["eol"].as_str().unwrap_or("lf") {
        "crlf" => "\r\n",
        _ => "\n",
    };
    let lines: Vec<String> = op["lines"].as_array().expect("lines").iter().map(|l| render(l.as_str().expect("line"))).collect();
    let mut t = lines.join(eol);
    if op["fin"].as_bool().unwrap_or(true) {
        t.push_str(eol);
    }
    t
}
fn cps(s: &str) -> Value {
    json!(s.chars().map(|c| c as u32).collect::<Vec<u32>>())
}

// --------------------------------------------------------------------------- key store
/// A backend of the kind the trait documentation describes: `key_count` is an approximation (the count as of
/// the last `save_keys`), while `is_empty` / `contains_key` are overridden with exact answers.
struct StaleCountBackend {
    keys: BTreeMap<u64, [u8; 16]>,
    synced: usize,
    saves: std::cell::Cell<usize>,
}
impl TactKeyProvider for StaleCountBackend {
    fn get_key(&self, id: u64) -> Result<Option<[u8; 16]>, cascette_crypto::CryptoError> {
        Ok(self.keys.get(&id).copied())
    }
    fn add_key(&mut self, key: TactKey) -> Result<(), cascette_crypto::CryptoError> {
        self.keys.insert(key.id, key.key);
        Ok(())
    }
    fn remove_key(&mut self, id: u64) -> Result<Option<[u8; 16]>, cascette_crypto::CryptoError> {
        Ok(self.keys.remove(&id))
    }
    fn key_count(&self) -> Result<usize, cascette_crypto::CryptoError> {
        Ok(self.synced)
    }
    fn is_empty(&self) -> Result<bool, cascette_crypto::CryptoError> {
        Ok(self.keys.is_empty())
    }
    fn contains_key(&self, id: u64) -> Result<bool, cascette_crypto::CryptoError> {
        Ok(self.keys.contains_key(&id))
    }
    fn list_key_ids(&self) -> Result<Vec<u64>, cascette_crypto::CryptoError> {
        Ok(self.keys.keys().copied().collect())
    }
    fn load_keys(&mut self) -> Result<usize, cascette_crypto::CryptoError> {
        self.synced = self.keys.len();
        Ok(0)
    }
    fn save_keys(&self) -> Result<(), cascette_crypto::CryptoError> {
        self.saves.set(self.saves.get() + 1);
        Ok(())
    }
}

enum Store {
    Direct(TactKeyStore),
    Trait(TactKeyStore),
    Unified(UnifiedKeyStore<TactKeyStore>),
    Nested(UnifiedKeyStore<UnifiedKeyStore<TactKeyStore>>),
    Custom(UnifiedKeyStore<StaleCountBackend>),
}

fn keyj(k: &[u8; 16]) -> Value {
    json!(k.to_vec())
}
fn optj(k: Option<[u8; 16]>) -> Value {
    match k {
        Some(k) => json!([keyj(&k)]),
        None => json!([]),
    }
}
fn key_of(v: &Value) -> [u8; 16] {
    let a = v.as_array().expect("key bytes");
    let mut k = [0u8; 16];
    for (i, b) in a.iter().enumerate().take(16) {
        k[i] = b.as_u64().expect("byte") as u8;
    }
    k
}

/// Projection through a TactKeyProvider.
fn obs_provider<P: TactKeyProvider>(p: &P, universe: &[u64]) -> Value {
    let failed = std::cell::Cell::new(false);
    let e = |r: Result<Value, cascette_crypto::CryptoError>, d: Value| {
        r.unwrap_or_else(|_| {
            failed.set(true);
            d
        })
    };
    let mut ids = p.list_key_ids().unwrap_or_default();
    ids.sort_unstable();
    let pairs: Vec<Value> = ids.iter().map(|&id| json!([bn(u128::from(id)), optj(p.get_key(id).ok().flatten())])).collect();
    let mut all: Vec<u64> = universe.to_vec();
    all.extend(ids.iter().copied());
    all.sort_unstable();
    all.dedup();
    let gets: Vec<Value> = all.iter().map(|&id| json!([bn(u128::from(id)), optj(p.get_key(id).ok().flatten())])).collect();
    let has: Vec<Value> = all.iter().map(|&id| json!([bn(u128::from(id)), e(p.contains_key(id).map(|b| json!(b)), json!(false))])).collect();
    let mut o = json!({"len": e(p.key_count().map(|n| bn(n as u128)), json!([])), "empty": e(p.is_empty().map(|b| json!(b)), json!(false)),
                       "ids": ids.iter().map(|&i| bn(u128::from(i))).collect::<Vec<_>>(), "pairs": pairs, "gets": gets, "has": has});
    if failed.get() || p.list_key_ids().is_err() {
        o["failed"] = json!(true);
    }
    o
}
fn obs_direct(s: &TactKeyStore, universe: &[u64]) -> Value {
    let mut it: Vec<TactKey> = s.iter().collect();
    it.sort_by_key(|k| k.id);
    let pairs: Vec<Value> = it.iter().map(|k| json!([bn(u128::from(k.id)), json!([keyj(&k.key)])])).collect();
    let mut all: Vec<u64> = universe.to_vec();
    all.extend(it.iter().map(|k| k.id));
    all.sort_unstable();
    all.dedup();
    let gets: Vec<Value> = all.iter().map(|&id| json!([bn(u128::from(id)), optj(s.get(id).copied())])).collect();
    let has: Vec<Value> = all.iter().map(|&id| json!([bn(u128::from(id)), s.get(id).is_some()])).collect();
    json!({"len": bn(s.len() as u128), "empty": s.is_empty(), "ids": it.iter().map(|k| bn(u128::from(k.id))).collect::<Vec<_>>(),
           "pairs": pairs, "gets": gets, "has": has})
}
fn obs_store(s: &Store, universe: &[u64]) -> Value {
    match s {
        Store::Direct(t) => obs_direct(t, universe),
        Store::Trait(t) => obs_provider(t, universe),
        Store::Unified(u) => obs_provider(u, universe),
        Store::Nested(u) => obs_provider(u, universe),
        Store::Custom(u) => {
            let mut o = obs_provider(u, universe);
            o["bk"] = obs_provider(u.backend(), universe);
            o
        }
    }
}
fn inner_mut(s: &mut Store) -> Option<&mut TactKeyStore> {
    match s {
        Store::Direct(t) | Store::Trait(t) => Some(t),
        Store::Unified(u) => Some(u.backend_mut()),
        Store::Nested(u) => Some(u.backend_mut().backend_mut()),
        Store::Custom(_) => None,
    }
}
type CResult<T> = Result<T, cascette_crypto::CryptoError>;
fn unit(r: CResult<()>) -> Value {
    match r {
        Ok(()) => json!({"ok": true}),
        Err(e) => json!({"err": e.to_string()}),
    }
}
fn opt(r: CResult<Option<[u8; 16]>>) -> Value {
    match r {
        Ok(k) => json!({"ok": optj(k)}),
        Err(e) => json!({"err": e.to_string()}),
    }
}
fn cnt(r: CResult<usize>) -> Value {
    match r {
        Ok(n) => json!({"ok": bn(n as u128)}),
        Err(e) => json!({"err": e.to_string()}),
    }
}
fn tokens(s: &str) -> Vec<String> {
    s.split(|c: char| !c.is_ascii_alphanumeric()).filter(|t| !t.is_empty()).map(str::to_ascii_lowercase).collect()
}

fn run_ks(prog: &Value, out: &Emit) {
    let init = prog["init"].as_str().unwrap_or("empty");
    let via = prog["via"].as_str().unwrap_or("direct");
    let base = || if init == "new" { TactKeyStore::new() } else { TactKeyStore::empty() };
    let mut st = match via {
        "trait" => Store::Trait(base()),
        "unified" => Store::Unified(UnifiedKeyStore::new(base())),
        "nested" => Store::Nested(UnifiedKeyStore::new(UnifiedKeyStore::new(base()))),
        "custom" => Store::Custom(UnifiedKeyStore::new(StaleCountBackend { keys: BTreeMap::new(), synced: 0, saves: std::cell::Cell::new(0) })),
        _ => Store::Direct(base()),
    };
    let mut universe: Vec<u64> = vec![0, 1, u64::MAX, 0xFA50_5078_126A_CB3E];
    for op in prog["ops"].as_array().expect("ops") {
        if let Some(id) = op.get("id") {
            universe.push(u64_of(id));
        }
    }
    universe.sort_unstable();
    universe.dedup();
    out.ev(json!({"op": "new", "kind": "ks", "init": init, "via": via, "obs": obs_store(&st, &universe), "prog": prog}));
    let mut seq = 0u64;
    for op in prog["ops"].as_array().expect("ops") {
        let name = op["op"].as_str().expect("op");
        let mut ev = op.clone();
        out.begin(op);
        if name == "load" {
            ev["cp"] = cps(&text_of(op));
        }
        if name == "from_hex" {
            ev["cp"] = cps(&render(op["txt"].as_str().expect("txt")));
        }
        let r = guarded(|| -> Value {
            match name {
                "add" => {
                    let k = TactKey::new(u64_of(&op["id"]), key_of(&op["key"]));
                    match &mut st {
                        Store::Direct(t) => {
                            t.add(k);
                            json!({"ok": true})
                        }
                        Store::Trait(t) => unit(t.add_key(k)),
                        Store::Unified(u) => unit(u.add_key(k)),
                        Store::Nested(u) => unit(u.add_key(k)),
                        Store::Custom(u) => unit(u.add_key(k)),
                    }
                }
                "remove" => {
                    let id = u64_of(&op["id"]);
                    match &mut st {
                        Store::Direct(t) => json!({"ok": optj(t.remove(id))}),
                        Store::Trait(t) => opt(t.remove_key(id)),
                        Store::Unified(u) => opt(u.remove_key(id)),
                        Store::Nested(u) => opt(u.remove_key(id)),
                        Store::Custom(u) => opt(u.remove_key(id)),
                    }
                }
                "get" => {
                    let id = u64_of(&op["id"]);
                    match &st {
                        Store::Direct(t) => json!({"ok": optj(t.get(id).copied())}),
                        Store::Trait(t) => opt(t.get_key(id)),
                        Store::Unified(u) => opt(u.get_key(id)),
                        Store::Nested(u) => opt(u.get_key(id)),
                        Store::Custom(u) => opt(u.get_key(id)),
                    }
                }
                "load" => {
                    let text = text_of(op);
                    let fmt = op["fmt"].as_str().expect("fmt");
                    match inner_mut(&mut st) {
                        Some(t) => json!({"ok": bn(if fmt == "csv" { t.load_from_csv(&text) } else { t.load_from_txt(&text) } as u128)}),
                        None => json!({"err": "text loading is not part of the trait"}),
                    }
                }
                "from_hex" => {
                    let text = render(op["txt"].as_str().expect("txt"));
                    match TactKey::from_hex(7, &text) {
                        Ok(k) => json!({"ok": {"key": keyj(&k.key), "id": bn(u128::from(k.id))}}),
                        Err(e) => json!({"err": e.to_string()}),
                    }
                }
                "load_keys" => match &mut st {
                    Store::Direct(t) | Store::Trait(t) => cnt(t.load_keys()),
                    Store::Unified(u) => cnt(u.load_keys()),
                    Store::Nested(u) => cnt(u.load_keys()),
                    Store::Custom(u) => cnt(u.load_keys()),
                },
                "save_keys" => match &st {
                    Store::Direct(t) | Store::Trait(t) => unit(t.save_keys()),
                    Store::Unified(u) => unit(u.save_keys()),
                    Store::Nested(u) => unit(u.save_keys()),
                    Store::Custom(u) => {
                        let mut r = unit(u.save_keys());
                        r["backend_saves"] = json!(u.backend().saves.get());
                        r
                    }
                },
                "debug" => {
                    let (s, k) = match &st {
                        Store::Direct(t) | Store::Trait(t) => (format!("{t:?}"), t.iter().next().map(|k| format!("{k:?}"))),
                        Store::Unified(u) => (format!("{u:?}"), None),
                        Store::Nested(u) => (format!("{u:?}"), None),
                        Store::Custom(_) => (String::new(), None),
                    };
                    json!({"ok": {"store": tokens(&s), "key": tokens(&k.unwrap_or_default())}})
                }
                other => panic!("driver: unknown ks op {other}"),
            }
        });
        seq += 1;
        ev["seq"] = json!(seq);
        ev["res"] = res_of(r);
        ev["obs"] = res_of(guarded(|| obs_store(&st, &universe)));
        out.ev(ev);
    }
}

// --------------------------------------------------------------------------- keyring as a producer of keys
fn run_kr(prog: &Value, out: &Emit) {
    let mut kr = KeyringConfig::new();
    out.ev(json!({"op": "new", "kind": "kr", "prog": prog}));
    let ents = |k: &KeyringConfig| -> Value { json!(k.entries().iter().map(|e| json!([cps(&e.key_id), cps(&e.key_value)])).collect::<Vec<_>>()) };
    let mut seq = 0u64;
    for op in prog["ops"].as_array().expect("ops") {
        let name = op["op"].as_str().expect("op");
        let mut ev = op.clone();
        out.begin(op);
        if let Some(t) = op.get("idt").and_then(Value::as_str) {
            ev["idcp"] = cps(t);
        }
        if let Some(t) = op.get("valt").and_then(Value::as_str) {
            ev["valcp"] = cps(t);
        }
        let r = guarded(|| -> Value {
            match name {
                "add" => {
                    kr.add_entry(op["idt"].as_str().expect("idt"), op["valt"].as_str().expect("valt"));
                    json!({"ok": true})
                }
                "get" => match kr.get_key(op["idt"].as_str().expect("idt")) {
                    Some(v) => json!({"ok": [cps(v)]}),
                    None => json!({"ok": []}),
                },
                "get_id" => match kr.get_key_by_id(u64_of(&op["id"])) {
                    Some(v) => json!({"ok": [cps(v)]}),
                    None => json!({"ok": []}),
                },
                "roundtrip" => match KeyringConfig::parse(&kr.build()[..]) {
                    Ok(k2) => json!({"ok": {"entries": ents(&k2)}}),
                    Err(e) => json!({"err": e.to_string()}),
                },
                "to_store" => {
                    // the obvious glue: hex id -> u64, TactKey::from_hex on the value, TactKeyStore::add, in file order
                    let mut st = TactKeyStore::empty();
                    let mut conv = vec![];
                    for e in kr.entries() {
                        let id = u64::from_str_radix(&e.key_id, 16);
                        let ok = match id {
                            Ok(id) => match TactKey::from_hex(id, &e.key_value) {
                                Ok(k) => {
                                    st.add(k);
                                    true
                                }
                                Err(_) => false,
                            },
                            Err(_) => false,
                        };
                        conv.push(ok);
                    }
                    let mut it: Vec<TactKey> = st.iter().collect();
                    it.sort_by_key(|k| k.id);
                    let by_id: Vec<Value> = it
                        .iter()
                        .map(|k| json!([bn(u128::from(k.id)), keyj(&k.key), match kr.get_key_by_id(k.id) { Some(v) => json!([cps(v)]), None => json!([]) }]))
                        .collect();
                    json!({"ok": {"converted": conv, "pairs": by_id}})
                }
                other => panic!("driver: unknown kr op {other}"),
            }
        });
        seq += 1;
        ev["seq"] = json!(seq);
        ev["res"] = res_of(r);
        ev["obs"] = res_of(guarded(|| json!({"entries": ents(&kr), "len": kr.len(), "empty": kr.is_empty(), "valid": kr.validate().is_ok()})));
        out.ev(ev);
    }
}

// --------------------------------------------------------------------------- cache statistics
fn statsj(s: &CacheStats) -> Value {
    json!({"gets": bn(u128::from(s.get_count)), "hits": bn(u128::from(s.hit_count)), "misses": bn(u128::from(s.miss_count)),
           "puts": bn(u128::from(s.put_count)), "rems": bn(u128::from(s.remove_count)), "evis": bn(u128::from(s.eviction_count)),
           "exps": bn(u128::from(s.expiration_count)), "n": bn(s.entry_count as u128), "mem": bn(s.memory_usage_bytes as u128),
           "max": bn(s.max_memory_usage_bytes as u128), "avg_get": bn(s.avg_get_time.as_nanos()), "avg_put": bn(s.avg_put_time.as_nanos()),
           "created": bn(u128::from(s.created_at_ms)), "updated": bn(u128::from(s.updated_at_ms))})
}
fn stats_of(v: &Value) -> CacheStats {
    let mut s = CacheStats::new();
    s.get_count = u64_of(&v["gets"]);
    s.hit_count = u64_of(&v["hits"]);
    s.miss_count = u64_of(&v["misses"]);
    s.put_count = u64_of(&v["puts"]);
    s.remove_count = u64_of(&v["rems"]);
    s.eviction_count = u64_of(&v["evis"]);
    s.expiration_count = u64_of(&v["exps"]);
    s.entry_count = usize_of(&v["n"]);
    s.memory_usage_bytes = usize_of(&v["mem"]);
    s.max_memory_usage_bytes = usize_of(&v["max"]);
    s.avg_get_time = dur_of(&v["avg_get"]);
    s.avg_put_time = dur_of(&v["avg_put"]);
    if let Some(c) = v.get("created") {
        s.created_at_ms = u64_of(c);
    }
    s
}
fn ratesj(s: &CacheStats, cap: usize) -> Value {
    json!({"hit": fl(s.hit_rate()), "miss": fl(s.miss_rate()), "cap": bn(cap as u128), "util": fl(s.utilization(cap)),
           "memutil": fl(s.memory_utilization(cap)), "util0": fl(s.utilization(0)), "memutil0": fl(s.memory_utilization(0))})
}

fn run_met(prog: &Value, out: &Emit) {
    let m = AtomicCacheMetrics::new();
    let cap = prog.get("cap").map_or(1000, usize_of);
    out.ev(json!({"op": "new", "kind": "met", "usize_bits": usize::BITS, "prog": prog}));
    let mut seq = 0u64;
    for op in prog["ops"].as_array().expect("ops") {
        let name = op["op"].as_str().expect("op");
        let mut ev = op.clone();
        out.begin(op);
        if let Some(d) = op.get("d") {
            ev["d"] = dj(dur_of(d));
        }
        if let Some(b) = op.get("ops").and_then(Value::as_array) {
            ev["ops"] = json!(b.iter().map(|x| json!([x[0], dj(dur_of(&x[1]))])).collect::<Vec<_>>());
        }
        let r = guarded(|| -> Value {
            match name {
                "get" => m.record_get(op["hit"].as_bool().expect("hit"), dur_of(&op["d"])),
                "put" => m.record_put(usize_of(&op["n"]), dur_of(&op["d"])),
                "rem" => m.record_remove(usize_of(&op["n"])),
                "evi" => m.record_eviction(usize_of(&op["n"])),
                "exp" => m.record_expiration(usize_of(&op["n"])),
                "batch" => {
                    let v: Vec<(bool, Duration)> = op["ops"].as_array().expect("ops").iter().map(|x| (x[0].as_bool().expect("hit"), dur_of(&x[1]))).collect();
                    m.record_batch_gets(&v);
                }
                "reset" => m.reset(),
                other => panic!("driver: unknown met op {other}"),
            }
            json!({"ok": true})
        });
        seq += 1;
        ev["seq"] = json!(seq);
        ev["res"] = res_of(r);
        ev["obs"] = res_of(guarded(|| {
            let sn = m.snapshot();
            let fa = m.fast_snapshot();
            json!({"sn": statsj(&sn), "rates": ratesj(&sn, cap),
                   "fa": {"gets": bn(u128::from(fa.get_count)), "hits": bn(u128::from(fa.hit_count)), "n": bn(u128::from(fa.entry_count)),
                          "mb": bn(u128::from(fa.memory_usage_mb)), "bytes": bn(fa.memory_usage_bytes() as u128), "rate": fl(f64::from(fa.hit_rate()))},
                   "fhit": fl(f64::from(m.fast_hit_rate())), "fmem": fl(f64::from(m.fast_memory_utilization(cap))),
                   "fmem0": fl(f64::from(m.fast_memory_utilization(0)))})
        }));
        out.ev(ev);
    }
}

fn run_merge(prog: &Value, out: &Emit) {
    let mut slots: Vec<CacheStats> = prog["slots"].as_array().expect("slots").iter().map(stats_of).collect();
    let cap = prog.get("cap").map_or(1000, usize_of);
    out.ev(json!({"op": "new", "kind": "merge", "slots": slots.iter().map(statsj).collect::<Vec<_>>(), "usize_bits": usize::BITS, "prog": prog}));
    let mut seq = 0u64;
    for op in prog["ops"].as_array().expect("ops") {
        let mut ev = op.clone();
        out.begin(op);
        let a = op["a"].as_u64().expect("a") as usize;
        let b = op["b"].as_u64().expect("b") as usize;
        let other = slots[b].clone();
        let r = guarded(|| {
            slots[a].merge(&other);
            json!({"ok": true})
        });
        seq += 1;
        ev["seq"] = json!(seq);
        ev["res"] = res_of(r);
        ev["obs"] = res_of(guarded(|| json!({"slot": statsj(&slots[a]), "rates": ratesj(&slots[a], cap)})));
        out.ev(ev);
    }
}

fn run_opm(prog: &Value, out: &Emit) {
    let mut m = OperationMetrics::new("get");
    out.ev(json!({"op": "new", "kind": "opm", "prog": prog}));
    let w = prog.get("window").map_or(Duration::from_secs(1), dur_of);
    let mut seq = 0u64;
    for op in prog["ops"].as_array().expect("ops") {
        let name = op["op"].as_str().expect("op");
        let mut ev = op.clone();
        out.begin(op);
        if let Some(d) = op.get("d") {
            ev["d"] = dj(dur_of(d));
        }
        let r = guarded(|| {
            match name {
                "record" => m.record(dur_of(&op["d"])),
                "set_count" => m.count = u64_of(&op["c"]),
                other => panic!("driver: unknown opm op {other}"),
            }
            json!({"ok": true})
        });
        seq += 1;
        ev["seq"] = json!(seq);
        ev["res"] = res_of(r);
        ev["obs"] = json!({"count": bn(u128::from(m.count)), "total": bn(m.total_duration.as_nanos()), "min": bn(m.min_duration.as_nanos()),
                           "max": bn(m.max_duration.as_nanos()), "avg": res_of(guarded(|| json!({"ns": bn(m.avg_duration().as_nanos())}))),
                           "window": dj(w), "ops": res_of(guarded(|| fl(m.ops_per_second(w)))), "ops0": res_of(guarded(|| fl(m.ops_per_second(Duration::ZERO))))});
        out.ev(ev);
    }
}

fn run_mls(prog: &Value, out: &Emit) {
    let layers = prog["layers"].as_u64().expect("layers") as usize;
    let mut m = MultiLayerStats::new(layers);
    out.ev(json!({"op": "new", "kind": "mls", "layers": layers, "prog": prog}));
    let mut seq = 0u64;
    for op in prog["ops"].as_array().expect("ops") {
        let name = op["op"].as_str().expect("op");
        let mut ev = op.clone();
        out.begin(op);
        let r = guarded(|| {
            match name {
                "update" => {
                    let st = stats_of(&op["st"]);
                    m.update_layer(op["i"].as_u64().expect("i") as usize, st);
                }
                "promo" => m.record_promotion(op["f"].as_u64().expect("f") as usize, op["t"].as_u64().expect("t") as usize),
                other => panic!("driver: unknown mls op {other}"),
            }
            json!({"ok": true})
        });
        if name == "update" {
            ev["st"] = statsj(&stats_of(&op["st"]));
        }
        seq += 1;
        ev["seq"] = json!(seq);
        ev["res"] = res_of(r);
        let mut counts = vec![];
        for f in 0..3usize {
            for t in 0..3usize {
                counts.push(json!([f, t, bn(u128::from(m.promotion_stats.get_promotion_count(f, t)))]));
            }
        }
        ev["obs"] = json!({"layers": m.layer_stats.iter().map(statsj).collect::<Vec<_>>(), "total": statsj(&m.total_stats),
                           "overall": fl(m.overall_hit_rate()), "promos": bn(u128::from(m.promotion_stats.total_promotions)), "counts": counts});
        out.ev(ev);
    }
}

// --------------------------------------------------------------------------- streaming metrics
const CACHES: [&str; 3] = ["a", "b", "zz"];
fn sm_obs(m: &StreamingMetrics) -> Value {
    let caches: Vec<Value> = CACHES
        .iter()
        .map(|c| {
            let s = m.cache_stats(c);
            json!([c, {"hits": bn(u128::from(s.hits.load(Ordering::Relaxed))), "misses": bn(u128::from(s.misses.load(Ordering::Relaxed))),
                       "size": bn(u128::from(s.size.load(Ordering::Relaxed))), "evictions": bn(u128::from(s.evictions.load(Ordering::Relaxed))),
                       "ratio": res_of(guarded(|| fl(s.hit_ratio())))}])
        })
        .collect();
    json!({"down": bn(u128::from(m.bytes_downloaded.load(Ordering::Relaxed))), "up": bn(u128::from(m.bytes_uploaded.load(Ordering::Relaxed))),
           "bw": bn(u128::from(m.current_bandwidth.load(Ordering::Relaxed))), "peak": bn(u128::from(m.peak_bandwidth.load(Ordering::Relaxed))),
           "rr": bn(u128::from(m.range_requests.load(Ordering::Relaxed))), "rc": bn(u128::from(m.ranges_coalesced.load(Ordering::Relaxed))),
           "fo": bn(u128::from(m.cdn_failovers.load(Ordering::Relaxed))), "ra": bn(u128::from(m.retry_attempts.load(Ordering::Relaxed))),
           "mem": bn(u128::from(m.memory_used.load(Ordering::Relaxed))),
           "eff": fl(m.bandwidth_efficiency()), "caches": caches, "named": m.cache_stats.len()})
}
fn sm_apply(m: &StreamingMetrics, op: &Value) -> bool {
    match op["op"].as_str().expect("op") {
        "dl" => m.record_download(u64_of(&op["b"]), dur_of(&op["d"])),
        "hit" => m.record_cache_hit(op["c"].as_str().expect("c")),
        "miss" => m.record_cache_miss(op["c"].as_str().expect("c")),
        "evict" => m.record_cache_eviction(op["c"].as_str().expect("c")),
        "size" => m.update_cache_size(op["c"].as_str().expect("c"), u64_of(&op["v"])),
        // the plain public counters have no recording method: the owner updates them; the program gives the value reached
        "up" => {
            m.bytes_uploaded.store(u64_of(&op["v"]), Ordering::Relaxed);
        }
        "rr" => {
            m.range_requests.store(u64_of(&op["v"]), Ordering::Relaxed);
        }
        "rc" => {
            m.ranges_coalesced.store(u64_of(&op["v"]), Ordering::Relaxed);
        }
        "fo" => {
            m.cdn_failovers.store(u64_of(&op["v"]), Ordering::Relaxed);
        }
        "ra" => {
            m.retry_attempts.store(u64_of(&op["v"]), Ordering::Relaxed);
        }
        "mem" => {
            m.memory_used.store(u64_of(&op["v"]), Ordering::Relaxed);
        }
        _ => return false,
    }
    true
}
fn run_sm(prog: &Value, out: &Emit) {
    let m = StreamingMetrics::new();
    out.ev(json!({"op": "new", "kind": "sm", "prog": prog}));
    let mut seq = 0u64;
    for op in prog["ops"].as_array().expect("ops") {
        let mut ev = op.clone();
        out.begin(op);
        if let Some(d) = op.get("d") {
            ev["d"] = dj(dur_of(d));
        }
        let r = guarded(|| {
            assert!(sm_apply(&m, op), "driver: unknown sm op");
            json!({"ok": true})
        });
        seq += 1;
        ev["seq"] = json!(seq);
        ev["res"] = res_of(r);
        ev["obs"] = res_of(guarded(|| sm_obs(&m)));
        out.ev(ev);
    }
}

fn pm_apply(m: &PoolMetrics, rt: &tokio::runtime::Runtime, op: &Value) -> bool {
    match op["op"].as_str().expect("op") {
        // the pool adds 1 per request (pool.rs record_request_result); the program gives the value reached
        "succ" => {
            m.total_successful_requests.store(u64_of(&op["v"]), Ordering::Relaxed);
        }
        "fail" => {
            m.total_failed_requests.store(u64_of(&op["v"]), Ordering::Relaxed);
        }
        "act" => {
            m.active_connections.store(u64_of(&op["v"]), Ordering::Relaxed);
        }
        "brk_a" => {
            m.circuit_breakers_activated.store(u64_of(&op["v"]), Ordering::Relaxed);
        }
        "brk_r" => {
            m.circuit_breakers_recovered.store(u64_of(&op["v"]), Ordering::Relaxed);
        }
        "rt" => {
            let d = dur_of(&op["d"]);
            let times = op.get("times").and_then(Value::as_u64).unwrap_or(1);
            for _ in 0..times {
                rt.block_on(m.update_response_time(d));
            }
        }
        _ => return false,
    }
    true
}
fn run_pm(prog: &Value, out: &Emit) {
    let rt = rt();
    let m = PoolMetrics::new();
    out.ev(json!({"op": "new", "kind": "pm", "prog": prog}));
    let mut seq = 0u64;
    for op in prog["ops"].as_array().expect("ops") {
        let mut ev = op.clone();
        out.begin(op);
        if let Some(d) = op.get("d") {
            ev["d"] = dj(dur_of(d));
        }
        let r = guarded(|| {
            assert!(pm_apply(&m, &rt, op), "driver: unknown pm op");
            json!({"ok": true})
        });
        seq += 1;
        ev["seq"] = json!(seq);
        ev["res"] = res_of(r);
        let od = |d: Option<Duration>| match d {
            Some(d) => json!([bn(d.as_nanos())]),
            None => json!([]),
        };
        ev["obs"] = json!({"succ": bn(u128::from(m.total_successful_requests.load(Ordering::Relaxed))),
                           "fail": bn(u128::from(m.total_failed_requests.load(Ordering::Relaxed))),
                           "total": res_of(guarded(|| json!({"v": bn(u128::from(m.total_requests()))}))),
                           "rate": res_of(guarded(|| fl(m.success_rate()))),
                           "avg": res_of(guarded(|| json!({"v": od(rt.block_on(m.average_response_time()))}))),
                           "p95": res_of(guarded(|| json!({"v": od(rt.block_on(m.p95_response_time()))})))});
        out.ev(ev);
    }
}

/// name -> value of the exporter's text exposition (`# HELP` / `# TYPE` lines skipped; histogram series keep their labels).
fn gather(e: &PrometheusExporter) -> Value {
    let mut m = serde_json::Map::new();
    for line in e.gather().lines() {
        if line.starts_with('#') || line.is_empty() {
            continue;
        }
        if let Some((name, val)) = line.rsplit_once(' ') {
            if name.contains('{') || name.contains("response_time") {
                continue;
            }
            let short = name.strip_prefix("cascette_").unwrap_or(name);
            let v: f64 = val.parse().unwrap_or(f64::NAN);
            let j = if v.is_finite() && v >= 0.0 && v.fract() == 0.0 && v < 1.8e19 { json!({"int": bn(v as u128)}) } else { json!({"float": fl(v), "neg": v < 0.0}) };
            m.insert(short.to_string(), j);
        }
    }
    Value::Object(m)
}
fn run_exp(prog: &Value, out: &Emit) {
    let rt = rt();
    let p = PoolMetrics::new();
    let s = StreamingMetrics::new();
    let e = match PrometheusExporter::new() {
        Ok(e) => e,
        Err(err) => {
            out.ev(json!({"op": "new", "kind": "exp", "err": err.to_string()}));
            return;
        }
    };
    out.ev(json!({"op": "new", "kind": "exp", "obs": gather(&e), "prog": prog}));
    let mut seq = 0u64;
    for op in prog["ops"].as_array().expect("ops") {
        let name = op["op"].as_str().expect("op");
        let mut ev = op.clone();
        out.begin(op);
        if let Some(d) = op.get("d") {
            ev["d"] = dj(dur_of(d));
        }
        let r = guarded(|| {
            match name {
                "upd_pool" => e.update_from_pool_metrics(&p),
                "upd_stream" => e.update_from_streaming_metrics(&s),
                _ => assert!(pm_apply(&p, &rt, op) || sm_apply(&s, op), "driver: unknown exp op"),
            }
            json!({"ok": true})
        });
        seq += 1;
        ev["seq"] = json!(seq);
        ev["res"] = res_of(r);
        ev["obs"] = res_of(guarded(|| gather(&e)));
        ev["src"] = json!({"sm": sm_obs(&s),
                           "pool": {"succ": bn(u128::from(p.total_successful_requests.load(Ordering::Relaxed))),
                                    "fail": bn(u128::from(p.total_failed_requests.load(Ordering::Relaxed))),
                                    "act": bn(u128::from(p.active_connections.load(Ordering::Relaxed))),
                                    "ba": bn(u128::from(p.circuit_breakers_activated.load(Ordering::Relaxed))),
                                    "br": bn(u128::from(p.circuit_breakers_recovered.load(Ordering::Relaxed)))}});
        out.ev(ev);
    }
}

// --------------------------------------------------------------------------- dispatch / random programs
fn run_program(prog: &Value, out: &Emit) {
    match prog["kind"].as_str().expect("kind") {
        "ks" => run_ks(prog, out),
        "kr" => run_kr(prog, out),
        "met" => run_met(prog, out),
        "merge" => run_merge(prog, out),
        "opm" => run_opm(prog, out),
        "mls" => run_mls(prog, out),
        "sm" => run_sm(prog, out),
        "pm" => run_pm(prog, out),
        "exp" => run_exp(prog, out),
        other => panic!("driver: unknown kind {other}"),
    }
}

const SIZES: [u128; 12] = [0, 1, 2, 100, 4096, 1 << 20, (1 << 20) + 1, 1 << 32, 1 << 52, 1 << 63, u64::MAX as u128 - 1, u64::MAX as u128];
const NANOS: [u128; 14] = [0, 1, 1000, 1001, 1_000_000, 999_999_999, 1_000_000_000, 1_500_000_000, 2_000_000_000, 1 << 63, u64::MAX as u128,
                           1 << 64, (1 << 64) + 5000, u64::MAX as u128 * 1_000_000_000 + 999_999_999];

fn rnd_size(rng: &mut Rng) -> Value {
    if rng.chance(1, 3) { bn(u128::from(rng.below(100_000))) } else { bn(*rng.pick(&SIZES)) }
}
fn rnd_dur(rng: &mut Rng, extreme: bool) -> Value {
    if rng.chance(1, 2) {
        dprog(u128::from(rng.below(5_000_000_000)))
    } else {
        let n = if extreme { NANOS.len() } else { 9 };
        dprog(NANOS[rng.below(n as u64) as usize])
    }
}
const HEXKEYS: [&str; 4] = ["BDC51862ABED79B2DE48C8E7E66C6200", "aa0b5c77f088ccc2d39049bd267f066d", "00000000000000000000000000000000", "FfFfFfFfFfFfFfFfFfFfFfFfFfFfFfFf"];
const IDTXT: [&str; 14] = ["FA505078126ACB3E", "fa505078126acb3e", "0xFA505078126ACB3E", "0XFF", "0x0", "1000", "0000000000000010", "1234567890123456",
                           "18446744073709551615", "18446744073709551616", "FA505078126ACB3", "0x1FA505078126ACB3E", "+5", "DEADBEEF"];
const JUNK: [&str; 12] = ["", "   ", "# comment", "// comment", "FA505078126ACB3E", "<BOM>", "<E9><E9><E9>,<EMOJI>", "0x<E9>,00", "a,b,c", ",", "0x,", "<FW1><FW1>,<FW1>"];

fn rnd_line(rng: &mut Rng, csv: bool) -> String {
    if rng.chance(1, 5) {
        return (*rng.pick(&JUNK)).to_string();
    }
    let id = *rng.pick(&IDTXT);
    let mut key = (*rng.pick(&HEXKEYS)).to_string();
    match rng.below(12) {
        0 => key.truncate(30),
        1 => key.push_str("00"),
        2 => key.truncate(31),
        3 => key = key.replace('0', "g"),
        _ => {}
    }
    let sep = if csv { *rng.pick(&[",", ", ", " ,", " , ", "<TAB>,"]) } else { *rng.pick(&[" ", "  ", "<TAB>", " <TAB> "]) };
    let pre = *rng.pick(&["", "", "", " ", "<TAB>", "<BOM>", "<NBSP>"]);
    let post = *rng.pick(&["", "", "", " ", "<TAB>", " # c", ",x", " x", "<NBSP>"]);
    format!("{pre}{id}{sep}{key}{post}")
}

fn random_program(rng: &mut Rng, len: usize) -> Value {
    match rng.below(10) {
        0..=3 => {
            let via = *rng.pick(&["direct", "direct", "trait", "unified", "nested", "custom"]);
            let init = if via == "custom" { "empty" } else { *rng.pick(&["empty", "empty", "new"]) };
            let ids: [u64; 6] = [0, 1, u64::MAX, 0xFA50_5078_126A_CB3E, 0x10, 1000];
            let mut ops = vec![];
            for _ in 0..len.min(12) {
                let id = bn(u128::from(*rng.pick(&ids)));
                let key: Vec<u8> = vec![rng.below(3) as u8 * 127; 16];
                ops.push(match rng.below(12) {
                    0..=3 => json!({"op": "add", "id": id, "key": key}),
                    4..=5 => json!({"op": "remove", "id": id}),
                    6 => json!({"op": "get", "id": id}),
                    7 => json!({"op": "load_keys"}),
                    8 => json!({"op": "save_keys"}),
                    _ if via == "custom" => json!({"op": "get", "id": id}),
                    _ => {
                        let csv = rng.chance(1, 2);
                        let n = rng.below(5);
                        let lines: Vec<String> = (0..n).map(|_| rnd_line(rng, csv)).collect();
                        json!({"op": "load", "fmt": if csv { "csv" } else { "txt" }, "lines": lines, "eol": *rng.pick(&["lf", "crlf"]), "fin": rng.chance(2, 3)})
                    }
                });
            }
            json!({"kind": "ks", "init": init, "via": via, "ops": ops})
        }
        4..=6 => {
            let extreme = rng.chance(1, 3);
            let mut ops = vec![];
            for _ in 0..len {
                ops.push(match rng.below(20) {
                    0..=5 => json!({"op": "get", "hit": rng.chance(1, 2), "d": rnd_dur(rng, extreme)}),
                    6..=10 => json!({"op": "put", "n": rnd_size(rng), "d": rnd_dur(rng, extreme)}),
                    11..=12 => json!({"op": "rem", "n": rnd_size(rng)}),
                    13..=14 => json!({"op": "evi", "n": rnd_size(rng)}),
                    15 => json!({"op": "exp", "n": rnd_size(rng)}),
                    16..=18 => {
                        let n = rng.below(4);
                        let b: Vec<Value> = (0..n).map(|_| json!([rng.chance(1, 2), rnd_dur(rng, extreme)])).collect();
                        json!({"op": "batch", "ops": b})
                    }
                    _ => json!({"op": "reset"}),
                });
            }
            json!({"kind": "met", "cap": rnd_size(rng), "ops": ops})
        }
        7..=8 => {
            let mut ops = vec![];
            for _ in 0..len {
                let c = *rng.pick(&["a", "b"]);
                ops.push(match rng.below(10) {
                    0..=4 => json!({"op": "dl", "b": rnd_size(rng), "d": rnd_dur(rng, false)}),
                    5 => json!({"op": "hit", "c": c}),
                    6 => json!({"op": "miss", "c": c}),
                    7 => json!({"op": "evict", "c": c}),
                    8 => json!({"op": "size", "c": c, "v": rnd_size(rng)}),
                    _ => json!({"op": "up", "v": rnd_size(rng)}),
                });
            }
            json!({"kind": "sm", "ops": ops})
        }
        _ => {
            let mut ops = vec![];
            for _ in 0..len {
                ops.push(match rng.below(6) {
                    0 => json!({"op": "succ", "v": rnd_size(rng)}),
                    1 => json!({"op": "fail", "v": rnd_size(rng)}),
                    2 => json!({"op": "rt", "d": rnd_dur(rng, false), "times": 1 + rng.below(700)}),
                    _ => json!({"op": "rt", "d": rnd_dur(rng, false)}),
                });
            }
            json!({"kind": "pm", "ops": ops})
        }
    }
}

fn main() {
    quiet_panics();
    let args: Vec<String> = std::env::args().collect();
    let mut out = Out::from_arg(arg(&args, "--out").as_ref());
    let mut programs = vec![];
    if let Some(p) = arg(&args, "--programs") {
        programs = read_programs(&p);
    }
    let nrand = arg_u64(&args, "--random", 0);
    if nrand > 0 {
        let mut rng = Rng::new(seed_from_env());
        let len = arg_u64(&args, "--len", 30) as usize;
        let mut dump = arg(&args, "--dump-programs").map(|p| Out::to_path(std::path::Path::new(&p)));
        for _ in 0..nrand {
            let prog = random_program(&mut rng, len);
            if let Some(d) = dump.as_mut() {
                d.ev(&prog);
            }
            programs.push(prog);
        }
    }
    if has_flag(&args, "--dump-only") {
        eprintln!("{}", json!({"programs": programs.len(), "events": 0, "hangs": 0, "skipped": 0}));
        return;
    }
    let st = run_with_watchdog(programs, &mut out, std::time::Duration::from_secs(20), run_program);
    out.flush();
    eprintln!("{}", json!({"programs": st.programs, "events": out.events, "hangs": st.hangs, "skipped": st.skipped}));
    if st.skipped > 0 {
        std::process::exit(3);
    }
}
