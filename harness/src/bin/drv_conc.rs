//! C11 driver: replays TLC-generated schedules (and seeded random ones) on the real caches.
//!
//! usage: drv_conc --target mem|memc|disk|diskc|ml|proto|protod|dyn --programs <file> --out <file>
//!        drv_conc --target mem|memc|disk|diskc|ml|proto|protod|dyn --random N --tasks T --ops K --keys M --out <file>
//! Target ml = MultiLayerCacheImpl (memory layer over a disk layer; initial kind "l2" = a live value that sits in
//! the disk layer only); proto / protod = ProtocolCache (the sync facade of cascette-protocol over a memory / a disk
//! cache; odd-numbered tasks call it from inside a tokio runtime, which takes the facade's other bridge path).
//! Targets memc / diskc = MemoryCache::new_with_cleanup / DiskCache::new_with_background_tasks: the background cleanup task lives on a private tokio
//! runtime whose clock is paused; the operation "sweep" advances that clock by one cleanup interval and
//! drives the runtime on the calling thread, so one "sweep" = one tick of the cleanup task, executed by
//! (and scheduled as part of) the task that issued it.
//!
//! Program (one JSON object per line, from MC_CacheConc / MC_DiskConc):
//!   {"init":["none"|"live"|"exp", ...per key], "progs":[[{"op":..,"k":..}, ...], ...per task],
//!    "sched":[[task, "site"], ...], "model":{"map":[id per key],"cnt":n,"mem":n}}
//! Output: one JSON line per run with the complete invocation/response history
//! (global stamps from one atomic counter: inv taken before the call, ret after it
//! returned), whether the schedule could be followed, and the final sequential probes.
//! The history is judged by spec/trace/T_Lin.tla; this program decides nothing.
use bytes::Bytes;
use cascette_cache::config::{DiskCacheConfig, MemoryCacheConfig};
use cascette_cache::disk_cache::DiskCache;
use cascette_cache::key::RibbitKey;
use cascette_cache::memory_cache::MemoryCache;
use cascette_cache::traits::AsyncCache;
use cascette_cache::verif_hooks;
use serde_json::{Value, json};
use std::cell::Cell;
use std::sync::atomic::{AtomicU64, Ordering};
use std::sync::{Arc, Condvar, Mutex};
use std::time::Duration;
use verif_harness::*;

// ----------------------------------------------------------------------------- controller
#[derive(Clone, Debug, PartialEq)]
enum St {
    Running,
    At(&'static str),
    Done,
}
struct CtlState {
    generation: u64,
    tasks: Vec<St>,
    grant: Option<usize>,
    free: bool,
}
struct Ctl {
    st: Mutex<CtlState>,
    cv: Condvar,
}
thread_local! { static TASK: Cell<Option<(u64, usize)>> = const { Cell::new(None) }; }

impl Ctl {
    fn park(&self, generation: u64, t: usize, site: &'static str) {
        let mut g = self.st.lock().unwrap();
        if g.generation != generation || g.free {
            return;
        }
        g.tasks[t] = St::At(site);
        self.cv.notify_all();
        while g.grant != Some(t) && !g.free && g.generation == generation {
            g = self.cv.wait(g).unwrap();
        }
        if g.generation == generation {
            if g.grant == Some(t) {
                g.grant = None;
            }
            g.tasks[t] = St::Running;
        }
    }
    fn done(&self, generation: u64, t: usize) {
        let mut g = self.st.lock().unwrap();
        if g.generation == generation {
            g.tasks[t] = St::Done;
            self.cv.notify_all();
        }
    }
    /// Grant one step to task t; wait until it parks again or finishes.
    fn step(&self, t: usize) -> Result<St, String> {
        let mut g = self.st.lock().unwrap();
        if g.tasks[t] == St::Done {
            return Err(format!("task {t} already done"));
        }
        if g.tasks[t] == St::Running {
            return Err(format!("task {t} not parked"));
        }
        g.grant = Some(t);
        self.cv.notify_all();
        let deadline = std::time::Instant::now() + Duration::from_millis(3000);   // generous: the machine may be heavily loaded
        loop {
            let (ng, _) = self.cv.wait_timeout(g, Duration::from_millis(50)).unwrap();
            g = ng;
            if g.grant.is_none() && g.tasks[t] != St::Running {
                return Ok(g.tasks[t].clone());
            }
            if std::time::Instant::now() > deadline {
                return Err(format!("task {t} did not reach a scheduling point (blocked): {:?}", g.tasks));
            }
        }
    }
    fn wait_all_parked(&self) -> bool {
        let mut g = self.st.lock().unwrap();
        let deadline = std::time::Instant::now() + Duration::from_secs(2);
        while g.tasks.iter().any(|s| *s == St::Running) {
            let (ng, _) = self.cv.wait_timeout(g, Duration::from_millis(50)).unwrap();
            g = ng;
            if std::time::Instant::now() > deadline {
                return false;
            }
        }
        true
    }
    fn set_free(&self) {
        let mut g = self.st.lock().unwrap();
        g.free = true;
        self.cv.notify_all();
    }
    fn reset(&self, n: usize) -> u64 {
        let mut g = self.st.lock().unwrap();
        g.generation += 1;
        g.tasks = vec![St::Running; n];
        g.grant = None;
        g.free = false;
        self.cv.notify_all();
        g.generation
    }
}

// ----------------------------------------------------------------------------- values
/// size of the value with identity `id`: distinct per id, and small for the long stress histories
fn size_of(id: u64) -> usize {
    1 + 3 * id as usize
}
fn value_of(id: u64) -> Bytes {
    Bytes::from(vec![id as u8; size_of(id)])
}
/// 0 = none, id = a whole value some put wrote, -1 = anything else (torn / foreign bytes)
fn decode(v: &Option<Bytes>) -> i64 {
    match v {
        None => 0,
        Some(b) => {
            if b.is_empty() {
                return -1;
            }
            let id = b[0] as u64;
            if id >= 1 && id <= 250 && b.len() == size_of(id) && b.iter().all(|x| *x as u64 == id) { id as i64 } else { -1 }
        }
    }
}
fn key_of(k: u64) -> RibbitKey {
    RibbitKey::new(format!("k{k}"), "us")
}

static STAMP: AtomicU64 = AtomicU64::new(1);
fn stamp() -> u64 {
    STAMP.fetch_add(1, Ordering::SeqCst)
}

async fn exec<C: AsyncCache<RibbitKey>>(c: &C, op: &str, k: u64, id: u64) -> Value {
    match op {
        "get" => match c.get(&key_of(k)).await {
            Ok(v) => json!(decode(&v)),
            Err(_) => json!("err"),
        },
        "contains" => match c.contains(&key_of(k)).await {
            Ok(b) => json!(b),
            Err(_) => json!("err"),
        },
        "put" => match c.put_with_ttl(key_of(k), value_of(id), Duration::from_secs(3600)).await {
            Ok(()) => json!("ok"),
            Err(_) => json!("err"),
        },
        "put_exp" => match c.put_with_ttl(key_of(k), value_of(id), Duration::ZERO).await {
            Ok(()) => json!("ok"),
            Err(_) => json!("err"),
        },
        "remove" => match c.remove(&key_of(k)).await {
            Ok(b) => json!(b),
            Err(_) => json!("err"),
        },
        "clear" => match c.clear().await {
            Ok(()) => json!("ok"),
            Err(_) => json!("err"),
        },
        "size" => match c.size().await {
            // a wrapped (negative) counter is reported as -1: TLC integers are 32-bit
            Ok(n) => json!(if n > 1_000_000 { -1 } else { n as i64 }),
            Err(_) => json!("err"),
        },
        "mem" => match c.stats().await {
            Ok(s) => json!(if s.memory_usage_bytes > 1_000_000_000 { -1 } else { s.memory_usage_bytes as i64 }),
            Err(_) => json!("err"),
        },
        other => panic!("driver: unknown op {other}"),
    }
}

/// DynamicContainer as a presence map: key k <-> the content written by "put"(k); the stored object is
/// addressed by the encoding key of its BLTE wrapping, so every writer of k writes the same bytes.
thread_local! { static TOKIO_RT: tokio::runtime::Runtime = verif_harness::rt(); }
/// DynamicContainer uses tokio::fs: every thread drives its calls on its own current-thread runtime
fn tok<F: std::future::Future>(f: F) -> F::Output {
    TOKIO_RT.with(|rt| rt.block_on(f))
}

fn dyn_exec(dir: &std::path::Path) -> Exec {
    use cascette_client_storage::container::{AccessMode, Container, DynamicContainer};
    use cascette_formats::CascFormat;
    use cascette_formats::blte::{BlteFile, CompressionMode};
    let dirb = dir.to_path_buf();
    let mk = move || {
        let c = DynamicContainer::new(AccessMode::ReadWrite, dirb.clone(), false, 100, 1 << 30, false).expect("container");
        tok(c.open()).expect("open container");
        Arc::new(c)
    };
    let cell = Arc::new(std::sync::RwLock::new(mk()));
    let content = |k: u64| -> Vec<u8> { (0..(64 + k * 37)).map(|i| (i as u8) ^ (k as u8).wrapping_mul(31)).collect() };
    let key_of = move |k: u64| -> [u8; 16] {
        let b = BlteFile::single_chunk(content(k), CompressionMode::None).expect("blte").build().expect("blte build");
        *cascette_crypto::EncodingKey::from_data(&b).as_bytes()
    };
    Arc::new(move |op, k, _id| {
      if op == "reopen" {
          // close (drop) the container and open the directory again: the persisted index must agree with memory
          let fresh = mk();
          *cell.write().unwrap() = fresh;
          return json!("ok");
      }
      let c = cell.read().unwrap().clone();
      match op {
        // the value of key k is identified by k itself (id = k in the history)
        "put" | "put_exp" => match tok(c.write(&key_of(k), &content(k))) {
            Ok(()) => json!("ok"),
            Err(e) => {
                if std::env::var("VERIF_DEBUG").is_ok() {
                    eprintln!("dyn write error: {e}");
                }
                json!("err")
            }
        },
        "get" => {
            let mut buf = vec![0u8; 4096];
            match tok(c.read(&key_of(k), 0, 4096, &mut buf)) {
                Ok(n) if buf[..n] == content(k)[..] => json!(k),
                Ok(_) => json!(-1),
                Err(cascette_client_storage::StorageError::NotFound(_)) => json!(0),
                Err(_) => json!("err"),
            }
        }
        "contains" => match tok(c.query(&key_of(k))) {
            Ok(b) => json!(b),
            Err(_) => json!("err"),
        },
        "remove" => match tok(c.remove(&key_of(k))) {
            Ok(()) => json!("ok"),
            Err(_) => json!("err"),
        },
        other => panic!("driver: op {other} not supported by the dyn target"),
      }
    })
}

fn op_record(t: usize, i: usize, op: &str, k: u64, id: u64, inv: u64, ret: u64, res: Value) -> Value {
    // results are typed for TLC (which cannot compare an integer with a string): rk = kind, rv = integer value
    let (rk, rv) = match &res {
        Value::Bool(b) => ("bool", i64::from(*b)),
        Value::Number(n) => ("int", n.as_i64().unwrap_or(-1)),
        Value::String(s) if s == "ok" => ("ok", 0),
        Value::String(_) => ("err", 0),
        _ => ("panic", 0),
    };
    json!({"t": t, "i": i, "op": op, "k": k, "id": id, "inv": inv, "ret": ret, "res": res, "rk": rk, "rv": rv})
}

type Exec = Arc<dyn Fn(&str, u64, u64) -> Value + Send + Sync>;

fn cache_exec<C: AsyncCache<RibbitKey> + 'static>(cache: Arc<C>) -> Exec {
    Arc::new(move |op, k, id| futures::executor::block_on(exec(&*cache, op, k, id)))
}

/// A cache with its background cleanup task (see the module comment): `make` runs inside the private
/// runtime (paused clock) so that the task is spawned there; "sweep" = advance the clock by one interval
/// and drive the runtime on the calling thread.
const TICK: Duration = Duration::from_secs(60);
fn ticking_exec<C: AsyncCache<RibbitKey> + 'static>(make: impl FnOnce() -> C) -> Exec {
    let rt = tokio::runtime::Builder::new_current_thread().enable_time().start_paused(true).build().expect("runtime");
    let cache = rt.block_on(async {
        let c = make();
        // the interval's first tick is immediate: let the task sweep the empty cache now
        for _ in 0..3 {
            tokio::task::yield_now().await;
        }
        c
    });
    let cache = Arc::new(cache);
    let rt = Mutex::new(rt);
    Arc::new(move |op, k, id| {
        if op == "sweep" {
            let g = rt.lock().unwrap_or_else(std::sync::PoisonError::into_inner);
            g.block_on(async {
                tokio::time::advance(TICK).await;
                for _ in 0..3 {
                    tokio::task::yield_now().await;
                }
            });
            json!("ok")
        } else {
            futures::executor::block_on(exec(&*cache, op, k, id))
        }
    })
}
fn diskc_exec(dir: &std::path::Path) -> Exec {
    // the second background task runs the `sync` command at every sync interval (and once at start): it is
    // kept out of the way (main() empties PATH for this target, so the command is simply not found)
    let cfg = DiskCacheConfig { cleanup_interval: TICK, sync_interval: Duration::from_secs(1 << 40), ..DiskCacheConfig::new(dir.to_path_buf()).with_subdirectories(false, 0) };
    ticking_exec(move || DiskCache::<RibbitKey>::new_with_background_tasks(cfg).expect("disk cache with background tasks"))
}
fn memc_exec() -> Exec {
    let cfg = MemoryCacheConfig { cleanup_interval: TICK, ..MemoryCacheConfig::new().with_max_entries(100_000) };
    ticking_exec(move || MemoryCache::<RibbitKey>::new_with_cleanup(cfg).expect("memory cache with cleanup"))
}

/// MultiLayerCacheImpl: memory layer 0 over disk layer 1. "put_l2" (sequential prefix only) stores into layer 1.
fn ml_exec(dir: &std::path::Path) -> Exec {
    use cascette_cache::config::MultiLayerCacheConfig;
    use cascette_cache::multi_layer::MultiLayerCacheImpl;
    use cascette_cache::traits::MultiLayerCache;
    let cfg = MultiLayerCacheConfig::new()
        .add_memory_layer(MemoryCacheConfig::new().with_max_entries(100_000).with_default_ttl(Duration::from_secs(3600)))
        .add_disk_layer(DiskCacheConfig::new(dir.to_path_buf()).with_subdirectories(false, 0).with_default_ttl(Duration::from_secs(3600)));
    // the constructors spawn background tasks: they need a runtime context (its clock is paused and it is never
    // driven again, so those tasks never run)
    let rt = tokio::runtime::Builder::new_current_thread().enable_time().start_paused(true).build().expect("runtime");
    let cache = {
        let _g = rt.enter();
        Arc::new(MultiLayerCacheImpl::<RibbitKey>::new(cfg).expect("MultiLayerCacheImpl::new"))
    };
    let rt = Mutex::new(rt);
    Arc::new(move |op, k, id| {
        let _keep = &rt;
        if op == "put_l2" {
            match futures::executor::block_on(cache.put_to_layer(key_of(k), value_of(id), 1)) {
                Ok(()) => json!("ok"),
                Err(_) => json!("err"),
            }
        } else {
            futures::executor::block_on(exec(&*cache, op, k, id))
        }
    })
}

/// ProtocolCache (sync facade). `in_runtime` = the call is made from inside a tokio runtime.
fn proto_exec(dir: Option<&std::path::Path>) -> Exec {
    let cfg = cascette_protocol::CacheConfig { cache_dir: dir.map(std::path::Path::to_path_buf), ..Default::default() };
    let cache = Arc::new(cascette_protocol::cache::ProtocolCache::new(&cfg).expect("protocol cache"));
    Arc::new(move |op, k, id| {
        let key = format!("ribbit:k{k}");
        let call = || -> Value {
            match op {
                "get" => match cache.get(&key) {
                    Ok(v) => json!(decode(&v.map(Bytes::from))),
                    Err(_) => json!("err"),
                },
                "put" => match cache.store_with_ttl(&key, &value_of(id), Duration::from_secs(3600)) {
                    Ok(()) => json!("ok"),
                    Err(_) => json!("err"),
                },
                "put_exp" => match cache.store_with_ttl(&key, &value_of(id), Duration::ZERO) {
                    Ok(()) => json!("ok"),
                    Err(_) => json!("err"),
                },
                "clear" => match cache.clear() {
                    Ok(()) => json!("ok"),
                    Err(_) => json!("err"),
                },
                "size" => match cache.len() {
                    Ok(n) => json!(if n > 1_000_000 { -1 } else { n as i64 }),
                    Err(_) => json!("err"),
                },
                "mem" => match cache.stats() {
                    Ok(s) => json!(if s.memory_usage > 1_000_000_000 { -1 } else { s.memory_usage as i64 }),
                    Err(_) => json!("err"),
                },
                other => panic!("driver: op {other} not supported by the proto targets"),
            }
        };
        // odd task numbers call from inside a runtime (the facade then hands the work to a helper thread)
        let in_runtime = TASK.with(Cell::get).is_some_and(|(_, t)| t % 2 == 1);
        if in_runtime { tok(async { call() }) } else { call() }
    })
}

fn run_one(cache: Exec, prog: &Value, ctl: &Arc<Ctl>, target: &str, probes: &[&str]) -> Value {
    let nkeys = prog["init"].as_array().unwrap().len() as u64;
    let progs: Vec<Vec<Value>> = prog["progs"].as_array().unwrap().iter().map(|p| p.as_array().unwrap().clone()).collect();
    let ntasks = progs.len();
    let maxops = progs.iter().map(Vec::len).max().unwrap_or(0) as u64;
    let mut ops: Vec<Value> = vec![];
    // sequential prefix (task 0): establishes the initial state of every key
    for (ki, kind) in prog["init"].as_array().unwrap().iter().enumerate() {
        let k = ki as u64 + 1;
        let opn = match kind.as_str().unwrap() {
            "none" => continue,
            "live" => "put",
            "exp" => "put_exp",
            "l2" => "put_l2",
            other => panic!("driver: bad init kind {other}"),
        };
        let inv = stamp();
        let res = cache(opn, k, k);
        let ret = stamp();
        // for the monitor a value in the lower layer is simply the key's value
        ops.push(op_record(0, ki + 1, if opn == "put_l2" { "put" } else { opn }, k, k, inv, ret, res));
    }
    // parallel part
    let generation = ctl.reset(ntasks);
    let mut hs = vec![];
    let dyn_target = target == "dyn";
    for (t, p) in progs.iter().enumerate() {
        let (cache, ctl, p) = (cache.clone(), ctl.clone(), p.clone());
        hs.push(std::thread::spawn(move || {
            TASK.with(|c| c.set(Some((generation, t))));
            let mut recs = vec![];
            for (i, op) in p.iter().enumerate() {
                ctl.park(generation, t, "op.start");
                let name = op["op"].as_str().unwrap();
                let k = op["k"].as_u64().unwrap();
                let id = nkeys + (t as u64) * maxops + i as u64 + 1;
                let inv = stamp();
                let res = match guarded(|| cache(name, k, id)) {
                    Ok(v) => v,
                    Err(m) => outcome_panic(&m),
                };
                let ret = stamp();
                let (name, id) = if dyn_target { (if name == "remove" { "remove_u" } else { name }, k) } else { (name, id) };
                if (name == "clear" || name == "sweep") && res == json!("ok") {
                    // a clear is judged per key (a sharded map empties shard by shard): one record per key;
                    // likewise a tick of the cleanup task (it visits the keys one after the other)
                    let per_key = if name == "clear" { "clear_k" } else { "sweep_k" };
                    for kk in 1..=nkeys {
                        recs.push(op_record(t + 1, i + 1, per_key, kk, id, inv, ret, res.clone()));
                    }
                } else {
                    recs.push(op_record(t + 1, i + 1, name, k, id, inv, ret, res));
                }
            }
            ctl.done(generation, t);
            recs
        }));
    }
    let mut followed = true;
    let mut site_mismatch = 0u64;
    let mut note = String::new();
    if let Some(sched) = prog.get("sched").and_then(|s| s.as_array()) {
        if !ctl.wait_all_parked() {
            followed = false;
            note = "tasks did not reach op.start".into();
        }
        for stp in sched {
            if !followed {
                break;
            }
            let t = stp[0].as_u64().unwrap() as usize - 1;
            let want = stp[1].as_str().unwrap_or("");
            match ctl.step(t) {
                Ok(s) => {
                    let got = match &s {
                        St::At("op.start") | St::Done => "start",
                        St::At(x) => x,
                        St::Running => "running",
                    };
                    if got != want {
                        site_mismatch += 1;
                        if note.is_empty() {
                            note = format!("task {} parked at {got}, model says {want}", t + 1);
                        }
                    }
                }
                Err(e) => {
                    followed = false;
                    note = e;
                }
            }
        }
    } else {
        // unscheduled run: start together; every sched point perturbs timing (handler installed in main)
        let _ = ctl.wait_all_parked();
    }
    ctl.set_free();
    for h in hs {
        match h.join() {
            Ok(mut r) => ops.append(&mut r),
            Err(_) => ops.push(json!({"t": 99, "i": 0, "op": "thread_panic", "k": 0, "id": 0, "inv": stamp(), "ret": stamp(), "res": "err"})),
        }
    }
    // sequential probes (task 0): every key, then the books (cleanup targets: the books first as well - a
    // lookup purges an expired entry, which would hide what the cleanup task left behind)
    let mut i = 100;
    if target == "memc" || target == "diskc" {
        for name in probes {
            let inv = stamp();
            let res = cache(name, 0, 0);
            let ret = stamp();
            ops.push(op_record(0, i, name, 0, 0, inv, ret, res));
            i += 1;
        }
    }
    for k in 1..=nkeys {
        let inv = stamp();
        let res = cache("get", k, 0);
        let ret = stamp();
        ops.push(op_record(0, i, "get", k, 0, inv, ret, res));
        i += 1;
    }
    for name in probes {
        let inv = stamp();
        let res = cache(name, 0, 0);
        let ret = stamp();
        ops.push(op_record(0, i, name, 0, 0, inv, ret, res));
        i += 1;
    }
    if target == "dyn" {
        let inv = stamp();
        let res = cache("reopen", 0, 0);
        let ret = stamp();
        ops.push(op_record(0, i, "reopen", 0, 0, inv, ret, res));
        i += 1;
        for k in 1..=nkeys {
            let inv = stamp();
            let res = cache("get", k, 0);
            let ret = stamp();
            ops.push(op_record(0, i, "get", k, 0, inv, ret, res));
            i += 1;
        }
    }
    let _ = i;
    // renumber stamps densely from 1 (keeps integers small for TLC)
    let mut stamps: Vec<u64> = ops.iter().flat_map(|o| [o["inv"].as_u64().unwrap(), o["ret"].as_u64().unwrap()]).collect();
    stamps.sort_unstable();
    for o in &mut ops {
        for f in ["inv", "ret"] {
            let s = o[f].as_u64().unwrap();
            o[f] = json!(stamps.binary_search(&s).unwrap() + 1);
        }
    }
    let mut v = json!({"op": "run", "target": target, "nkeys": nkeys, "init": prog["init"], "progs": prog["progs"],
           "ops": ops, "followed": followed && site_mismatch == 0, "note": note, "scheduled": prog.get("sched").is_some()});
    // JSON null is not representable in TLC: optional fields are simply absent
    if let Some(s) = prog.get("sched") {
        v["sched"] = s.clone();
    }
    if let Some(m) = prog.get("model") {
        v["model"] = m.clone();
    }
    v
}

fn random_program(rng: &mut Rng, tasks: u64, nops: u64, keys: u64, target: &str) -> Value {
    let (kinds, names): (&[&str], &[&str]) = if target == "dyn" {
        (&["none", "live"], &["get", "contains", "put", "remove", "get", "put"])
    } else if target == "ml" {
        (&["none", "live", "exp", "l2", "l2"], &["get", "contains", "put", "put_exp", "remove", "clear", "get", "put"])
    } else if target == "proto" || target == "protod" {
        (&["none", "live", "exp"], &["get", "put", "put_exp", "clear", "get", "put"])
    } else if target == "diskc" {
        (&["none", "live", "exp"], &["get", "put", "put_exp", "put_exp", "remove", "clear", "sweep", "sweep", "size"])
    } else if target == "memc" {
        // no size() in the parallel part: MemoryCache's counters lag behind its map while an operation is in
        // flight, and the property asks for the books only once all tasks have finished
        (&["none", "live", "exp"], &["get", "contains", "put", "put_exp", "put_exp", "remove", "clear", "sweep", "sweep"])
    } else {
        (&["none", "live", "exp"], &["get", "contains", "put", "put_exp", "remove", "clear", "get", "put"])
    };
    let init: Vec<&str> = (0..keys).map(|_| *rng.pick(kinds)).collect();
    let progs: Vec<Vec<Value>> = (0..tasks)
        .map(|_| {
            (0..nops)
                .map(|_| {
                    let n = *rng.pick(names);
                    json!({"op": n, "k": if matches!(n, "clear" | "sweep" | "size") { 0 } else { 1 + rng.below(keys) }})
                })
                .collect()
        })
        .collect();
    json!({"init": init, "progs": progs})
}

fn main() {
    quiet_panics();
    let args: Vec<String> = std::env::args().collect();
    let target = arg(&args, "--target").unwrap_or_else(|| "mem".into());
    let mut out = Out::from_arg(arg(&args, "--out").as_ref());
    let mut programs = vec![];
    if let Some(p) = arg(&args, "--programs") {
        programs = read_programs(&p);
    }
    let nrand = arg_u64(&args, "--random", 0);
    let mut rng = Rng::new(seed_from_env());
    for _ in 0..nrand {
        programs.push(random_program(&mut rng, arg_u64(&args, "--tasks", 3), arg_u64(&args, "--ops", 3), arg_u64(&args, "--keys", 2), &target));
    }
    if target == "diskc" {
        // no thread has been started yet
        #[allow(unused_unsafe)]
        unsafe {
            std::env::set_var("PATH", "/nonexistent-verif-path")
        };
    }
    let ctl = Arc::new(Ctl { st: Mutex::new(CtlState { generation: 0, tasks: vec![], grant: None, free: true }), cv: Condvar::new() });
    let c2 = ctl.clone();
    // random-yield state for unscheduled runs
    let yield_seed = Arc::new(AtomicU64::new(seed_from_env()));
    let ys = yield_seed.clone();
    let handler: Arc<verif_hooks::SchedFn> = Arc::new(move |site| {
        if let Some((generation, t)) = TASK.with(Cell::get) {
            let free = {
                let g = c2.st.lock().unwrap();
                g.free || g.generation != generation
            };
            if free {
                // unscheduled: perturb timing (PCT-like): sometimes yield, sometimes sleep a little
                let x = ys.fetch_add(0x9E37_79B9_7F4A_7C15, Ordering::Relaxed);
                let z = (x ^ (x >> 29)).wrapping_mul(0xBF58_476D_1CE4_E5B9) >> 60;
                if z < 4 {
                    std::thread::yield_now();
                } else if z < 6 {
                    std::thread::sleep(Duration::from_micros(50 * z));
                }
            } else {
                c2.park(generation, t, site);
            }
        }
    });
    verif_hooks::install_sched(Some(handler.clone()));
    cascette_client_storage::verif_hooks::install_sched(Some(handler));
    let tdir = tempfile::tempdir_in(if std::path::Path::new("/dev/shm").is_dir() { "/dev/shm".into() } else { std::env::temp_dir() }).unwrap();
    let base = tdir.path().to_path_buf();
    let target2 = target.clone();
    let counter = Arc::new(AtomicU64::new(0));
    let st = run_with_watchdog(programs, &mut out, Duration::from_secs(15), move |prog, em| {
        em.begin(&json!({"program": prog["progs"], "sched": prog.get("sched")}));
        let v = if target2 == "dyn" {
            let n = counter.fetch_add(1, Ordering::Relaxed);
            let dir = base.join(format!("c{n}"));
            std::fs::create_dir_all(&dir).unwrap();
            let v = run_one(dyn_exec(&dir), prog, &ctl, "dyn", &[]);
            let _ = std::fs::remove_dir_all(&dir);
            v
        } else if target2 == "diskc" {
            let n = counter.fetch_add(1, Ordering::Relaxed);
            let dir = base.join(format!("s{n}"));
            let v = run_one(diskc_exec(&dir), prog, &ctl, "diskc", &["size", "mem"]);
            let _ = std::fs::remove_dir_all(&dir);
            v
        } else if target2 == "ml" {
            let n = counter.fetch_add(1, Ordering::Relaxed);
            let dir = base.join(format!("m{n}"));
            let v = run_one(ml_exec(&dir), prog, &ctl, "ml", &["size", "mem"]);
            let _ = std::fs::remove_dir_all(&dir);
            v
        } else if target2 == "proto" {
            run_one(proto_exec(None), prog, &ctl, "proto", &["size", "mem"])
        } else if target2 == "protod" {
            let n = counter.fetch_add(1, Ordering::Relaxed);
            let dir = base.join(format!("p{n}"));
            let v = run_one(proto_exec(Some(&dir)), prog, &ctl, "protod", &["size", "mem"]);
            let _ = std::fs::remove_dir_all(&dir);
            v
        } else if target2 == "memc" {
            run_one(memc_exec(), prog, &ctl, "memc", &["size", "mem"])
        } else if target2 == "mem" {
            let cache = Arc::new(MemoryCache::<RibbitKey>::new(MemoryCacheConfig::new().with_max_entries(100_000)).expect("memory cache"));
            run_one(cache_exec(cache), prog, &ctl, "mem", &["size", "mem"])
        } else {
            let n = counter.fetch_add(1, Ordering::Relaxed);
            let dir = base.join(format!("r{n}"));
            let cache = Arc::new(DiskCache::<RibbitKey>::new(DiskCacheConfig::new(dir.clone()).with_subdirectories(false, 0)).expect("disk cache"));
            let v = run_one(cache_exec(cache), prog, &ctl, "disk", &["size", "mem"]);
            let _ = std::fs::remove_dir_all(&dir);
            v
        };
        em.ev(v);
    });
    out.flush();
    eprintln!("{}", json!({"programs": st.programs, "events": out.events, "hangs": st.hangs, "skipped": st.skipped}));
    if st.skipped > 0 {
        std::process::exit(3);
    }
}
