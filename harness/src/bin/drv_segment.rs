//! X01 driver: executes segment programs on the real segment allocator / segment files of the local store
//! (`cascette_client_storage::storage::segment`, and the way `DynamicContainer` uses it) and records what
//! came back.  It records; it never judges (spec/trace/T_Segment.tla does).
//!
//! usage: drv_segment --programs <file|-> --out <file|->
//!        drv_segment --random N --out <file> [--dump-programs <file>]
//!
//! Programs (one JSON object per line), three kinds:
//!
//! {"kind":"alloc","max":M,"pre":[[idx,len],...],"load":true|false,"ops":[...]}
//!     A directory is populated with sparse files data.<idx:03> of `len` zero bytes, then
//!     SegmentAllocator::new(dir, path_hash, M) (+ load_existing() when "load").  Operations:
//!       {"op":"alloc","size":S,"w":0|1[,"big":"2^40"|"2^63"|"u64max"]}
//!            allocate(S) (with "big": allocate(that value), S is then 2^31-1).  With w=1 and an Ok result the
//!            driver plays the allocator's user and writes the bytes (pattern at the offset, file extended
//!            to offset+size) into data.<seg:03> if that file exists.
//!       {"op":"freeze","i":i} {"op":"thaw","i":i} {"op":"load"}
//!       {"op":"reopen","max":M,"load":true|false}       drop + new (+ load_existing)
//!     Every event carries "obs": segment_count(), per segment state / write_position / index via
//!     segment(i), and the directory listing (canonical data.NNN files with their lengths, number of other
//!     entries).  A data file that appeared during an allocate is described in "created" (length, first 9
//!     bytes of the 16 reconstruction keys, whether the first 480 bytes equal SegmentHeader::generate).
//!
//! {"kind":"fn","ops":[...]}   pure functions, judged by executable TLA+ definitions on the logged arguments:
//!       {"op":"bucket","key":[bytes],"seed":s}          bucket_hash
//!       {"op":"path","i":i}                              segment_data_path (file name as character codes)
//!       {"op":"parse","name":[codes]}                    parse_data_filename (-1 = None)
//!       {"op":"codec","id":a,"off":b}                    encode_storage_offset, decode_storage_offset of it
//!       {"op":"header","i":i,"ph":b}                     SegmentHeader::generate(i, [b;16]): keys, byte round trip
//!       {"op":"space","st":"T"|"F","wp":w,"size":s[,"big":..]}   SegmentInfo::has_space_for
//!
//! {"kind":"dyn","limit":L,"maxsize":S,"pre":[[idx,len],...],"ops":[...]}
//!     DynamicContainer::builder(dir).segment_limit(L).max_segment_size(S).build() + open().  Operations:
//!       {"op":"write","len":n}     Container::write of n fresh pseudo-random bytes
//!       {"op":"reopen"}            drop + build + open
//!     obs: segment_count(), segment_limit(), max_segment_size(), directory listing, and for every data file
//!     of at least 480 bytes the first 9 bytes of its 16 reconstruction keys.
use cascette_client_storage::container::{Container, DynamicContainer};
use cascette_client_storage::storage::segment::{
    SEGMENT_HEADER_SIZE, SegmentAllocator, SegmentHeader, SegmentInfo, SegmentState, bucket_hash, decode_storage_offset,
    encode_storage_offset, parse_data_filename, segment_data_path,
};
use serde_json::{Value, json};
use std::collections::BTreeMap;
use std::io::{Seek, SeekFrom, Write};
use std::path::{Path, PathBuf};
use verif_harness::*;

const BIG: u64 = 0x7FFF_FFFF; // TLC integers are 32 bit: every logged number is clamped to this
const PATH_HASH: [u8; 16] = [0xAB; 16];
const MAX_LISTED: usize = 1100;

fn clamp(x: u64) -> u64 {
    x.min(BIG)
}

fn scratch() -> PathBuf {
    let p = Path::new("/dev/shm");
    if p.is_dir() { p.to_path_buf() } else { std::env::temp_dir() }
}

/// The driver's own notion of a data file name (independent of segment_data_path): data.NNN, at least 3 digits.
fn canon(idx: u64) -> String {
    format!("data.{idx:03}")
}

/// Directory listing: canonical data files -> length; number of other entries.
fn listing(dir: &Path) -> (BTreeMap<u64, u64>, u64) {
    let mut files = BTreeMap::new();
    let mut other = 0;
    if let Ok(rd) = std::fs::read_dir(dir) {
        for e in rd.flatten() {
            let name = e.file_name().to_string_lossy().to_string();
            let idx = name.strip_prefix("data.").and_then(|s| s.parse::<u64>().ok());
            match idx {
                Some(i) if canon(i) == name && e.path().is_file() => {
                    files.insert(i, e.metadata().map(|m| m.len()).unwrap_or(0));
                }
                _ => other += 1,
            }
        }
    }
    (files, other)
}

fn files_json(files: &BTreeMap<u64, u64>) -> Value {
    json!(files.iter().map(|(i, l)| json!([i, clamp(*l)])).collect::<Vec<_>>())
}

/// First 9 bytes (original order) of the 16 reconstruction keys at the start of a data file; [] when shorter.
fn file_keys(path: &Path) -> Value {
    use std::io::Read;
    let mut buf = vec![0u8; SEGMENT_HEADER_SIZE];
    let ok = std::fs::File::open(path).and_then(|mut f| f.read_exact(&mut buf)).is_ok();
    if !ok {
        return json!([]);
    }
    let keys: Vec<Value> = (0..16)
        .map(|b| {
            let mut k: Vec<u8> = buf[b * 30..b * 30 + 16].to_vec();
            k.reverse(); // the on-disk key is stored reversed (local_header.rs)
            json!(k[..9].to_vec())
        })
        .collect();
    json!(keys)
}

fn pre_populate(dir: &Path, prog: &Value) {
    if let Some(pre) = prog.get("pre").and_then(|p| p.as_array()) {
        for p in pre {
            let idx = p[0].as_u64().expect("pre idx");
            let len = p[1].as_u64().expect("pre len");
            let f = std::fs::File::create(dir.join(canon(idx))).expect("driver: create pre file");
            f.set_len(len).expect("driver: set_len"); // sparse
        }
    }
    if let Some(names) = prog.get("foreign").and_then(|p| p.as_array()) {
        for n in names {
            std::fs::write(dir.join(n.as_str().expect("foreign name")), b"x").expect("driver: foreign file");
        }
    }
}

fn err_kind(e: &cascette_client_storage::StorageError) -> String {
    let d = format!("{e:?}");
    d.split(['(', ' ', '{']).next().unwrap_or("Error").to_string()
}

fn actual_size(op: &Value) -> u64 {
    match op.get("big").and_then(|b| b.as_str()) {
        Some("2^40") => 1 << 40,
        Some("2^63") => 1 << 63,
        Some("u64max") => u64::MAX,
        Some(o) => panic!("driver: unknown big size {o}"),
        None => op["size"].as_u64().expect("size"),
    }
}

// ---------------------------------------------------------------------------------- kind "alloc"
fn observe_alloc(a: &SegmentAllocator, dir: &Path) -> Value {
    let count = a.segment_count();
    let mut segs = vec![];
    for i in 0..count.min(MAX_LISTED) {
        match a.segment(i as u16) {
            Some(s) => segs.push(json!({"st": if s.state == SegmentState::Frozen { "F" } else { "T" },
                                        "wp": clamp(s.write_position), "ix": s.index})),
            None => segs.push(json!({"st": "none", "wp": 0, "ix": i})),
        }
    }
    let (files, other) = listing(dir);
    json!({"count": count, "segs": segs, "beyond": a.segment(count.min(65535) as u16).is_some(), "files": files_json(&files), "other": other})
}

fn run_alloc(prog: &Value, out: &Emit) {
    let dir = tempfile::tempdir_in(scratch()).expect("tempdir");
    let d = dir.path();
    pre_populate(d, prog);
    let max = prog["max"].as_u64().expect("max") as u16;
    let load = prog["load"].as_bool().unwrap_or(false);
    let mut a = SegmentAllocator::new(d.to_path_buf(), PATH_HASH, max);
    let mut head = prog.clone();
    head.as_object_mut().expect("program object").remove("ops");
    head["op"] = json!("new");
    head["res"] = if load {
        match guarded(|| a.load_existing()) {
            Ok(Ok(())) => json!({"ok": true}),
            Ok(Err(e)) => json!({"err": err_kind(&e)}),
            Err(m) => outcome_panic(&m),
        }
    } else {
        json!({"ok": true})
    };
    head["obs"] = observe_alloc(&a, d);
    out.ev(head);
    let mut seq = 0u64;
    for op in prog["ops"].as_array().expect("ops") {
        let name = op["op"].as_str().expect("op");
        let mut ev = op.clone();
        out.begin(op);
        seq += 1;
        ev["seq"] = json!(seq);
        let (before, _) = listing(d);
        let mut alloc_ok: Option<(u16, u32, u64)> = None;
        let r = guarded(|| -> Value {
            match name {
                "alloc" => {
                    let size = actual_size(op);
                    match a.allocate(size) {
                        Ok(al) => {
                            alloc_ok = Some((al.segment_index, al.file_offset, size));
                            json!({"ok": [al.segment_index, clamp(u64::from(al.file_offset))]})
                        }
                        Err(e) => json!({"err": err_kind(&e)}),
                    }
                }
                "freeze" => json!({"ok": a.freeze(op["i"].as_u64().expect("i") as u16)}),
                "thaw" => json!({"ok": a.thaw(op["i"].as_u64().expect("i") as u16)}),
                "load" => match a.load_existing() {
                    Ok(()) => json!({"ok": true}),
                    Err(e) => json!({"err": err_kind(&e)}),
                },
                "reopen" => {
                    let m = op["max"].as_u64().expect("max") as u16;
                    a = SegmentAllocator::new(d.to_path_buf(), PATH_HASH, m);
                    if op["load"].as_bool().unwrap_or(true) {
                        match a.load_existing() {
                            Ok(()) => json!({"ok": true}),
                            Err(e) => json!({"err": err_kind(&e)}),
                        }
                    } else {
                        json!({"ok": true})
                    }
                }
                other => panic!("driver: unknown op {other}"),
            }
        });
        ev["res"] = match r {
            Ok(v) => v,
            Err(m) => outcome_panic(&m),
        };
        ev["obs"] = observe_alloc(&a, d);
        if name == "alloc" {
            // data files that appeared during the call
            let (after, _) = listing(d);
            let mut created = vec![];
            for (i, l) in &after {
                if !before.contains_key(i) {
                    let p = d.join(canon(*i));
                    let head = std::fs::read(&p).unwrap_or_default();
                    let generated = SegmentHeader::generate(*i as u16, &PATH_HASH).to_bytes();
                    created.push(json!({"i": i, "len": clamp(*l), "keys": file_keys(&p),
                                        "gen": head.len() >= SEGMENT_HEADER_SIZE && head[..SEGMENT_HEADER_SIZE] == generated[..]}));
                }
            }
            ev["created"] = json!(created);
            // the allocator's user writes the bytes it was given
            if let Some((seg, off, size)) = alloc_ok
                && op["w"].as_u64().unwrap_or(0) == 1
            {
                let p = d.join(canon(u64::from(seg)));
                let end = u64::from(off).saturating_add(size);
                let ok = (|| -> std::io::Result<()> {
                    let mut f = std::fs::OpenOptions::new().write(true).open(&p)?;
                    let cur = f.metadata()?.len();
                    if end > cur {
                        f.set_len(end)?;
                    }
                    if size > 0 {
                        f.seek(SeekFrom::Start(u64::from(off)))?;
                        let n = size.min(32) as usize;
                        f.write_all(&vec![0xD7u8; n])?;
                    }
                    Ok(())
                })()
                .is_ok();
                ev["wrote"] = json!({"ok": ok, "seg": seg, "end": clamp(end)});
            }
        }
        out.ev(ev);
    }
}

// ---------------------------------------------------------------------------------- kind "fn"
fn bytes_of(v: &Value) -> Vec<u8> {
    v.as_array().expect("byte array").iter().map(|x| x.as_u64().expect("byte") as u8).collect()
}

fn run_fn(prog: &Value, out: &Emit) {
    let mut head = prog.clone();
    head.as_object_mut().expect("program object").remove("ops");
    head["op"] = json!("new");
    out.ev(head);
    let mut seq = 0u64;
    for op in prog["ops"].as_array().expect("ops") {
        let name = op["op"].as_str().expect("op");
        let mut ev = op.clone();
        out.begin(op);
        seq += 1;
        ev["seq"] = json!(seq);
        let r = guarded(|| -> Value {
            match name {
                "bucket" => json!(bucket_hash(&bytes_of(&op["key"]), op["seed"].as_u64().expect("seed") as u8)),
                "path" => {
                    let base = Path::new("/some/base dir");
                    let p = segment_data_path(base, op["i"].as_u64().expect("i") as u16);
                    let name: Vec<u32> = p.file_name().map(|n| n.to_string_lossy().chars().map(|c| c as u32).collect()).unwrap_or_default();
                    let parsed = p.file_name().and_then(|n| n.to_str()).and_then(parse_data_filename).map_or(-1i64, i64::from);
                    json!({"name": name, "in_base": p.parent() == Some(base), "parsed": parsed})
                }
                "parse" => {
                    let s: String = op["name"].as_array().expect("name").iter()
                        .map(|c| char::from_u32(c.as_u64().expect("code") as u32).expect("char")).collect();
                    json!(parse_data_filename(&s).map_or(-1i64, i64::from))
                }
                "codec" => {
                    let id = op["id"].as_u64().expect("id") as u16;
                    let off = op["off"].as_u64().expect("off") as u32;
                    let (e1, e2) = encode_storage_offset(id, off);
                    let (d1, d2) = decode_storage_offset(e1, e2);
                    json!({"enc": [e1, clamp(u64::from(e2))], "dec": [d1, clamp(u64::from(d2))]})
                }
                "header" => {
                    let i = op["i"].as_u64().expect("i") as u16;
                    let ph = [op["ph"].as_u64().expect("ph") as u8; 16];
                    let h = SegmentHeader::generate(i, &ph);
                    let bytes = h.to_bytes();
                    let back = SegmentHeader::from_bytes(&bytes);
                    let keys: Vec<Value> = (0..16u8).map(|b| json!(h.bucket_key(b)[..9].to_vec())).collect();
                    let keys_back: Vec<Value> = match &back {
                        Some(hb) => (0..16u8).map(|b| json!(hb.bucket_key(b)[..9].to_vec())).collect(),
                        None => vec![],
                    };
                    let mut raw_keys = vec![];
                    for b in 0..16 {
                        let mut k = bytes[b * 30..b * 30 + 16].to_vec();
                        k.reverse();
                        raw_keys.push(json!(k[..9].to_vec()));
                    }
                    json!({"len": bytes.len(), "keys": keys, "keys_back": keys_back, "keys_raw": raw_keys,
                           "bytes_back": back.map(|hb| hb.to_bytes()[..] == bytes[..])})
                }
                "space" => {
                    let mut info = SegmentInfo::new(0, SegmentHeader::zeroed());
                    info.state = if op["st"].as_str() == Some("F") { SegmentState::Frozen } else { SegmentState::Thawed };
                    info.write_position = op["wp"].as_u64().expect("wp");
                    json!(info.has_space_for(actual_size(op)))
                }
                other => panic!("driver: unknown op {other}"),
            }
        });
        ev["res"] = match r {
            Ok(v) => json!({"v": v}),
            Err(m) => outcome_panic(&m),
        };
        out.ev(ev);
    }
}

// ---------------------------------------------------------------------------------- kind "dyn"
fn observe_dyn(c: Option<&DynamicContainer>, dir: &Path) -> Value {
    let (files, other) = listing(dir);
    let heads: Vec<Value> = files.iter().map(|(i, _)| json!({"i": i, "keys": file_keys(&dir.join(canon(*i)))})).collect();
    match c {
        Some(c) => json!({"count": c.segment_count(), "limit": c.segment_limit(), "maxsize": clamp(c.max_segment_size()),
                          "files": files_json(&files), "other": other, "heads": heads}),
        None => json!({"count": -1, "limit": -1, "maxsize": -1, "files": files_json(&files), "other": other, "heads": heads}),
    }
}

fn open_dyn(rt: &tokio::runtime::Runtime, dir: &Path, limit: u16, maxsize: u64) -> Result<DynamicContainer, String> {
    let c = DynamicContainer::builder(dir.to_path_buf())
        .segment_limit(limit)
        .max_segment_size(maxsize)
        .build()
        .map_err(|e| err_kind(&e))?;
    rt.block_on(c.open()).map_err(|e| err_kind(&e))?;
    Ok(c)
}

fn run_dyn(prog: &Value, out: &Emit) {
    let rt = rt();
    let dir = tempfile::tempdir_in(scratch()).expect("tempdir");
    let d = dir.path().join("data");
    std::fs::create_dir_all(&d).expect("driver: data dir");
    pre_populate(&d, prog);
    let limit = prog["limit"].as_u64().expect("limit") as u16;
    let maxsize = prog["maxsize"].as_u64().expect("maxsize");
    let mut head = prog.clone();
    head.as_object_mut().expect("program object").remove("ops");
    head["op"] = json!("new");
    let mut c = match guarded(|| open_dyn(&rt, &d, limit, maxsize)) {
        Ok(Ok(c)) => {
            head["res"] = json!({"ok": true});
            Some(c)
        }
        Ok(Err(e)) => {
            head["res"] = json!({"err": e});
            None
        }
        Err(m) => {
            head["res"] = outcome_panic(&m);
            None
        }
    };
    head["obs"] = observe_dyn(c.as_ref(), &d);
    out.ev(head);
    let mut rng = Rng::new(0x5E6 ^ limit as u64 ^ maxsize);
    let mut seq = 0u64;
    for op in prog["ops"].as_array().expect("ops") {
        let name = op["op"].as_str().expect("op");
        let mut ev = op.clone();
        out.begin(op);
        seq += 1;
        ev["seq"] = json!(seq);
        let r = guarded(|| -> Value {
            match name {
                "write" => {
                    let n = op["len"].as_u64().expect("len") as usize;
                    let mut data = rng.bytes(n);
                    if n >= 8 {
                        data[..8].copy_from_slice(&seq.to_le_bytes()); // fresh content every time
                    }
                    let key = md5::compute(&data).0;
                    match &c {
                        Some(c) => match rt.block_on(c.write(&key, &data)) {
                            Ok(()) => json!({"ok": true}),
                            Err(e) => json!({"err": err_kind(&e)}),
                        },
                        None => json!({"err": "closed"}),
                    }
                }
                "reopen" => {
                    c = None;
                    match open_dyn(&rt, &d, limit, maxsize) {
                        Ok(nc) => {
                            c = Some(nc);
                            json!({"ok": true})
                        }
                        Err(e) => json!({"err": e}),
                    }
                }
                other => panic!("driver: unknown op {other}"),
            }
        });
        ev["res"] = match r {
            Ok(v) => v,
            Err(m) => outcome_panic(&m),
        };
        ev["obs"] = observe_dyn(c.as_ref(), &d);
        out.ev(ev);
    }
}

fn run_program(prog: &Value, out: &Emit) {
    match prog["kind"].as_str() {
        Some("alloc") => run_alloc(prog, out),
        Some("fn") => run_fn(prog, out),
        Some("dyn") => run_dyn(prog, out),
        other => panic!("driver: unknown program kind {other:?}"),
    }
}

// ---------------------------------------------------------------------------------- random programs
const CAP: u64 = (1 << 30) - 480;

fn random_alloc(rng: &mut Rng) -> Value {
    let max = *rng.pick(&[1u64, 2, 3, 4, 6, 1023, 2000]);
    // directory content: mostly empty or a clean earlier session, sometimes gaps / short files / big files
    let mut pre = vec![];
    match rng.below(40) {
        0..=15 => {}
        16..=23 => {
            for i in 0..1 + rng.below(3) {
                pre.push(json!([i, 480 + rng.below(5000)]));
            }
        }
        24..=29 => {
            for i in 0..4 {
                if rng.chance(1, 2) {
                    pre.push(json!([i, 480 + rng.below(3000)]));
                }
            }
        }
        30..=34 => pre.push(json!([rng.below(2), rng.below(480)])),
        35 => pre.push(json!([rng.below(3), (1u64 << 30) - rng.below(300)])),
        _ => pre.push(json!([rng.below(2), 480 + rng.below(100)])),
    }
    let big_files = pre.iter().any(|p| p[1].as_u64().unwrap_or(0) > 1 << 20);
    let load = rng.chance(9, 10);
    let len = if big_files { 6 } else { 6 + rng.below(30) as usize };
    let mut ops = vec![];
    let mut hole = false; // a large unwritten allocation may be pending: later written allocations would make huge sparse files
    for _ in 0..len {
        let op = match rng.below(100) {
            0..=54 => {
                let (size, w) = match rng.below(20) {
                    0 => (0, 0),
                    1 => (CAP, 0),
                    2 => (CAP + 1, 0),
                    3 => (CAP - rng.below(400), 0),
                    4 => (CAP / 2 + rng.below(1000), 0),
                    5 => ((1 << 30) + rng.below(5), 0),
                    _ => (1 + rng.below(2000), if hole || big_files { 0 } else { rng.below(4).min(1) }),
                };
                if size > 1 << 20 {
                    hole = true;
                }
                if rng.chance(1, 60) {
                    // (2^63 is left to the `space` programs: twice in one segment it overflows, which the monitor's guard
                    // for FX01b could only recognise with exact 64-bit arithmetic)
                    json!({"op": "alloc", "size": BIG, "w": 0, "big": *rng.pick(&["2^40", "u64max"])})
                } else {
                    json!({"op": "alloc", "size": size, "w": w})
                }
            }
            55..=69 => json!({"op": "freeze", "i": rng.below(5)}),
            70..=84 => json!({"op": "thaw", "i": rng.below(5)}),
            85..=88 => json!({"op": "load"}),
            _ => {
                if hole && !big_files {
                    // nothing was written beyond small offsets, the files are still small
                }
                hole = false;
                json!({"op": "reopen", "max": *rng.pick(&[1u64, 2, 3, 4, 1023]), "load": rng.chance(19, 20)})
            }
        };
        ops.push(op);
    }
    json!({"kind": "alloc", "max": max, "pre": pre, "load": load, "ops": ops})
}

fn random_fn(rng: &mut Rng) -> Value {
    let mut ops = vec![];
    for _ in 0..40 {
        let op = match rng.below(6) {
            0 => {
                let n = *rng.pick(&[0usize, 1, 8, 9, 9, 9, 10, 16]);
                json!({"op": "bucket", "key": rng.bytes(n), "seed": *rng.pick(&[0u64, 1, 1, 2, 15, 255])})
            }
            1 => json!({"op": "path", "i": rng.below(1100)}),
            2 => {
                // names around the accepted language
                let i = rng.below(1200);
                let s = match rng.below(8) {
                    0 => format!("data.{i:03}"),
                    1 => format!("data.{i:04}"),
                    2 => format!("data.{i}"),
                    3 => format!("data.{i:05}"),
                    4 => format!("Data.{i:03}"),
                    5 => format!("data.{i:03}x"),
                    6 => format!("data.+{:02}", i % 100),
                    _ => format!("data_{i:03}"),
                };
                json!({"op": "parse", "name": s.chars().map(|c| c as u32).collect::<Vec<_>>()})
            }
            3 => json!({"op": "codec", "id": rng.below(1024), "off": rng.below(1 << 30)}),
            4 => json!({"op": "header", "i": rng.below(1023), "ph": rng.below(256)}),
            _ => {
                let wp = *rng.pick(&[0u64, 480, 481, 1 << 29, (1 << 30) - 1, 1 << 30, (1 << 30) + 1]);
                json!({"op": "space", "st": *rng.pick(&["T", "T", "F"]), "wp": wp,
                       "size": *rng.pick(&[0u64, 1, 479, CAP - 1, CAP, CAP + 1, 1 << 30, (1 << 30) - (1 << 29)])})
            }
        };
        ops.push(op);
    }
    json!({"kind": "fn", "ops": ops})
}

fn random_dyn(rng: &mut Rng) -> Value {
    let limit = *rng.pick(&[0u64, 1, 2, 5, 1023, 5000]);
    let maxsize = *rng.pick(&[600u64, 1000, 4096, 1 << 20, 1 << 30]);
    let mut pre = vec![];
    if rng.chance(1, 4) {
        pre.push(json!([0, 480 + rng.below(400)]));
    }
    let mut ops = vec![];
    for _ in 0..2 + rng.below(6) {
        if rng.chance(1, 4) {
            ops.push(json!({"op": "reopen"}));
        } else {
            ops.push(json!({"op": "write", "len": *rng.pick(&[0u64, 10, 100, 500, 1500, 5000])}));
        }
    }
    json!({"kind": "dyn", "limit": limit, "maxsize": maxsize, "pre": pre, "ops": ops})
}

fn main() {
    quiet_panics();
    let args: Vec<String> = std::env::args().collect();
    let mut out = Out::from_arg(arg(&args, "--out").as_ref());
    let mut programs = vec![];
    if let Some(p) = arg(&args, "--programs") {
        programs = read_programs(&p);
    }
    let nrand = arg_u64(&args, "--random", 0);
    if nrand > 0 {
        let mut rng = Rng::new(seed_from_env());
        let mut dump = arg(&args, "--dump-programs").map(|p| Out::to_path(Path::new(&p)));
        for k in 0..nrand {
            let prog = match k % 10 {
                0 => random_fn(&mut rng),
                1 => random_dyn(&mut rng),
                _ => random_alloc(&mut rng),
            };
            if let Some(d) = dump.as_mut() {
                d.ev(&prog);
            }
            programs.push(prog);
        }
    }
    let st = run_with_watchdog(programs, &mut out, std::time::Duration::from_secs(30), run_program);
    out.flush();
    eprintln!("{}", json!({"programs": st.programs, "events": out.events, "hangs": st.hangs, "skipped": st.skipped}));
    if st.skipped > 0 {
        std::process::exit(3);
    }
}
