//! C07 driver: fault enumeration on checksummed artifacts and on the validating cache APIs.
//!
//! usage: drv_integrity --programs <file> --out <file>
//!        drv_integrity --random N --len L --out <file> [--dump-programs <file>]     (cache programs, seeded)
//!
//! Nothing in here decides the property.  The driver builds artifacts with the real builders, damages
//! them, loads them with the real loaders and records what happened; which byte positions are protected
//! by which check value is defined in spec/Integrity.tla from the recorded artifact bytes, and the verdict
//! is computed by the monitor spec/trace/T_Integrity.tla.
//!
//! Programs (one JSON object per line)
//!   {"part":"art","kind":K,"variant":V,"loader":L,"fault":F,"stride":S,"edge":E}
//!       K/L: enc/parse | aidx/parse | aidx/chunked | lru/deserialize | lru/manager | upd/entry |
//!            updsec/section | lhdr/header | mime/parse
//!       F: produce | flip | subst | trunc | extend
//!       positions visited (flip, subst) / lengths (trunc): every p with p < E, p >= len - E or p % S = 0
//!       (S = 1: every position).  The driver does not know the regions: it visits protected and
//!       unprotected bytes alike.
//!   {"part":"val","cases":[{"api":A,"n":len,"rel":"match"|"flip"|"other"|"trunc"}]}
//!   {"part":"cache","comp":"cac_mem"|"cac_disk"|"ml","kinds":["mem","disk"],"hooks":"md5"|"ngdp"|"none",
//!    "keys":["a"],"ops":[...]}           operations: see exec_cache
//!   {"part":"cache","big":true,...}      one value above the 100 MiB validation threshold
//!   {"part":"conc",comp:"ml",kinds,hooks,keys,"init":[ops],"reader":{"k","ck"},"writer":op,"at":n,"after":bool}
//!       a validating read with one operation of another user (put | put_raw | remove) after its first n looks
//!       (the reader is parked at the scheduling point of the disk layer's lookup), before it (at 0) or after it;
//!       event {"op":"race",...,"occ":occurrence of the site,"parked":bool,"writer":op+res,"res":read result,"obs"}
//!
//! Events
//!   {"op":"new","part":"art",kind,variant,loader,fault,"len":n,"bytes":[..],"x":extra,"base":code,"md5":hex}
//!   {"op":"check","seq":1}                                   (fault = produce: format self-validation)
//!   {"op":"flip","seq":n,"ps":[p..],"v":[[8 codes]..]}       v[a][i]: bit i of byte ps[a] flipped (<= 32 positions)
//!   {"op":"subst","seq":n,"ps":[p..],"vals":[[..]..],"v":[[..]..]}   byte ps[a] replaced by vals[a][i]
//!   {"op":"trunc","seq":n,"ms":[m..],"v":[..]}               artifact cut to length ms[a]
//!   {"op":"extend","seq":n,"ns":[k..],"fills":["zero"|"ff"|"tail"..],"v":[..]}   ns[a] bytes appended
//!   codes: 0 = load failed (Err/None), 1 = reported invalid, 2 = accepted, logical content unchanged,
//!          3 = accepted, logical content differs from the undamaged artifact's, 4 = panic,
//!          5 = the load requested a single allocation of >= 2 GiB (see `Guard`)
//!   {"op":"new","part":"val"} {"op":"validate","seq":n,"api":A,"data":C,"ck":[16],"res":"true"|"false"|"err"|"panic"}
//!   {"op":"new","part":"cache",comp,kinds,hooks,keys} then per operation its fields + "seq", "res",
//!   "obs": per layer {key: C}; "vc": the content handed to a put; "res": {"ok":1} | {"err":1} | {"none":1} |
//!   {"some":C,"validated":bool} | {"hit":bool} | {"panic":1}
//!   content C = {"b":[bytes]} (<= 160 bytes), {"n":len,"md5":[16 bytes]} (digest by the driver) or {"none":1}
use bytes::Bytes;
use cascette_cache::config::{DiskCacheConfig, MemoryCacheConfig, MultiLayerCacheConfig, PromotionStrategy};
use cascette_cache::key::{BlteBlockKey, RibbitKey};
use cascette_cache::multi_layer::MultiLayerCacheImpl;
use cascette_cache::ngdp::ContentAddressedCache;
use cascette_cache::traits::{AsyncCache, MultiLayerCache};
use cascette_cache::validation::{Md5ValidationHooks, NgdpBytes, NgdpValidationHooks, ValidationHooks};
use cascette_cache::{DiskCache, MemoryCache};
use cascette_client_storage::index::ArchiveLocation;
use cascette_client_storage::index::update::{UpdateEntry, UpdateSection, UpdateStatus};
use cascette_client_storage::lru::LruManager;
use cascette_client_storage::lru::lru_file;
use cascette_client_storage::storage::local_header::LocalHeader;
use cascette_crypto::{ContentKey, EncodingKey};
use cascette_formats::archive::{ArchiveIndex, ArchiveIndexBuilder, ChunkedArchiveIndex};
use cascette_formats::encoding::{CKeyEntryData, EKeyEntryData, EncodingBuilder, EncodingFile};
use serde_json::{Value, json};
use std::alloc::{GlobalAlloc, Layout, System};
use std::io::Cursor;
use std::sync::atomic::{AtomicUsize, Ordering::Relaxed};
use std::path::{Path, PathBuf};
use std::sync::Arc;
use std::time::Duration;
use verif_harness::*;

// ---------------------------------------------------------------------------------------------------
// A damaged length field can make a loader ask for tens of GiB (Vec::with_capacity(count)); the standard
// library aborts the process when the system refuses.  So that one such load does not end the whole
// enumeration, requests of 1 GiB and more are served by a lazily backed anonymous mapping (never touched
// by a loader that fails on its short input) and *recorded*: the load is reported with code 5.
// ---------------------------------------------------------------------------------------------------
struct Guard;
static LARGEST: AtomicUsize = AtomicUsize::new(0);
const HUGE: usize = 1 << 30;
unsafe extern "C" {
    fn mmap(addr: *mut u8, len: usize, prot: i32, flags: i32, fd: i32, off: i64) -> *mut u8;
    fn munmap(addr: *mut u8, len: usize) -> i32;
}
// SAFETY: small requests go to the system allocator unchanged; large ones are page-aligned private anonymous
// mappings (PROT_READ|PROT_WRITE, MAP_PRIVATE|MAP_ANONYMOUS|MAP_NORESERVE), zero-filled by the kernel, released
// with munmap of the same length.
unsafe impl GlobalAlloc for Guard {
    unsafe fn alloc(&self, l: Layout) -> *mut u8 {
        if l.size() < HUGE {
            return unsafe { System.alloc(l) };
        }
        LARGEST.fetch_max(l.size(), Relaxed);
        let p = unsafe { mmap(std::ptr::null_mut(), l.size(), 3, 0x02 | 0x20 | 0x4000, -1, 0) };
        if p as isize == -1 { std::ptr::null_mut() } else { p }
    }
    unsafe fn alloc_zeroed(&self, l: Layout) -> *mut u8 {
        if l.size() < HUGE { unsafe { System.alloc_zeroed(l) } } else { unsafe { self.alloc(l) } }
    }
    unsafe fn dealloc(&self, p: *mut u8, l: Layout) {
        if l.size() < HUGE {
            unsafe { System.dealloc(p, l) }
        } else {
            unsafe { munmap(p, l.size()) };
        }
    }
    unsafe fn realloc(&self, p: *mut u8, l: Layout, new: usize) -> *mut u8 {
        if l.size() < HUGE && new < HUGE {
            return unsafe { System.realloc(p, l, new) };
        }
        let nl = Layout::from_size_align(new, l.align()).expect("layout");
        let q = unsafe { self.alloc(nl) };
        if !q.is_null() {
            unsafe { std::ptr::copy_nonoverlapping(p, q, l.size().min(new)) };
            unsafe { self.dealloc(p, l) };
        }
        q
    }
}
#[global_allocator]
static ALLOC: Guard = Guard;

const ERR: u8 = 0;
const INVALID: u8 = 1;
const SAME: u8 = 2;
const ALTERED: u8 = 3;
const PANIC: u8 = 4;
/// the load asked for a single allocation of 2 GiB or more (with the default allocator: process abort when refused)
const HUGE_ALLOC: u8 = 5;
const LONG_TTL: Duration = Duration::from_secs(3600);

fn scratch() -> PathBuf {
    let base = if Path::new("/dev/shm").is_dir() { PathBuf::from("/dev/shm") } else { std::env::temp_dir() };
    let p = base.join(format!("drv_integrity.{}", std::process::id()));
    let _ = std::fs::create_dir_all(&p);
    p
}
fn s<'a>(v: &'a Value, f: &str) -> &'a str {
    v[f].as_str().unwrap_or_else(|| panic!("driver: field {f} missing in {v}"))
}
fn n(v: &Value, f: &str) -> usize {
    v[f].as_u64().unwrap_or_else(|| panic!("driver: field {f} missing in {v}")) as usize
}

// =========================================================================== part A: artifacts
/// What a loader said about a byte string.
enum Loaded {
    Failed,
    Invalid,
    /// accepted; the loaded logical content, rendered
    Ok(String),
}

/// Everything a loader needs besides the bytes.
struct ArtCtx {
    kind: String,
    loader: String,
    dir: tempfile::TempDir,
    rt: tokio::runtime::Runtime,
    base_offset: usize,
    lru_cap: u32,
    lru_gen: u64,
    /// aidx: the keys that were indexed; updsec: rendered original entries
    keys: Vec<Vec<u8>>,
    orig_entries: Vec<String>,
}

fn ck16(seed: u8, i: usize) -> [u8; 16] {
    let mut k = [0u8; 16];
    for (j, b) in k.iter_mut().enumerate() {
        *b = seed.wrapping_add((i as u8).wrapping_mul(7)).wrapping_add((j as u8).wrapping_mul(13)) | 1;
    }
    k[0] = (i as u8).wrapping_mul(5).wrapping_add(3); // distinct, increasing-ish first byte
    k[1] = i as u8;
    k
}

fn build_enc(variant: &str) -> Vec<u8> {
    let (nc, ne, trailing) = match variant {
        "v1" => (2usize, 2usize, false),
        _ => (30, 45, true), // 2 + 2 pages of 1 KiB
    };
    let mut b = EncodingBuilder::new().with_page_sizes(1, 1);
    if trailing {
        b = b.with_trailing_espec("b:{22=n,*=z}".to_string());
    }
    for i in 0..nc {
        let eks = if i % 2 == 1 {
            vec![EncodingKey::from_bytes(ck16(0xA0, i)), EncodingKey::from_bytes(ck16(0xB0, i))]
        } else {
            vec![EncodingKey::from_bytes(ck16(0xA0, i))]
        };
        b.add_ckey_entry(CKeyEntryData { content_key: ContentKey::from_bytes(ck16(0x10, i)), file_size: 1000 + i as u64 * 77, encoding_keys: eks });
    }
    for i in 0..ne {
        b.add_ekey_entry(EKeyEntryData {
            encoding_key: EncodingKey::from_bytes(ck16(0xA0, i)),
            espec: if i % 3 == 0 { "z".to_string() } else { "n".to_string() },
            file_size: 500 + i as u64 * 31,
        });
    }
    b.build().expect("driver: EncodingBuilder::build").build().expect("driver: EncodingFile::build")
}

fn build_aidx(variant: &str) -> (Vec<u8>, Vec<Vec<u8>>) {
    let (mut b, klen, cnt) = match variant {
        "v1" => (ArchiveIndexBuilder::new(), 16usize, 3usize),
        "v2" => (ArchiveIndexBuilder::with_config(9, 5, 4), 9, 5),
        _ => (ArchiveIndexBuilder::new(), 16, 200), // two chunks (170 records per 4 KiB chunk)
    };
    let mut keys = vec![];
    for i in 0..cnt {
        let mut k = ck16(0x40, i).to_vec();
        k[0] = (i / 200) as u8 + 1;
        k[1] = (i % 200) as u8 + 1;
        k.truncate(klen);
        b.add_entry(k.clone(), 100 + i as u32 * 3, 4096 * i as u64);
        keys.push(k);
    }
    let mut cur = Cursor::new(Vec::new());
    b.build(&mut cur).expect("driver: ArchiveIndexBuilder::build");
    (cur.into_inner(), keys)
}

fn lru_key(i: usize) -> [u8; 9] {
    let mut k = [0x30u8 + i as u8; 9];
    k[8] = i as u8;
    k
}

fn build_lru(variant: &str, ctx: &mut ArtCtx) -> Vec<u8> {
    let (cap, touches): (u32, Vec<usize>) = match variant {
        "v1" => (4, vec![1, 2, 3, 1]),
        _ => (8, vec![1, 2, 3, 4, 5, 6, 7, 8, 9, 2, 10, 5]), // full table, two evictions, reordering
    };
    let sub = ctx.dir.path().join("build");
    std::fs::create_dir_all(&sub).expect("mkdir");
    let mut l = LruManager::new(cap, sub.clone());
    for t in touches {
        assert!(l.touch(&lru_key(t)), "driver: touch");
    }
    ctx.rt.block_on(l.checkpoint_to_disk()).expect("driver: checkpoint_to_disk");
    ctx.lru_cap = cap;
    ctx.lru_gen = l.generation();
    std::fs::read(lru_file::lru_file_path(&sub, l.generation())).expect("driver: read .lru")
}

fn upd_entries(variant: &str) -> Vec<UpdateEntry> {
    let mk = |i: u8, st: UpdateStatus| {
        UpdateEntry::new([0x51 + i, 2, 3, 4, 5, 6, 7, 8, 0x90 + i], ArchiveLocation { archive_id: 5 + u16::from(i) * 3, archive_offset: 0x1234 + u32::from(i) * 0x100 }, 4096 + u32::from(i), st)
    };
    match variant {
        "normal" => vec![mk(0, UpdateStatus::Normal)],
        "delete" => vec![mk(1, UpdateStatus::Delete)],
        "hdrnr" => vec![mk(2, UpdateStatus::HeaderNonResident)],
        "datanr" => vec![mk(3, UpdateStatus::DataNonResident)],
        _ => vec![mk(0, UpdateStatus::Normal), mk(1, UpdateStatus::Delete), mk(3, UpdateStatus::DataNonResident)],
    }
}
fn render_upd(e: &UpdateEntry) -> String {
    format!("{:?}|{}|{}|{}|{:?}", e.ekey, e.archive_location.archive_id, e.archive_location.archive_offset, e.encoded_size, e.status)
}

fn build_mime(variant: &str, ctx: &ArtCtx) -> Vec<u8> {
    use cascette_ribbit::{AppState, ServerConfig};
    let h = |c: char| c.to_string().repeat(32);
    let db = json!([
        {"id": 1, "product": "wow", "version": "1.15.2.55140", "build": "55140", "build_config": h('a'), "cdn_config": h('b'),
         "keyring": h('c'), "product_config": h('d'), "build_time": "2024-01-02T03:04:05+00:00",
         "encoding_ekey": h('e'), "root_ekey": h('f'), "install_ekey": h('1'), "download_ekey": h('2')},
        {"id": 2, "product": "agent", "version": "2.0.1", "build": "77", "build_config": h('3'), "cdn_config": h('4'),
         "keyring": null, "product_config": null, "build_time": "2024-02-02T03:04:05+00:00",
         "encoding_ekey": h('5'), "root_ekey": h('6'), "install_ekey": h('7'), "download_ekey": h('8')}
    ]);
    let path = ctx.dir.path().join("builds.json");
    std::fs::write(&path, serde_json::to_vec(&db).unwrap()).expect("write db");
    let config = ServerConfig {
        http_bind: "127.0.0.1:1".parse().unwrap(),
        tcp_bind: "127.0.0.1:2".parse().unwrap(),
        builds: path,
        cdn_hosts: "cdn.example.com".to_string(),
        cdn_path: "tpr/wow".to_string(),
        tls_cert: None,
        tls_key: None,
    };
    let state = AppState::new(&config).expect("driver: AppState::new");
    let cmd = match variant {
        "versions" => "v1/products/wow/versions",
        "cdns" => "v1/products/wow/cdns",
        _ => "v1/summary",
    };
    cascette_ribbit::tcp::v1::handle_v1_command(cmd, &state).expect("driver: handle_v1_command").into_bytes()
}

/// Build the undamaged artifact with the real builder.
fn build_artifact(prog: &Value, ctx: &mut ArtCtx) -> (Vec<u8>, Value) {
    let variant = s(prog, "variant");
    match s(prog, "kind") {
        "enc" => (build_enc(variant), json!({})),
        "aidx" => {
            let (b, keys) = build_aidx(variant);
            ctx.keys = keys;
            (b, json!({}))
        }
        "lru" => (build_lru(variant, ctx), json!({})),
        "upd" => (upd_entries(variant)[0].to_bytes().to_vec(), json!({})),
        "updsec" => {
            let mut sec = UpdateSection::new();
            for e in upd_entries("three") {
                assert!(sec.append(e), "driver: append");
            }
            ctx.orig_entries = sec.all_entries().map(render_upd).collect();
            let mut b = sec.to_bytes();
            b.truncate(1024); // the entries' page and one empty page (from_bytes accepts any number of pages)
            (b, json!({}))
        }
        "lhdr" => {
            let base: usize = variant.parse().expect("lhdr variant = base offset");
            ctx.base_offset = base;
            let key = ck16(0x77, base);
            (LocalHeader::new(key, 123_456 + base as u32, base).to_bytes().to_vec(), json!({"base": base}))
        }
        "mime" => (build_mime(variant, ctx), json!({})),
        k => panic!("driver: unknown kind {k}"),
    }
}

/// Load a byte string with the real loader.
fn load(b: &[u8], ctx: &ArtCtx) -> Loaded {
    match (ctx.kind.as_str(), ctx.loader.as_str()) {
        ("enc", "parse") => match EncodingFile::parse(b) {
            Ok(f) => Loaded::Ok(format!(
                "{:?}|{:?}|{:?}|{:?}|{:?}|{:?}|{:?}",
                f.header,
                f.espec_table,
                f.ckey_index.iter().map(|i| i.first_key).collect::<Vec<_>>(),
                f.ckey_pages.iter().map(|p| &p.entries).collect::<Vec<_>>(),
                f.ekey_index.iter().map(|i| i.first_key).collect::<Vec<_>>(),
                f.ekey_pages.iter().map(|p| &p.entries).collect::<Vec<_>>(),
                f.trailing_espec
            )),
            Err(_) => Loaded::Failed,
        },
        ("aidx", "parse") => match ArchiveIndex::parse(Cursor::new(b)) {
            Ok(i) => Loaded::Ok(format!("{:?}|{:?}|{:?}", i.entries, i.toc, i.footer)),
            Err(_) => Loaded::Failed,
        },
        ("aidx", "chunked") => {
            let p = ctx.dir.path().join("x.index");
            std::fs::write(&p, b).expect("write index");
            match ChunkedArchiveIndex::open(&p) {
                Ok(mut i) => {
                    let mut out = String::new();
                    for k in &ctx.keys {
                        match i.find_entry(k) {
                            Ok(e) => out.push_str(&format!("{e:?};")),
                            Err(_) => out.push_str("E;"),
                        }
                    }
                    Loaded::Ok(out)
                }
                Err(_) => Loaded::Failed,
            }
        }
        ("lru", "deserialize") => match lru_file::deserialize(b) {
            Some((h, es)) => Loaded::Ok(format!("{}|{}|{}|{:?}", h.version, h.mru_head, h.lru_tail, es)),
            None => Loaded::Failed,
        },
        ("lru", "manager") => {
            let sub = ctx.dir.path().join("load");
            let _ = std::fs::create_dir_all(&sub);
            std::fs::write(lru_file::lru_file_path(&sub, ctx.lru_gen), b).expect("write .lru");
            let mut l = LruManager::new(ctx.lru_cap, sub);
            match ctx.rt.block_on(l.load_from_disk(ctx.lru_gen)) {
                Ok(()) => {
                    let mut order = vec![];
                    let bound = b.len() + 8;
                    l.for_each_entry(|k| {
                        assert!(order.len() <= bound, "for_each_entry does not end (cyclic list)");
                        order.push(*k);
                    });
                    Loaded::Ok(format!("{}|{:?}", l.len(), order))
                }
                Err(_) => Loaded::Failed,
            }
        }
        ("upd", "entry") => {
            let Ok(arr) = <[u8; 24]>::try_from(b) else { return Loaded::Failed };
            let e = UpdateEntry::from_bytes(&arr);
            if e.validate_hash_guard() { Loaded::Ok(render_upd(&e)) } else { Loaded::Invalid }
        }
        ("updsec", "section") => {
            // The loader has no error channel.  "Accepted" = it hands out an entry that was never stored;
            // "invalid" = it dropped entries and handed out nothing new; unchanged set = accepted, same content.
            let sec = UpdateSection::from_bytes(b);
            let got: Vec<String> = sec.all_entries().map(render_upd).collect();
            if got.iter().any(|g| !ctx.orig_entries.contains(g)) {
                Loaded::Ok(format!("{got:?}"))
            } else if got.len() == ctx.orig_entries.len() {
                Loaded::Ok(format!("{:?}", ctx.orig_entries))
            } else {
                Loaded::Invalid
            }
        }
        ("lhdr", "header") => match LocalHeader::from_bytes(b) {
            Some(h) => {
                if h.validate_checksums(ctx.base_offset) {
                    Loaded::Ok(format!("{:?}|{}|{}", h.encoding_key, h.size_with_header, h.flags))
                } else {
                    Loaded::Invalid
                }
            }
            None => Loaded::Failed,
        },
        ("mime", "parse") => match cascette_protocol::mime_parser::parse_v1_mime_response(b) {
            Ok(r) => Loaded::Ok(format!("{:?}|{:?}", r.data, r.signature)),
            Err(_) => Loaded::Failed,
        },
        (k, l) => panic!("driver: unknown kind/loader {k}/{l}"),
    }
}

fn code(b: &[u8], ctx: &ArtCtx, base: &str) -> u8 {
    LARGEST.store(0, Relaxed);
    let r = guarded(|| load(b, ctx));
    if LARGEST.load(Relaxed) >= 2 * HUGE {
        return HUGE_ALLOC;
    }
    match r {
        Ok(Loaded::Failed) => ERR,
        Ok(Loaded::Invalid) => INVALID,
        Ok(Loaded::Ok(d)) => {
            if d == base {
                SAME
            } else {
                ALTERED
            }
        }
        Err(_) => PANIC,
    }
}

fn visited(p: usize, len: usize, stride: usize, edge: usize) -> bool {
    stride <= 1 || p < edge || p + edge >= len || p % stride == 0
}

fn run_art(prog: &Value, out: &Emit) {
    let mut ctx = ArtCtx {
        kind: s(prog, "kind").to_string(),
        loader: s(prog, "loader").to_string(),
        dir: tempfile::tempdir_in(scratch()).expect("tempdir"),
        rt: rt(),
        base_offset: 0,
        lru_cap: 0,
        lru_gen: 0,
        keys: vec![],
        orig_entries: vec![],
    };
    let fault = s(prog, "fault");
    let stride = prog["stride"].as_u64().unwrap_or(1) as usize;
    let edge = prog["edge"].as_u64().unwrap_or(0) as usize;
    let (art, extra) = build_artifact(prog, &mut ctx);
    let len = art.len();
    // baseline: the undamaged artifact
    let (base_code, base) = match guarded(|| load(&art, &ctx)) {
        Ok(Loaded::Ok(d)) => (SAME, d),
        Ok(Loaded::Invalid) => (INVALID, String::new()),
        Ok(Loaded::Failed) => (ERR, String::new()),
        Err(_) => (PANIC, String::new()),
    };
    out.ev(json!({"op": "new", "part": "art", "kind": ctx.kind, "variant": prog["variant"], "loader": ctx.loader, "fault": fault,
                  "len": len, "bytes": art, "x": extra, "base": base_code, "md5": md5hex(&art), "stride": stride, "edge": edge}));
    let mut seq = 0u64;
    let mut next = || {
        seq += 1;
        seq
    };
    const BLOCK: usize = 32;
    match fault {
        "produce" => out.ev(json!({"op": "check", "seq": next()})),
        "flip" => {
            let mut w = art.clone();
            let ps: Vec<usize> = (0..len).filter(|&p| visited(p, len, stride, edge)).collect();
            for blk in ps.chunks(BLOCK) {
                let mut vs = Vec::with_capacity(blk.len());
                for &p in blk {
                    let mut v = Vec::with_capacity(8);
                    for bit in 0..8 {
                        w[p] = art[p] ^ (1 << bit);
                        v.push(code(&w, &ctx, &base));
                    }
                    w[p] = art[p];
                    vs.push(v);
                }
                out.ev(json!({"op": "flip", "seq": next(), "ps": blk, "v": vs}));
            }
        }
        "subst" => {
            let all = len <= 64;
            let mut w = art.clone();
            let mut rng = Rng::new(0xC07 ^ len as u64);
            let ps: Vec<usize> = (0..len).filter(|&p| visited(p, len, stride, edge)).collect();
            for blk in ps.chunks(if all { 2 } else { BLOCK }) {
                let (mut valss, mut vs) = (vec![], vec![]);
                for &p in blk {
                    let vals: Vec<u8> = if all {
                        (0..=255u8).filter(|&x| x != art[p]).collect()
                    } else {
                        let mut c = vec![art[p] ^ 0xFF, art[p].wrapping_add(1), if art[p] == 0 { 0x20 } else { 0 }];
                        let r = (rng.next() & 0xFF) as u8;
                        if r != art[p] {
                            c.push(r);
                        }
                        c.sort_unstable();
                        c.dedup();
                        c
                    };
                    let mut v = Vec::with_capacity(vals.len());
                    for &x in &vals {
                        w[p] = x;
                        v.push(code(&w, &ctx, &base));
                    }
                    w[p] = art[p];
                    valss.push(vals);
                    vs.push(v);
                }
                out.ev(json!({"op": "subst", "seq": next(), "ps": blk, "vals": valss, "v": vs}));
            }
        }
        "trunc" => {
            let ms: Vec<usize> = (0..len).filter(|&m| visited(m, len, stride, edge)).collect();
            for blk in ms.chunks(8 * BLOCK) {
                let v: Vec<u8> = blk.iter().map(|&m| code(&art[..m], &ctx, &base)).collect();
                out.ev(json!({"op": "trunc", "seq": next(), "ms": blk, "v": v}));
            }
        }
        "extend" => {
            let (mut ns, mut fills, mut v) = (vec![], vec![], vec![]);
            for k in [1usize, 2, 4, 8, 16, 20, 24, 28, 30, 40, 64, 512, 1024, 4096] {
                for fill in ["zero", "ff", "tail"] {
                    let mut w = art.clone();
                    match fill {
                        "zero" => w.extend(std::iter::repeat_n(0u8, k)),
                        "ff" => w.extend(std::iter::repeat_n(0xFFu8, k)),
                        _ => {
                            if k > len {
                                continue;
                            }
                            w.extend_from_slice(&art[len - k..]);
                        }
                    }
                    ns.push(k);
                    fills.push(fill);
                    v.push(code(&w, &ctx, &base));
                }
            }
            out.ev(json!({"op": "extend", "seq": next(), "ns": ns, "fills": fills, "v": v}));
        }
        f => panic!("driver: unknown fault class {f}"),
    }
}

// =========================================================================== part V: validation functions
fn content(b: &[u8]) -> Value {
    if b.len() <= 160 { json!({"b": b}) } else { json!({"n": b.len(), "md5": md5::compute(b).0}) }
}

fn val_data(len: usize) -> Vec<u8> {
    (0..len).map(|i| (i as u8).wrapping_mul(37).wrapping_add(len as u8)).collect()
}

fn run_val(prog: &Value, out: &Emit) {
    out.ev(json!({"op": "new", "part": "val"}));
    let rt = rt();
    let mut seq = 0u64;
    for c in prog["cases"].as_array().expect("cases") {
        let data = val_data(n(c, "n"));
        let good = md5::compute(&data).0;
        let (ck, data): ([u8; 16], Vec<u8>) = match s(c, "rel") {
            "match" => (good, data),
            "flip" => {
                let mut k = good;
                k[n(c, "n") % 16] ^= 1 << (n(c, "n") % 8);
                (k, data)
            }
            "other" => (md5::compute(b"something else").0, data),
            // the key of the full data, one byte of the data missing
            _ => (good, data[..data.len().saturating_sub(1)].to_vec()),
        };
        let key = ContentKey::from_bytes(ck);
        let api = s(c, "api");
        let bytes = Bytes::from(data.clone());
        let r = guarded(|| -> String {
            let b = |v: bool| if v { "true".to_string() } else { "false".to_string() };
            match api {
                "md5_hooks" => rt.block_on(Md5ValidationHooks::new().validate_content(&key, &data)).map_or("err".into(), |r| b(r.is_valid)),
                "md5_on_get" => rt.block_on(Md5ValidationHooks::new().validate_on_get(&key, &data)).map_or("err".into(), |r| b(r.is_valid)),
                "ngdp_hooks" => rt.block_on(NgdpValidationHooks::new().validate_content(&key, &data)).map_or("err".into(), |r| b(r.is_valid)),
                "ngdp_batch" => rt
                    .block_on(NgdpValidationHooks::new().batch_validate_content(&[(key, &data[..])]))
                    .map_or("err".into(), |r| b(r.len() == 1 && r[0].is_valid)),
                "new_validated" => b(NgdpBytes::new_validated(bytes.clone(), key).is_ok()),
                "if_needed" => NgdpBytes::new_with_key(bytes.clone(), key).validate_if_needed().map_or("err".into(), b),
                // a mismatch is reported as Err(ContentValidationFailed) by this API
                "with_hooks" => {
                    let nb = NgdpBytes::new_with_key(bytes.clone(), key);
                    let r = rt.block_on(nb.validate_with_hooks(&Md5ValidationHooks::new()));
                    let v = r.is_ok_and(|r| r.is_valid);
                    // the wrapper's own flag must agree with what it reported
                    if nb.is_validated() != v { "flag".into() } else { b(v) }
                }
                a => panic!("driver: unknown api {a}"),
            }
        });
        seq += 1;
        out.ev(json!({"op": "validate", "seq": seq, "api": api, "rel": c["rel"], "n": c["n"], "data": content(&data), "ck": ck,
                      "res": r.unwrap_or_else(|_| "panic".into())}));
    }
}

// =========================================================================== part B: validating caches
fn value_bytes(v: &str) -> Vec<u8> {
    match v {
        "v1" => b"content of the first file (v1)".to_vec(),
        "v2" => b"second file, other bytes: v2 v2".to_vec(),
        "v3" => b"3".to_vec(),
        other => panic!("driver: unknown value {other}"),
    }
}
fn ckey(v: &str) -> ContentKey {
    ContentKey::from_data(&value_bytes(v))
}
fn rkey(k: &str) -> RibbitKey {
    RibbitKey::new(format!("c07-{k}"), "eu")
}
fn bkey(v: &str) -> BlteBlockKey {
    BlteBlockKey::new_raw(ckey(v), 0)
}

/// Damage a stored value (the environment's action, not the code under test).
fn damage(cur: &[u8], how: &str) -> Vec<u8> {
    let mut b = cur.to_vec();
    match how {
        "flip" => {
            if b.is_empty() {
                b.push(1);
            } else {
                let i = b.len() / 2;
                b[i] ^= 0x10;
            }
        }
        "trunc" => {
            b.pop();
        }
        "empty" => b.clear(),
        "extend" => b.push(0),
        // the bytes of another valid value: valid for its own key, not for this one
        "swap" => b = value_bytes(if cur == value_bytes("v1") { "v2" } else { "v1" }),
        h => panic!("driver: unknown damage {h}"),
    }
    b
}

fn find_file(dir: &Path, name: &str) -> Option<PathBuf> {
    for e in std::fs::read_dir(dir).ok()?.flatten() {
        let p = e.path();
        if p.is_dir() {
            if let Some(f) = find_file(&p, name) {
                return Some(f);
            }
        } else if p.file_name().and_then(|x| x.to_str()) == Some(name) {
            return Some(p);
        }
    }
    None
}

enum Inner {
    Mem(Arc<MemoryCache<BlteBlockKey>>),
    Disk(Arc<DiskCache<BlteBlockKey>>),
}
enum Comp {
    CacMem(ContentAddressedCache<MemoryCache<BlteBlockKey>>),
    CacDisk(ContentAddressedCache<DiskCache<BlteBlockKey>>),
    Ml(MultiLayerCacheImpl<RibbitKey>),
}
struct Run {
    rt: tokio::runtime::Runtime,
    comp: Comp,
    inner: Option<Inner>,
    disk_dirs: Vec<Option<PathBuf>>,
    keys: Vec<String>,
    nlayers: usize,
    _dir: tempfile::TempDir,
}

fn new_run(prog: &Value) -> Run {
    let rt = rt();
    let dir = tempfile::tempdir_in(scratch()).expect("tempdir");
    let keys: Vec<String> = prog["keys"].as_array().expect("keys").iter().map(|x| x.as_str().unwrap().to_string()).collect();
    let big = prog["big"].as_bool().unwrap_or(false);
    let memcfg = || {
        let c = MemoryCacheConfig::new().with_max_entries(100).with_default_ttl(LONG_TTL);
        if big { c.with_max_memory(600 << 20) } else { c }
    };
    let _g = rt.enter();
    match s(prog, "comp") {
        "cac_mem" => {
            let inner = Arc::new(MemoryCache::<BlteBlockKey>::new(memcfg()).expect("MemoryCache::new"));
            let cac = ContentAddressedCache::new(inner.clone(), Arc::new(NgdpValidationHooks::new()));
            drop(_g);
            Run { rt, comp: Comp::CacMem(cac), inner: Some(Inner::Mem(inner)), disk_dirs: vec![None], keys, nlayers: 1, _dir: dir }
        }
        "cac_disk" => {
            let d = dir.path().join("cac");
            let inner = Arc::new(DiskCache::<BlteBlockKey>::new(DiskCacheConfig::new(d.clone()).with_default_ttl(LONG_TTL)).expect("DiskCache::new"));
            let cac = ContentAddressedCache::new(inner.clone(), Arc::new(NgdpValidationHooks::new()));
            drop(_g);
            Run { rt, comp: Comp::CacDisk(cac), inner: Some(Inner::Disk(inner)), disk_dirs: vec![Some(d)], keys, nlayers: 1, _dir: dir }
        }
        _ => {
            let kinds: Vec<String> = prog["kinds"].as_array().expect("kinds").iter().map(|x| x.as_str().unwrap().to_string()).collect();
            let mut cfg = MultiLayerCacheConfig::new().with_promotion_strategy(match prog["strategy"].as_str().unwrap_or("on_hit") {
                "manual" => PromotionStrategy::Manual,
                "after2" => PromotionStrategy::AfterNHits(2),
                _ => PromotionStrategy::OnHit,
            });
            let mut disk_dirs = vec![];
            for (i, k) in kinds.iter().enumerate() {
                if k == "disk" {
                    let d = dir.path().join(format!("layer{i}"));
                    disk_dirs.push(Some(d.clone()));
                    cfg = cfg.add_disk_layer(DiskCacheConfig::new(d).with_default_ttl(LONG_TTL));
                } else {
                    disk_dirs.push(None);
                    cfg = cfg.add_memory_layer(memcfg());
                }
            }
            let mut c = MultiLayerCacheImpl::<RibbitKey>::new(cfg).expect("MultiLayerCacheImpl::new");
            match s(prog, "hooks") {
                "md5" => c.set_validation_hooks(Some(Arc::new(Md5ValidationHooks::new()))),
                "ngdp" => c.set_validation_hooks(Some(Arc::new(NgdpValidationHooks::new()))),
                _ => {}
            }
            drop(_g);
            Run { rt, comp: Comp::Ml(c), inner: None, disk_dirs, keys, nlayers: kinds.len(), _dir: dir }
        }
    }
}

/// For the content-addressed caches a key name is the name of the value whose MD5 is the key.
fn file_name(run: &Run, k: &str) -> String {
    match run.comp {
        Comp::Ml(_) => rkey(k).as_cache_key().to_string(),
        _ => bkey(k).as_cache_key().to_string(),
    }
}

fn big_value(tag: u8) -> Bytes {
    let mut v = vec![tag; (100 << 20) + 1];
    v[0] = b'B';
    Bytes::from(v)
}

fn exec_cache(run: &Run, op: &Value) -> Value {
    let rt = &run.rt;
    let name = s(op, "op");
    let val = |f: &str| -> Bytes {
        match s(op, f) {
            "big1" => big_value(1),
            "big2" => big_value(2),
            v => Bytes::from(value_bytes(v)),
        }
    };
    // always the key of a small valid value (no 100 MiB value has it)
    let ck = |f: &str| -> ContentKey { ckey(s(op, f)) };
    match name {
        // ---- validating writes
        "put_val" => {
            let r = match &run.comp {
                Comp::CacMem(c) => rt.block_on(c.put_validated(ck("ck"), val("v"))).is_ok(),
                Comp::CacDisk(c) => rt.block_on(c.put_validated(ck("ck"), val("v"))).is_ok(),
                Comp::Ml(c) => rt.block_on(c.put_with_validation(rkey(s(op, "k")), ck("ck"), val("v"))).is_ok(),
            };
            if r { json!({"ok": 1}) } else { json!({"err": 1}) }
        }
        // ---- validating reads
        "get_val" => {
            let r: Result<Option<(Bytes, bool)>, ()> = match &run.comp {
                Comp::CacMem(c) => rt.block_on(c.get_validated(ck("ck"))).map(|o| o.map(|b| (b, true))).map_err(|_| ()),
                Comp::CacDisk(c) => rt.block_on(c.get_validated(ck("ck"))).map(|o| o.map(|b| (b, true))).map_err(|_| ()),
                Comp::Ml(c) => {
                    let e = if s(op, "ck") == "none" { None } else { Some(ck("ck")) };
                    rt.block_on(c.get_with_validation(&rkey(s(op, "k")), e))
                        .map(|o| o.map(|nb| (nb.as_bytes().clone(), nb.is_validated())))
                        .map_err(|_| ())
                }
            };
            match r {
                Ok(Some((b, validated))) => json!({"some": content(&b), "validated": validated}),
                Ok(None) => json!({"none": 1}),
                Err(()) => json!({"err": 1}),
            }
        }
        // ---- writers that do not validate (another user of the same store)
        "put_raw" => {
            let r = match (&run.comp, &run.inner) {
                (Comp::Ml(c), _) => rt.block_on(c.put_to_layer(rkey(s(op, "k")), val("v"), n(op, "layer"))).is_ok(),
                (_, Some(Inner::Mem(i))) => rt.block_on(i.put(bkey(s(op, "k")), val("v"))).is_ok(),
                (_, Some(Inner::Disk(i))) => rt.block_on(i.put(bkey(s(op, "k")), val("v"))).is_ok(),
                _ => unreachable!(),
            };
            if r { json!({"ok": 1}) } else { json!({"err": 1}) }
        }
        "put" | "remove" => match &run.comp {
            Comp::Ml(c) => {
                let ok = if name == "put" { rt.block_on(c.put(rkey(s(op, "k")), val("v"))).is_ok() } else { rt.block_on(c.remove(&rkey(s(op, "k")))).is_ok() };
                if ok { json!({"ok": 1}) } else { json!({"err": 1}) }
            }
            _ => json!({"err": 1}),
        },
        "get" => match &run.comp {
            Comp::Ml(c) => match rt.block_on(c.get(&rkey(s(op, "k")))) {
                Ok(Some(b)) => json!({"some": content(&b)}),
                Ok(None) => json!({"none": 1}),
                Err(_) => json!({"err": 1}),
            },
            _ => json!({"none": 1}),
        },
        // ---- the environment damages or deletes the backing file / entry
        "corrupt" | "delete" => {
            let k = s(op, "k");
            let mut hit = false;
            for l in 0..run.nlayers {
                if let Some(d) = &run.disk_dirs[l] {
                    if let Some(p) = find_file(d, &file_name(run, k)) {
                        if name == "delete" {
                            std::fs::remove_file(&p).expect("driver: delete file");
                        } else {
                            let cur = std::fs::read(&p).expect("driver: read file");
                            std::fs::write(&p, damage(&cur, s(op, "how"))).expect("driver: damage file");
                        }
                        hit = true;
                    }
                } else if let Some(Inner::Mem(i)) = &run.inner {
                    // memory-backed content-addressed cache: the shared inner cache is written by someone else
                    if let Ok(Some(cur)) = rt.block_on(i.get(&bkey(k))) {
                        if name == "delete" {
                            let _ = rt.block_on(i.remove(&bkey(k)));
                        } else {
                            rt.block_on(i.put(bkey(k), Bytes::from(damage(&cur, s(op, "how"))))).expect("driver: inner put");
                        }
                        hit = true;
                    }
                }
            }
            json!({"hit": hit})
        }
        other => panic!("driver: unknown op {other}"),
    }
}

fn observe(run: &Run) -> Value {
    let mut layers = vec![];
    for l in 0..run.nlayers {
        let mut m = serde_json::Map::new();
        for k in &run.keys {
            let r = match (&run.comp, &run.inner) {
                (Comp::Ml(c), _) => run.rt.block_on(c.get_from_layer(&rkey(k), l)),
                (_, Some(Inner::Mem(i))) => run.rt.block_on(i.get(&bkey(k))),
                (_, Some(Inner::Disk(i))) => run.rt.block_on(i.get(&bkey(k))),
                _ => unreachable!(),
            };
            m.insert(k.clone(), match r {
                Ok(Some(b)) => content(&b),
                _ => json!({"none": 1}),
            });
        }
        layers.push(Value::Object(m));
    }
    Value::Array(layers)
}

fn cache_header(prog: &Value) -> Value {
    json!({"op": "new", "part": "cache", "comp": prog["comp"], "kinds": prog["kinds"], "hooks": prog["hooks"], "keys": prog["keys"],
           "strategy": prog["strategy"].as_str().unwrap_or("on_hit"),
           "vals": {"v1": value_bytes("v1"), "v2": value_bytes("v2"), "v3": value_bytes("v3")},
           "cks": {"v1": ckey("v1").as_bytes(), "v2": ckey("v2").as_bytes(), "v3": ckey("v3").as_bytes()}})
}

fn step(run: &Run, op: &Value, seq: u64, out: &Emit) -> bool {
    out.begin(op);
    let mut ev = op.clone();
    ev["seq"] = json!(seq);
    if let Some(v) = op.get("v").and_then(Value::as_str) {
        // the content handed to the cache (bytes, or length + digest above 160 bytes)
        ev["vc"] = match v {
            "big1" => content(&big_value(1)),
            "big2" => content(&big_value(2)),
            v => content(&value_bytes(v)),
        };
    }
    match guarded(|| exec_cache(run, op)) {
        Ok(r) => ev["res"] = r,
        Err(m) => {
            ev["res"] = json!({"panic": 1});
            ev["msg"] = json!(m.chars().take(160).collect::<String>());
        }
    }
    match guarded(|| observe(run)) {
        Ok(o) => ev["obs"] = o,
        Err(m) => {
            ev["res"] = json!({"panic": 1});
            ev["msg"] = json!(format!("probe: {}", m.chars().take(140).collect::<String>()));
            ev["obs"] = json!([]);
            out.ev(ev);
            return false;
        }
    }
    out.ev(ev);
    true
}

fn random_ops(prog: &Value) -> Vec<Value> {
    let mut rng = Rng::new(prog["random"].as_u64().unwrap());
    let len = n(prog, "len");
    let ml = s(prog, "comp") == "ml";
    let keys: Vec<String> = prog["keys"].as_array().unwrap().iter().map(|x| x.as_str().unwrap().to_string()).collect();
    let nl = prog["kinds"].as_array().map_or(1, Vec::len) as u64;
    let vals = ["v1", "v2", "v3"];
    let hows = ["flip", "trunc", "empty", "extend", "swap"];
    let mut ops = vec![];
    for _ in 0..len {
        let k = rng.pick(&keys).clone();
        let v = *rng.pick(&vals);
        // content-addressed caches: the key *is* a value name
        let own = if ml { *rng.pick(&vals) } else { k.as_str() }.to_string();
        ops.push(match rng.below(100) {
            0..=21 => json!({"op": "put_val", "k": k, "v": if rng.chance(3, 4) { own.clone() } else { v.to_string() }, "ck": own}),
            22..=49 => json!({"op": "get_val", "k": k, "ck": if ml && rng.chance(1, 8) { "none".to_string() } else { own }}),
            50..=61 => json!({"op": "put_raw", "k": k, "v": v, "layer": rng.below(nl)}),
            62..=69 => json!({"op": "get", "k": k}),
            70..=91 => json!({"op": "corrupt", "k": k, "how": *rng.pick(&hows)}),
            _ => json!({"op": "delete", "k": k}),
        });
    }
    ops
}

fn run_cache(prog: &Value, out: &Emit) {
    let run = new_run(prog);
    out.ev(cache_header(prog));
    let ops = if prog.get("random").is_some() { random_ops(prog) } else { prog["ops"].as_array().expect("ops").clone() };
    for (i, op) in ops.iter().enumerate() {
        if !step(&run, op, i as u64 + 1, out) {
            return;
        }
    }
}

// =========================================================================== part C: a validating read with a writer in between
// The validating read asks the layers one after the other.  With the crate's `verif-hooks` scheduling points the
// reader thread is parked inside the disk layer's lookup (site `disk.get.looked_up`, i.e. after the faster layers
// have answered) while another user of the cache runs one operation; then it is released.  Which occurrence of the
// site to park at comes from the program (TLC: after how many looks the writer runs).
struct Gate {
    armed: bool,
    target: u64,
    hits: u64,
    parked: bool,
    release: bool,
}
static GATE: std::sync::Mutex<Gate> = std::sync::Mutex::new(Gate { armed: false, target: 0, hits: 0, parked: false, release: false });
static GATE_CV: std::sync::Condvar = std::sync::Condvar::new();
thread_local! { static IS_READER: std::cell::Cell<bool> = const { std::cell::Cell::new(false) }; }

fn sched_handler(site: &'static str) {
    if site != "disk.get.looked_up" || !IS_READER.with(std::cell::Cell::get) {
        return;
    }
    let mut g = GATE.lock().unwrap_or_else(std::sync::PoisonError::into_inner);
    if !g.armed {
        return;
    }
    g.hits += 1;
    if g.hits != g.target {
        return;
    }
    g.parked = true;
    GATE_CV.notify_all();
    let deadline = std::time::Instant::now() + Duration::from_secs(60);
    while !g.release && std::time::Instant::now() < deadline {
        g = GATE_CV.wait_timeout(g, Duration::from_millis(100)).unwrap_or_else(std::sync::PoisonError::into_inner).0;
    }
    g.armed = false;
}

fn read_validated(run: &Run, rt: &tokio::runtime::Runtime, k: &str, ckn: &str) -> Value {
    let Comp::Ml(c) = &run.comp else { panic!("driver: conc needs the multi-layer cache") };
    match rt.block_on(c.get_with_validation(&rkey(k), Some(ckey(ckn)))) {
        Ok(Some(nb)) => json!({"some": content(nb.as_bytes()), "validated": nb.is_validated()}),
        Ok(None) => json!({"none": 1}),
        Err(_) => json!({"err": 1}),
    }
}

fn run_conc(prog: &Value, out: &Emit) {
    let run = Arc::new(new_run(prog));
    let mut h = cache_header(prog);
    h["part"] = json!("conc");
    h["prog"] = prog.clone();
    out.ev(h);
    let mut seq = 0u64;
    for op in prog["init"].as_array().expect("init") {
        seq += 1;
        if !step(&run, op, seq, out) {
            return;
        }
    }
    let (k, ckn) = (s(&prog["reader"], "k").to_string(), s(&prog["reader"], "ck").to_string());
    let wop = prog["writer"].clone();
    let at = n(prog, "at");
    let after = prog["after"].as_bool().unwrap_or(false);
    // the occurrence of the site to park at: the disk layers among the first at + 1 layers
    let kinds: Vec<&str> = prog["kinds"].as_array().expect("kinds").iter().map(|x| x.as_str().unwrap()).collect();
    let occ = if after || at == 0 || at >= kinds.len() || kinds[at] != "disk" { 0 } else { kinds[..=at].iter().filter(|x| **x == "disk").count() as u64 };
    let race = json!({"op": "race", "k": k, "ck": ckn, "at": at, "after": after, "occ": occ});
    out.begin(&race);
    let mut ev = race.clone();
    seq += 1;
    ev["seq"] = json!(seq);
    let writer = |run: &Run| -> Value {
        let mut w = wop.clone();
        w["res"] = guarded(|| exec_cache(run, &wop)).unwrap_or_else(|_| json!({"panic": 1}));
        w
    };
    let mut parked = false;
    if !after && at == 0 {
        ev["writer"] = writer(&run);
    }
    {
        let mut g = GATE.lock().unwrap_or_else(std::sync::PoisonError::into_inner);
        *g = Gate { armed: occ > 0, target: occ, hits: 0, parked: false, release: false };
    }
    let (tx, rx) = std::sync::mpsc::channel::<Result<Value, String>>();
    let (r2, k2, c2) = (run.clone(), k.clone(), ckn.clone());
    std::thread::spawn(move || {
        IS_READER.with(|r| r.set(true));
        let rt2 = rt();
        let _ = tx.send(guarded(|| read_validated(&r2, &rt2, &k2, &c2)));
    });
    let mut res: Option<Result<Value, String>> = None;
    if occ > 0 {
        // wait until the reader is parked - or has returned without reaching the site
        let deadline = std::time::Instant::now() + Duration::from_secs(40);
        loop {
            if let Ok(r) = rx.try_recv() {
                res = Some(r);
                break;
            }
            let g = GATE.lock().unwrap_or_else(std::sync::PoisonError::into_inner);
            if g.parked || std::time::Instant::now() > deadline {
                parked = g.parked;
                break;
            }
            drop(GATE_CV.wait_timeout(g, Duration::from_millis(20)));
        }
        if parked {
            ev["writer"] = writer(&run);
        }
        let mut g = GATE.lock().unwrap_or_else(std::sync::PoisonError::into_inner);
        g.release = true;
        g.armed = false;
        GATE_CV.notify_all();
    }
    let res = match res {
        Some(r) => Some(r),
        None => rx.recv_timeout(Duration::from_secs(50)).ok(),
    };
    if ev.get("writer").is_none() {
        // the writer did not get its turn in between: it runs after the read
        ev["writer"] = writer(&run);
    }
    ev["parked"] = json!(parked);
    ev["res"] = match res {
        Some(Ok(v)) => v,
        Some(Err(m)) => json!({"panic": 1, "msg": m.chars().take(120).collect::<String>()}),
        None => json!({"panic": 1, "msg": "the validating read did not return"}),
    };
    ev["obs"] = guarded(|| observe(&run)).unwrap_or_else(|_| json!([]));
    out.ev(ev);
}

fn run_program(prog: &Value, out: &Emit) {
    out.begin(&json!({"op": "new"}));
    match s(prog, "part") {
        "art" => run_art(prog, out),
        "val" => run_val(prog, out),
        "cache" => run_cache(prog, out),
        "conc" => run_conc(prog, out),
        p => panic!("driver: unknown part {p}"),
    }
}

fn main() {
    quiet_panics();
    cascette_cache::verif_hooks::install_sched(Some(Arc::new(sched_handler)));
    assert_ne!(value_bytes("v1"), value_bytes("v2"));
    let args: Vec<String> = std::env::args().collect();
    let mut out = Out::from_arg(arg(&args, "--out").as_ref());
    let mut programs = vec![];
    if let Some(p) = arg(&args, "--programs") {
        programs = read_programs(&p);
    }
    let nrand = arg_u64(&args, "--random", 0);
    if nrand > 0 {
        let mut rng = Rng::new(seed_from_env());
        let len = arg_u64(&args, "--len", 40);
        let mut dump = arg(&args, "--dump-programs").map(|p| Out::to_path(Path::new(&p)));
        for i in 0..nrand {
            let (comp, kinds, keys) = match i % 5 {
                0 => ("cac_mem", json!(["mem"]), json!(["v1", "v2", "v3"])),
                1 => ("cac_disk", json!(["disk"]), json!(["v1", "v2", "v3"])),
                2 => ("ml", json!(["disk"]), json!(["a", "b"])),
                3 => ("ml", json!(["mem", "disk"]), json!(["a", "b"])),
                _ => ("ml", json!(["mem", "mem", "disk"]), json!(["a", "b", "c"])),
            };
            let hooks = *rng.pick(&["md5", "md5", "ngdp", "none"]);
            let prog = json!({"part": "cache", "comp": comp, "kinds": kinds, "hooks": if comp == "ml" { hooks } else { "ngdp" }, "keys": keys,
                              "strategy": *rng.pick(&["on_hit", "manual", "after2"]), "random": rng.next() >> 12, "len": len});
            if let Some(d) = dump.as_mut() {
                d.ev(&prog);
            }
            programs.push(prog);
        }
    }
    let st = run_with_watchdog(programs, &mut out, Duration::from_secs(60), run_program);
    out.flush();
    let _ = std::fs::remove_dir_all(scratch());
    eprintln!("{}", json!({"programs": st.programs, "events": out.events, "hangs": st.hangs, "skipped": st.skipped}));
    std::process::exit(if st.skipped > 0 { 3 } else { 0 });
}
