//! C06 driver: crash consistency of the save routines.
//!
//! The driver only executes and records; every verdict is computed by TLC
//! (spec/trace/T_CrashFS.tla produces the crash scenarios from the recorded
//! system calls, spec/trace/T_CrashJudge.tla judges the recoveries).
//!
//! usage
//!   drv_crash history --cases <ndjson> --ctx <dir>
//!       meant to be run under `strace -f -y -xx ...` (checks/c06.py does that).  Per case:
//!       build the old state with the real API in <scratch>/<id>/sb (every op but the last),
//!       copy the sandbox to <ctx>/<id>/pre, issue the marker system call
//!       unlink("<sb>/__C06_BEGIN__"), perform the last op (the save under study) with the
//!       real routine, issue unlink("<sb>/__C06_END__"), copy the sandbox to <ctx>/<id>/post
//!       and write <ctx>/<id>/hist.json (case, result of the save, in-memory projection).
//!   drv_crash recover --ctx <dir> --scenarios <ndjson> --out <file>
//!       per scenario line (printed by T_CrashFS: post-crash directory as a list of files, each a
//!       list of extents {src,off,len} over "pre:<name>" / "w<event>" / "zero"): build that
//!       directory byte-exactly, run the REAL recovery on it (LruManager::run_cycle on a new
//!       manager, IndexManager::load_all + lookups, ResidencyDb::load + ResidencyContainer,
//!       DiskCache size/get on a new instance, ExtractorCompactorBackup::load), then one more
//!       real save + reload on the recovered store, and log what was seen.
//!
//! Case: {"id":"lru-12","routine":"lru","ops":["mut","save","mut","bump","save"],"cap":4,"subdirs":true}
//! The last op is the save that is crash-enumerated; earlier ops build the history.
//!   lru      mut bump save shutdown reopen          (save = checkpoint_to_disk)
//!   index    add rm flush save reopen fill addf     (save = save_all, flush = flush_all_updates: also a save;
//!                                                    fill = fill the update section of bucket 03, addf = the add_entry
//!                                                    that finds it full and flushes + saves the bucket itself)
//!   res      mark unmark save reopen                (save = ResidencyContainer::flush -> ResidencyDb::save; with
//!                                                    "direct":true the ResidencyDb API is used without the container)
//!   disk     puta putb rma reopen                   (put -> DiskCache::write_temp_file + rename; "bg":true builds the
//!                                                    cache with new_with_background_tasks, intervals of a day)
//!   journal  rec reopen fresh wsave                 (rec = ExtractorCompactorBackup::record_segment, wsave = save(),
//!                                                    fresh = a new object that has not loaded the journal)
use bytes::Bytes;
use cascette_cache::DiskCache;
use cascette_cache::config::DiskCacheConfig;
use cascette_cache::key::RibbitKey;
use cascette_cache::traits::AsyncCache;
use cascette_client_storage::container::AccessMode;
use cascette_client_storage::container::residency::ResidencyContainer;
use cascette_client_storage::index::IndexManager;
use cascette_client_storage::kmt::key_state::ResidencyDb;
use cascette_client_storage::lru::LruManager;
use cascette_client_storage::storage::compaction::ExtractorCompactorBackup;
use cascette_crypto::EncodingKey;
use serde_json::{Map, Value, json};
use std::collections::HashMap;
use std::path::{Path, PathBuf};
use std::sync::Mutex;
use verif_harness::*;

thread_local! { static RT: tokio::runtime::Runtime = rt(); }
fn block<F: std::future::Future>(f: F) -> F::Output {
    RT.with(|rt| rt.block_on(f))
}

fn scratch_root() -> PathBuf {
    if let Ok(p) = std::env::var("C06_SCRATCH") {
        return PathBuf::from(p);
    }
    let p = Path::new("/dev/shm");
    if p.is_dir() { p.to_path_buf() } else { std::env::temp_dir() }
}

fn canon(v: &Value) -> String {
    serde_json::to_string(v).expect("json")
}
fn okerr<T, E: std::fmt::Display>(r: &Result<T, E>) -> Value {
    match r {
        Ok(_) => json!({"ok": true, "err": ""}),
        Err(e) => json!({"ok": false, "err": e.to_string().chars().take(200).collect::<String>()}),
    }
}

// ---------------------------------------------------------------------------
// concretisation (fixed tables; injective by construction, asserted below)
// ---------------------------------------------------------------------------
const NKEYS: u32 = 64;
const RESAVE_N: u32 = 60; // key number used by the save that follows a recovery

fn lru_key(i: u32) -> [u8; 9] {
    [(i + 1) as u8; 9]
}
fn lru_name(k: &[u8; 9]) -> String {
    if k.iter().all(|b| *b == k[0]) && k[0] > 0 { format!("k{}", k[0] - 1) } else { format!("?{}", hex(k)) }
}

const IDX_BUCKETS: [u8; 2] = [3, 12];
fn idx_key9(n: u32) -> [u8; 9] {
    let bucket = IDX_BUCKETS[(n % 2) as usize];
    let nb = n.to_be_bytes();
    let scr = (n.wrapping_mul(167).wrapping_add(29) & 0xFF) as u8;
    let mut k = [scr, b'i', nb[0], nb[1], nb[2], nb[3], 0xA5, 0x00, 0x00];
    let h = k.iter().fold(0u8, |a, b| a ^ b);
    k[8] = (bucket ^ (h & 0x0F) ^ (h >> 4)) & 0x0F;
    k
}
fn idx_key(n: u32) -> EncodingKey {
    let mut k = [0x11u8; 16];
    k[..9].copy_from_slice(&idx_key9(n));
    EncodingKey::from_bytes(k)
}
/// keys of the "fill" op: bucket 03, disjoint from idx_key9 (tag 'f')
fn fill_key(n: u32) -> EncodingKey {
    let nb = n.to_be_bytes();
    let mut k9 = [(n.wrapping_mul(91) & 0xFF) as u8, b'f', nb[0], nb[1], nb[2], nb[3], 0x3C, 0x00, 0x00];
    let h = k9.iter().fold(0u8, |a, b| a ^ b);
    k9[8] = (IDX_BUCKETS[0] ^ (h & 0x0F) ^ (h >> 4)) & 0x0F;
    let mut k = [0x22u8; 16];
    k[..9].copy_from_slice(&k9);
    EncodingKey::from_bytes(k)
}
const UPD_CAP: u32 = 1260; // documented capacity of a bucket's update section (60 pages x 21 entries)
fn idx_loc(n: u32) -> (u16, u32, u32) {
    ((n % 7 + 1) as u16, 4096 * n + 16, 100 + n)
}

const RES_BUCKETS: [u8; 3] = [1, 6, 11];
fn res_key(n: u32, nb: u32) -> [u8; 16] {
    let want = RES_BUCKETS[(n % nb.clamp(1, 3)) as usize];
    let nbts = n.to_be_bytes();
    let mut k = [b'r', nbts[0], nbts[1], nbts[2], nbts[3], 0x5A, 0xC3, (n.wrapping_mul(41) & 0xFF) as u8, 0x10, 0x20, 0x30, 0x40, 0x50, 0x60, 0x70, 0x00];
    let x = k.iter().fold(0u8, |a, b| a ^ b);
    // bucket = ((x >> 4) ^ x) & 0xF ; choose the low nibble of the last byte
    k[15] = (want ^ (x >> 4) ^ (x & 0x0F)) & 0x0F;
    k
}

fn disk_key(name: &str) -> RibbitKey {
    RibbitKey::new(name, "us")
}
fn disk_val(n: u32) -> Vec<u8> {
    let size = [12usize, 150, 40, 333][(n % 4) as usize];
    Rng::new(u64::from(n).wrapping_mul(0x1_0000_01B3) ^ 0xC06).bytes(size)
}
fn journal_seg(n: u32) -> u16 {
    (3 + 2 * n) as u16 // never 0
}

fn check_tables() {
    let mut s = std::collections::HashSet::new();
    for n in 0..NKEYS {
        assert!(s.insert(idx_key9(n).to_vec()), "index key collision");
        assert_eq!(IndexManager::bucket_for_key(&idx_key(n)), IDX_BUCKETS[(n % 2) as usize], "index bucket");
    }
    for n in [0u32, 1, 629, 1259, 5000] {
        assert_eq!(IndexManager::bucket_for_key(&fill_key(n)), IDX_BUCKETS[0], "fill key bucket");
        assert!(!s.contains(&fill_key(n).as_bytes()[..9].to_vec()), "fill key collides with an index key");
    }
    let mut s = std::collections::HashSet::new();
    for nb in 1..=3 {
        for n in 0..NKEYS {
            let k = res_key(n, nb);
            let x = k.iter().fold(0u8, |a, b| a ^ b);
            assert_eq!(((x >> 4) ^ x) & 0x0F, RES_BUCKETS[(n % nb) as usize], "residency bucket");
            if nb == 3 {
                assert!(s.insert(k.to_vec()), "residency key collision");
            }
        }
    }
}

// ---------------------------------------------------------------------------
// cases
// ---------------------------------------------------------------------------
#[derive(Clone)]
struct Case {
    id: String,
    routine: String,
    ops: Vec<String>,
    cap: u32,
    subdirs: bool,
    nb: u32,
    bg: bool,
    direct: bool,
    raw: Value,
}
fn parse_case(v: &Value) -> Case {
    Case {
        id: v["id"].as_str().expect("case id").to_string(),
        routine: v["routine"].as_str().expect("routine").to_string(),
        ops: v["ops"].as_array().expect("ops").iter().map(|o| o.as_str().expect("op").to_string()).collect(),
        cap: v["cap"].as_u64().unwrap_or(4) as u32,
        subdirs: v["subdirs"].as_bool().unwrap_or(true),
        nb: v["nb"].as_u64().unwrap_or(2) as u32,
        bg: v["bg"].as_bool().unwrap_or(false),
        direct: v["direct"].as_bool().unwrap_or(false),
        raw: v.clone(),
    }
}

// ---------------------------------------------------------------------------
// projections through the public API
// ---------------------------------------------------------------------------
fn lru_order(l: &LruManager) -> Vec<String> {
    let mut order = vec![];
    let bound = l.capacity() as usize + 8;
    l.for_each_entry(|k| {
        assert!(order.len() <= bound, "for_each_entry yields more entries than the capacity (cyclic list)");
        order.push(lru_name(k));
    });
    order
}
fn lru_proj(l: &LruManager) -> Value {
    let order = lru_order(l);
    let members: Vec<String> = (0..8).filter(|i| l.contains(&lru_key(*i))).map(|i| format!("k{i}")).collect();
    json!({"lru": canon(&json!({"order": order, "len": l.len(), "members": members}))})
}

fn index_proj(m: &IndexManager) -> Value {
    let mut per: std::collections::BTreeMap<u8, (Vec<Value>, Vec<Value>)> = Default::default();
    for b in m.loaded_buckets() {
        per.entry(b).or_default();
    }
    for (b, e) in m.iter_entries() {
        per.entry(b).or_default().0.push(json!([hex(&e.key), e.archive_id(), e.archive_offset(), e.size]));
    }
    for n in 0..NKEYS {
        let k = idx_key(n);
        if let Some(e) = m.lookup(&k) {
            let b = IndexManager::bucket_for_key(&k);
            per.entry(b).or_default().1.push(json!([n, e.archive_id(), e.archive_offset(), e.size]));
        }
    }
    // a few keys of the fill range (first, middle, last, the one "addf" adds)
    for n in [0, 1, 629, 1258, 1259, 5000] {
        let k = fill_key(n);
        if let Some(e) = m.lookup(&k) {
            let b = IndexManager::bucket_for_key(&k);
            per.entry(b).or_default().1.push(json!([format!("f{n}"), e.archive_id(), e.archive_offset(), e.size]));
        }
    }
    let mut o = Map::new();
    for (b, (mut ents, looks)) in per {
        ents.sort_by_key(canon);
        // all entries of the bucket, as count + digest once there are many (the "fill" histories hold 1260)
        let ents_v = if ents.len() <= 8 { json!(ents) } else { json!({"n": ents.len(), "md5": md5hex(canon(&json!(ents)).as_bytes())}) };
        o.insert(format!("bucket{b:02x}"), json!(canon(&json!({"entries": ents_v, "lookups": looks}))));
    }
    Value::Object(o)
}

fn res_proj_of(scan_keys: Vec<[u8; 16]>, is_resident: &dyn Fn(&[u8; 16]) -> bool, count: usize, nb: u32) -> Value {
    let mut by_key = HashMap::new();
    for n in 0..NKEYS {
        by_key.insert(res_key(n, nb), n);
    }
    let mut scan: Vec<String> = scan_keys.iter().map(|k| by_key.get(k).map(|n| format!("r{n}")).unwrap_or_else(|| format!("?{}", hex(k)))).collect();
    scan.sort();
    let resident: Vec<String> = (0..NKEYS).filter(|n| is_resident(&res_key(*n, nb))).map(|n| format!("r{n}")).collect();
    json!({"residency": canon(&json!({"scan": scan, "resident": resident, "count": count}))})
}
fn res_proj(c: &ResidencyContainer, nb: u32) -> Value {
    res_proj_of(c.scan_keys(), &|k| c.is_resident(k), c.resident_count(), nb)
}
fn resdb_proj(db: &ResidencyDb, nb: u32) -> Value {
    res_proj_of(db.scan_keys(), &|k| db.is_resident(k), db.entry_count(), nb)
}

fn disk_val_str(b: &[u8]) -> String {
    format!("{}:{}", b.len(), md5hex(b))
}
/// objects "entry:a" "entry:b" "entry:c" (what get answers: "none" or "<len>:<md5>") and "size"
fn disk_proj(c: &DiskCache<RibbitKey>) -> (bool, String, Value, i64) {
    // size() first: get() on a new instance adds what it finds to the in-memory index
    let mut ok = true;
    let mut err = String::new();
    let mut o = Map::new();
    let mut sizen = -1i64;
    match block(c.size()) {
        Ok(n) => {
            sizen = n as i64;
            o.insert("size".into(), json!(n.to_string()));
        }
        Err(e) => {
            ok = false;
            err = e.to_string();
            o.insert("size".into(), json!("err"));
        }
    }
    for k in ["a", "b", "c"] {
        let v = match block(c.get(&disk_key(k))) {
            Ok(None) => "none".to_string(),
            Ok(Some(b)) => disk_val_str(&b),
            Err(e) => {
                ok = false;
                err = e.to_string();
                "err".to_string()
            }
        };
        o.insert(format!("entry:{k}"), json!(v));
    }
    (ok, err, Value::Object(o), sizen)
}

fn journal_proj(b: Option<&ExtractorCompactorBackup>) -> (Value, Vec<u16>) {
    let segs: Vec<u16> = b.map(|b| b.segments().to_vec()).unwrap_or_default();
    (json!({"journal": canon(&json!(segs))}), segs)
}

// ---------------------------------------------------------------------------
// the world of one case: the live objects of the real code
// ---------------------------------------------------------------------------
enum World {
    Lru { l: LruManager, nmut: u32 },
    Index { m: IndexManager, nadd: u32, live: Vec<u32>, upd3: u32 },
    Res { c: ResidencyContainer, nmark: u32, live: Vec<u32> },
    ResDirect { db: ResidencyDb, nmark: u32, live: Vec<u32> },
    Disk { c: DiskCache<RibbitKey>, nput: u32 },
    Journal { b: ExtractorCompactorBackup, nrec: u32 },
}

fn open_res(dir: &Path) -> (ResidencyContainer, Value) {
    let mut c = ResidencyContainer::new("wow".to_string(), AccessMode::ReadWrite, dir.to_path_buf());
    let r = block(c.initialize());
    (c, okerr(&r))
}
/// bg: the constructor that starts the background cleanup / sync tasks.  Their intervals are a day, so after the
/// immediate first tick (forced here, before anything is observed) they never run during a case.
fn open_disk(dir: &Path, subdirs: bool, bg: bool) -> Result<DiskCache<RibbitKey>, String> {
    let mut c = DiskCacheConfig::new(dir);
    c.use_subdirectories = subdirs;
    if !bg {
        return DiskCache::<RibbitKey>::new(c).map_err(|e| e.to_string());
    }
    c.cleanup_interval = std::time::Duration::from_secs(24 * 3600);
    c.sync_interval = std::time::Duration::from_secs(24 * 3600);
    let cache = RT.with(|rt| {
        let _g = rt.enter();
        DiskCache::<RibbitKey>::new_with_background_tasks(c).map_err(|e| e.to_string())
    })?;
    for _ in 0..4 {
        block(tokio::task::yield_now());
    }
    Ok(cache)
}

impl World {
    fn new(case: &Case, dir: &Path) -> World {
        match case.routine.as_str() {
            "lru" => World::Lru { l: LruManager::new(case.cap, dir.to_path_buf()), nmut: 0 },   // see start(): one mutation
            "index" => World::Index { m: IndexManager::new(dir), nadd: 0, live: vec![], upd3: 0 },
            "res" if case.direct => World::ResDirect { db: ResidencyDb::new(dir.join("key_state_v8")), nmark: 0, live: vec![] },
            "res" => World::Res { c: open_res(dir).0, nmark: 0, live: vec![] },
            "disk" => World::Disk { c: open_disk(dir, case.subdirs, case.bg).expect("disk cache"), nput: 0 },
            "journal" => World::Journal { b: ExtractorCompactorBackup::new(dir), nrec: 0 },
            other => panic!("driver: unknown routine {other}"),
        }
    }

    fn apply(&mut self, case: &Case, dir: &Path, op: &str) -> Value {
        match self {
            World::Lru { l, nmut } => match op {
                "mut" => {
                    let m = *nmut;
                    *nmut += 1;
                    let a = l.touch(&lru_key((2 * m) % 6));
                    let b = l.touch(&lru_key((2 * m + 1) % 6));
                    if m % 3 == 2 {
                        l.remove(&lru_key((2 * m + 5) % 6));
                    }
                    json!({"ok": a && b, "err": ""})
                }
                "bump" => {
                    l.bump_generation();
                    json!({"ok": true, "err": ""})
                }
                "save" => okerr(&block(l.checkpoint_to_disk())),
                "shutdown" => okerr(&block(l.shutdown())),
                "reopen" => {
                    *l = LruManager::new(case.cap, dir.to_path_buf());
                    okerr(&block(l.run_cycle(0, 1)))
                }
                // periodic maintenance on the live manager (reloads the latest checkpoint)
                "cycle" => okerr(&block(l.run_cycle(0, 1))),
                other => panic!("driver: unknown lru op {other}"),
            },
            World::Index { m, nadd, live, upd3 } => match op {
                "add" => {
                    let n = *nadd;
                    *nadd += 1;
                    let (a, o, s) = idx_loc(n);
                    let r = m.add_entry(&idx_key(n), a, o, s);
                    if r.is_ok() {
                        live.push(n);
                        if n % 2 == 0 {
                            *upd3 += 1;
                        }
                    }
                    okerr(&r)
                }
                "rm" => {
                    if live.is_empty() {
                        return json!({"ok": true, "err": "", "noop": true});
                    }
                    let n = live.remove(0);
                    if n % 2 == 0 {
                        *upd3 += 1;
                    }
                    json!({"ok": m.remove_entry(&idx_key(n)), "err": ""})
                }
                "fill" => {
                    // un-flushed entries of bucket 03 up to the documented capacity of its update section
                    let mut ok = true;
                    let mut i = 0;
                    while *upd3 < UPD_CAP {
                        ok &= m.add_entry(&fill_key(i), 9, 64 * i + 8, 50 + i).is_ok();
                        i += 1;
                        *upd3 += 1;
                    }
                    json!({"ok": ok, "err": "", "added": i})
                }
                "addf" => {
                    // with a full section this add_entry flushes the bucket and saves it (flush_updates_for_bucket)
                    let r = m.add_entry(&fill_key(5000), 9, 4, 77);
                    *upd3 = 1;
                    okerr(&r)
                }
                "flush" => {
                    *upd3 = 0;
                    okerr(&m.flush_all_updates())
                }
                "save" => okerr(&m.save_all()),
                "reopen" => {
                    *m = IndexManager::new(dir);
                    okerr(&block(m.load_all()))
                }
                other => panic!("driver: unknown index op {other}"),
            },
            World::Res { c, nmark, live } => match op {
                "mark" => {
                    let n = *nmark;
                    *nmark += 1;
                    live.push(n);
                    okerr(&c.mark_resident(&res_key(n, case.nb)))
                }
                "unmark" => {
                    if live.is_empty() {
                        return json!({"ok": true, "err": "", "noop": true});
                    }
                    let n = live.remove(0);
                    okerr(&c.mark_non_resident(&res_key(n, case.nb)))
                }
                "save" => okerr(&c.flush()),
                "reopen" => {
                    let (fresh, r) = open_res(dir);
                    *c = fresh;
                    r
                }
                other => panic!("driver: unknown residency op {other}"),
            },
            World::ResDirect { db, nmark, live } => match op {
                "mark" => {
                    let n = *nmark;
                    *nmark += 1;
                    live.push(n);
                    db.mark_resident(&res_key(n, case.nb));
                    json!({"ok": true, "err": ""})
                }
                "unmark" => {
                    if live.is_empty() {
                        return json!({"ok": true, "err": "", "noop": true});
                    }
                    let n = live.remove(0);
                    db.mark_non_resident(&res_key(n, case.nb));
                    json!({"ok": true, "err": ""})
                }
                "save" => okerr(&db.save()),
                "reopen" => {
                    let r = ResidencyDb::load(&dir.join("key_state_v8"));
                    let v = okerr(&r);
                    if let Ok(fresh) = r {
                        *db = fresh;
                    }
                    v
                }
                other => panic!("driver: unknown residency op {other}"),
            },
            World::Disk { c, nput } => match op {
                "puta" | "putb" => {
                    let n = *nput;
                    *nput += 1;
                    let val = disk_val(n);
                    let mut r = okerr(&block(c.put(disk_key(&op[3..]), Bytes::from(val.clone()))));
                    r["k"] = json!(&op[3..]);
                    r["val"] = json!(disk_val_str(&val));
                    r
                }
                "rma" => okerr(&block(c.remove(&disk_key("a")))),
                "reopen" => match open_disk(dir, case.subdirs, case.bg) {
                    Ok(fresh) => {
                        *c = fresh;
                        json!({"ok": true, "err": ""})
                    }
                    Err(e) => json!({"ok": false, "err": e}),
                },
                other => panic!("driver: unknown disk op {other}"),
            },
            World::Journal { b, nrec } => match op {
                "rec" => {
                    let n = *nrec;
                    *nrec += 1;
                    let mut r = okerr(&b.record_segment(journal_seg(n)));
                    r["seg"] = json!(journal_seg(n));
                    r
                }
                "reopen" => {
                    let r = ExtractorCompactorBackup::load(dir);
                    let v = okerr(&r);
                    *b = r.ok().flatten().unwrap_or_else(|| ExtractorCompactorBackup::new(dir));
                    v
                }
                "fresh" => {
                    *b = ExtractorCompactorBackup::new(dir);
                    json!({"ok": true, "err": ""})
                }
                "wsave" => okerr(&b.save()),
                other => panic!("driver: unknown journal op {other}"),
            },
        }
    }

    fn proj(&self, case: &Case) -> Value {
        match self {
            World::Lru { l, .. } => lru_proj(l),
            World::Index { m, .. } => index_proj(m),
            World::Res { c, .. } => res_proj(c, case.nb),
            World::ResDirect { db, .. } => resdb_proj(db, case.nb),
            World::Disk { c, .. } => disk_proj(c).2,
            World::Journal { b, .. } => journal_proj(Some(b)).0,
        }
    }

    /// the state a history starts from.  Stage 1: an empty directory (the LRU table gets one un-saved mutation so
    /// that short histories have something to lose).  Stage 2 (`base`): a post-crash directory of an earlier case
    /// has been materialised into `dir`; the store is reopened on it the way the recovery does, and the key
    /// counters continue behind the base history.
    fn start(case: &Case, dir: &Path) -> World {
        let mut w = World::new(case, dir);
        let base_ops: Vec<String> = case.raw["base"]["def"]["ops"].as_array().map(|a| a.iter().map(|o| o.as_str().unwrap_or("").to_string()).collect()).unwrap_or_default();
        let count = |names: &[&str]| base_ops.iter().filter(|o| names.contains(&o.as_str())).count() as u32;
        if case.raw.get("base").is_some() {
            w.apply(case, dir, "reopen");
            match &mut w {
                World::Lru { nmut, .. } => *nmut = 1 + count(&["mut"]),
                World::Index { nadd, live, .. } => {
                    *nadd = count(&["add"]);
                    *live = (0..*nadd).collect();
                }
                World::Res { nmark, live, .. } | World::ResDirect { nmark, live, .. } => {
                    *nmark = count(&["mark"]);
                    *live = (0..*nmark).collect();
                }
                World::Disk { nput, .. } => *nput = count(&["puta", "putb"]),
                World::Journal { nrec, .. } => *nrec = count(&["rec"]),
            }
        } else if let World::Lru { .. } = &w {
            w.apply(case, dir, "mut");
        }
        w
    }
    fn mem_segs(&self) -> Value {
        match self {
            World::Journal { b, .. } => json!(b.segments()),
            _ => json!([]),
        }
    }
}

// ---------------------------------------------------------------------------
// recovery on a directory: new objects of the real code, nothing else
// ---------------------------------------------------------------------------
/// returns (res, resave): res = {"ok","err","proj",..}; resave = {"ok","err","same"} or {"skipped":true}
fn recover(case: &Case, dir: &Path, with_resave: bool) -> (Value, Value) {
    let skipped = json!({"skipped": true, "ok": true, "err": "", "same": true});
    match case.routine.as_str() {
        "lru" => {
            let mut l = LruManager::new(case.cap, dir.to_path_buf());
            let r = block(l.run_cycle(0, 1));
            let mut res = okerr(&r);
            res["proj"] = lru_proj(&l);
            if let Ok(s) = &r {
                res["active"] = json!(s.active_entries);
            }
            if r.is_err() || !with_resave {
                return (res, skipped);
            }
            l.touch(&lru_key(7));
            l.bump_generation();
            let s = block(l.checkpoint_to_disk());
            let mem = lru_proj(&l);
            let mut l2 = LruManager::new(case.cap, dir.to_path_buf());
            let r2 = block(l2.run_cycle(0, 1));
            let ok = s.is_ok() && r2.is_ok();
            let err = if s.is_err() { okerr(&s)["err"].clone() } else { okerr(&r2)["err"].clone() };
            (res, json!({"ok": ok, "err": err, "same": lru_proj(&l2) == mem}))
        }
        "index" => {
            let mut m = IndexManager::new(dir);
            let r = block(m.load_all());
            let mut res = okerr(&r);
            res["proj"] = index_proj(&m);
            if r.is_err() || !with_resave {
                return (res, skipped);
            }
            let (a, o, s) = idx_loc(RESAVE_N);
            let r1 = m.add_entry(&idx_key(RESAVE_N), a, o, s);
            let r2 = m.save_all();
            let mem = index_proj(&m);
            let mut m2 = IndexManager::new(dir);
            let r3 = block(m2.load_all());
            let ok = r1.is_ok() && r2.is_ok() && r3.is_ok();
            let err = [okerr(&r1), okerr(&r2), okerr(&r3)].iter().map(|v| v["err"].as_str().unwrap_or("").to_string()).collect::<Vec<_>>().join("");
            (res, json!({"ok": ok, "err": err, "same": index_proj(&m2) == mem}))
        }
        "res" => {
            let direct = ResidencyDb::load(&dir.join("key_state_v8"));
            let (c, init) = open_res(dir);
            let ok = direct.is_ok() && init["ok"] == json!(true);
            let err = if let Err(e) = &direct { e.to_string() } else { init["err"].as_str().unwrap_or("").to_string() };
            let mut res = json!({"ok": ok, "err": err, "proj": res_proj(&c, case.nb)});
            if let Ok(db) = &direct {
                res["direct_count"] = json!(db.entry_count());
            }
            if !ok || !with_resave {
                return (res, skipped);
            }
            let r1 = c.mark_resident(&res_key(RESAVE_N, case.nb));
            let r2 = c.flush();
            let mem = res_proj(&c, case.nb);
            let d2 = ResidencyDb::load(&dir.join("key_state_v8"));
            let (c2, init2) = open_res(dir);
            let ok2 = r1.is_ok() && r2.is_ok() && d2.is_ok() && init2["ok"] == json!(true);
            let err2 = [okerr(&r1), okerr(&r2), okerr(&d2), init2.clone()].iter().map(|v| v["err"].as_str().unwrap_or("").to_string()).collect::<Vec<_>>().join("");
            (res, json!({"ok": ok2, "err": err2, "same": res_proj(&c2, case.nb) == mem}))
        }
        "disk" => {
            let c = match open_disk(dir, case.subdirs, false) {
                Ok(c) => c,
                Err(e) => return (json!({"ok": false, "err": e, "proj": {}}), skipped),
            };
            let (ok, err, proj, sizen) = disk_proj(&c);
            let res = json!({"ok": ok, "err": err, "proj": proj, "sizen": sizen});
            if !ok || !with_resave {
                return (res, skipped);
            }
            let val = Bytes::from(disk_val(RESAVE_N));
            let r1 = block(c.put(disk_key("c"), val.clone()));
            let c2 = match open_disk(dir, case.subdirs, false) {
                Ok(c) => c,
                Err(e) => return (res, json!({"ok": false, "err": e, "same": false})),
            };
            let g = block(c2.get(&disk_key("c")));
            let ok2 = r1.is_ok() && g.is_ok();
            let same = matches!(&g, Ok(Some(b)) if *b == val);
            let err2 = format!("{}{}", okerr(&r1)["err"].as_str().unwrap_or(""), okerr(&g)["err"].as_str().unwrap_or(""));
            (res, json!({"ok": ok2, "err": err2, "same": same}))
        }
        "journal" => {
            let r = ExtractorCompactorBackup::load(dir);
            let mut res = okerr(&r);
            let (proj, segs) = journal_proj(r.as_ref().ok().and_then(|o| o.as_ref()));
            res["proj"] = proj;
            res["segs"] = json!(segs);
            res["present"] = json!(matches!(&r, Ok(Some(_))));
            if r.is_err() || !with_resave {
                return (res, skipped);
            }
            let mut b = r.ok().flatten().unwrap_or_else(|| ExtractorCompactorBackup::new(dir));
            let r1 = b.record_segment(journal_seg(RESAVE_N));
            let mem = journal_proj(Some(&b)).0;
            let r2 = ExtractorCompactorBackup::load(dir);
            let ok2 = r1.is_ok() && r2.is_ok();
            let err2 = format!("{}{}", okerr(&r1)["err"].as_str().unwrap_or(""), okerr(&r2)["err"].as_str().unwrap_or(""));
            let same = journal_proj(r2.as_ref().ok().and_then(|o| o.as_ref())).0 == mem;
            (res, json!({"ok": ok2, "err": err2, "same": same}))
        }
        other => panic!("driver: unknown routine {other}"),
    }
}

fn recover_guarded(case: &Case, dir: &Path, with_resave: bool) -> (Value, Value) {
    match guarded(|| recover(case, dir, with_resave)) {
        Ok(x) => x,
        Err(m) => (
            json!({"ok": false, "err": format!("panic: {}", m.chars().take(200).collect::<String>()), "proj": {}, "panic": true}),
            json!({"skipped": true, "ok": true, "err": "", "same": true}),
        ),
    }
}

// ---------------------------------------------------------------------------
// directory helpers
// ---------------------------------------------------------------------------
fn walk(root: &Path, rel: &Path, dirs: &mut Vec<String>, files: &mut Vec<String>) {
    let mut names: Vec<_> = std::fs::read_dir(root.join(rel)).expect("read_dir").flatten().map(|e| e.file_name()).collect();
    names.sort();
    for n in names {
        let r = rel.join(&n);
        let p = root.join(&r);
        if p.is_dir() {
            dirs.push(r.to_string_lossy().to_string());
            walk(root, &r, dirs, files);
        } else {
            files.push(r.to_string_lossy().to_string());
        }
    }
}
fn copy_tree(src: &Path, dst: &Path) {
    std::fs::create_dir_all(dst).expect("mkdir");
    let (mut dirs, mut files) = (vec![], vec![]);
    walk(src, Path::new(""), &mut dirs, &mut files);
    for d in dirs {
        std::fs::create_dir_all(dst.join(d)).expect("mkdir");
    }
    for f in files {
        std::fs::copy(src.join(&f), dst.join(&f)).expect("copy");
        // the modification time is data (DiskCache keeps an entry's expiry there)
        let mt = std::fs::metadata(src.join(&f)).and_then(|m| m.modified()).expect("mtime");
        std::fs::File::options().write(true).open(dst.join(&f)).and_then(|h| h.set_modified(mt)).expect("set mtime");
    }
}

// ---------------------------------------------------------------------------
// history
// ---------------------------------------------------------------------------
fn history(cases_path: &str, ctx: &Path) {
    let cases = read_programs(cases_path);
    let root = scratch_root().join(format!("c06-h{}", std::process::id()));
    let mut n = 0u64;
    for cv in &cases {
        let case = parse_case(cv);
        let sb = root.join(&case.id).join("sb");
        let _ = std::fs::remove_dir_all(&sb);
        std::fs::create_dir_all(&sb).expect("sandbox");
        let cdir = ctx.join(&case.id);
        std::fs::create_dir_all(&cdir).expect("ctx dir");
        if let Some(base) = case.raw.get("base") {
            // stage 2: start from a post-crash directory of an earlier case (leftover temporary files included)
            let bctx = load_ctx(ctx, base["def"]["id"].as_str().expect("base case id"), false);
            materialise(&sb, &base["scn"], &bctx);
        }
        let mut w = World::start(&case, &sb);
        let mut results = vec![];
        let (last, prefix) = case.ops.split_last().expect("a case has at least the save");
        for op in prefix {
            results.push(w.apply(&case, &sb, op));
        }
        let mem_pre = guarded(|| w.proj(&case)).unwrap_or_else(|m| json!({"panic": m}));
        copy_tree(&sb, &cdir.join("pre"));
        // markers: failing unlink calls that show up in the system-call log
        let _ = std::fs::remove_file(sb.join("__C06_BEGIN__"));
        let save = match guarded(|| w.apply(&case, &sb, last)) {
            Ok(v) => v,
            Err(m) => json!({"ok": false, "err": format!("panic: {m}")}),
        };
        let _ = std::fs::remove_file(sb.join("__C06_END__"));
        copy_tree(&sb, &cdir.join("post"));
        let mem = guarded(|| w.proj(&case)).unwrap_or_else(|m| json!({"panic": m}));
        let mem_segs = w.mem_segs();
        drop(w);
        let hist = json!({"case": case.raw, "sandbox": sb.to_string_lossy(), "prefix_results": results, "save": save,
                          "mem_pre": mem_pre, "mem_new": mem, "mem_segs": mem_segs});
        std::fs::write(cdir.join("hist.json"), canon(&hist)).expect("hist.json");
        let _ = std::fs::remove_dir_all(root.join(&case.id));
        n += 1;
    }
    let _ = std::fs::remove_dir_all(&root);
    eprintln!("{}", json!({"cases": n}));
}

// ---------------------------------------------------------------------------
// recover
// ---------------------------------------------------------------------------
struct CaseCtx {
    case: Case,
    pre: HashMap<String, Vec<u8>>,
    pre_mtime: HashMap<String, std::time::SystemTime>,
    writes: HashMap<String, Vec<u8>>,
    utimes: HashMap<String, std::time::SystemTime>,
    header: Value,
}
static CTX: Mutex<Option<(String, std::sync::Arc<CaseCtx>)>> = Mutex::new(None);
static LAST_CASE: Mutex<String> = Mutex::new(String::new());
static SEQ: Mutex<u64> = Mutex::new(0);

fn work_dir(tag: &str) -> PathBuf {
    scratch_root().join(format!("c06-r{}", std::process::id())).join(tag)
}

fn load_ctx(ctx: &Path, id: &str, with_header: bool) -> std::sync::Arc<CaseCtx> {
    let mut g = CTX.lock().unwrap();
    if let Some((cid, c)) = g.as_ref()
        && cid == id
        && (!with_header || !c.header.is_null())
    {
        return c.clone();
    }
    let cdir = ctx.join(id);
    let hist: Value = serde_json::from_slice(&std::fs::read(cdir.join("hist.json")).expect("hist.json")).expect("hist json");
    let case = parse_case(&hist["case"]);
    let mut pre = HashMap::new();
    let (mut dirs, mut files) = (vec![], vec![]);
    walk(&cdir.join("pre"), Path::new(""), &mut dirs, &mut files);
    let mut pre_mtime = HashMap::new();
    for f in files {
        pre.insert(f.clone(), std::fs::read(cdir.join("pre").join(&f)).expect("pre file"));
        pre_mtime.insert(f.clone(), std::fs::metadata(cdir.join("pre").join(&f)).and_then(|m| m.modified()).expect("pre mtime"));
    }
    let mut utimes = HashMap::new();
    let mut writes = HashMap::new();
    if let Ok(b) = std::fs::read(cdir.join("events.json")) {
        let ev: Value = serde_json::from_slice(&b).expect("events.json");
        for (k, v) in ev["writes"].as_object().expect("writes") {
            writes.insert(k.clone(), hex::decode(v.as_str().expect("hex")).expect("hex"));
        }
        if let Some(u) = ev["utimes"].as_object() {
            for (k, v) in u {
                let t = std::time::UNIX_EPOCH + std::time::Duration::new(v[0].as_u64().expect("sec"), v[1].as_u64().expect("nsec") as u32);
                utimes.insert(k.clone(), t);
            }
        }
    }
    if !with_header {
        let c = std::sync::Arc::new(CaseCtx { case, pre, pre_mtime, writes, utimes, header: Value::Null });
        *g = Some((id.to_string(), c.clone()));
        return c;
    }
    // Old / New: the real recovery on the directory before the save and after the completed save
    let d = work_dir("old");
    let _ = std::fs::remove_dir_all(&d);
    copy_tree(&cdir.join("pre"), &d);
    let (old, _) = recover_guarded(&case, &d, false);
    let _ = std::fs::remove_dir_all(&d);
    let d = work_dir("new");
    copy_tree(&cdir.join("post"), &d);
    let (new, _) = recover_guarded(&case, &d, false);
    let _ = std::fs::remove_dir_all(&d);
    // sizes of the files after the completed save (the monitor uses them to tell a complete new file from a torn one)
    let (mut pdirs, mut pfiles) = (vec![], vec![]);
    walk(&cdir.join("post"), Path::new(""), &mut pdirs, &mut pfiles);
    let post: Vec<Value> = pfiles
        .iter()
        .map(|f| json!({"name": f, "len": std::fs::metadata(cdir.join("post").join(f)).map(|m| m.len()).unwrap_or(0)}))
        .collect();
    let header = json!({"op": "new", "case": id, "routine": case.routine, "ops": case.ops, "def": case.raw, "post": post,
                        "old": old, "new": new, "mem_pre": hist["mem_pre"], "mem_new": hist["mem_new"], "mem_segs": hist["mem_segs"],
                        "save": hist["save"], "stage": if hist["case"].get("base").is_some() { 2 } else { 1 },
                        "roundtrip_same": new["proj"] == hist["mem_new"]});
    let c = std::sync::Arc::new(CaseCtx { case, pre, pre_mtime, writes, utimes, header });
    *g = Some((id.to_string(), c.clone()));
    c
}

fn materialise(dst: &Path, scn: &Value, c: &CaseCtx) {
    let _ = std::fs::remove_dir_all(dst);
    std::fs::create_dir_all(dst).expect("mkdir scenario dir");
    for d in scn["dirs"].as_array().expect("dirs") {
        std::fs::create_dir_all(dst.join(d.as_str().expect("dir name"))).expect("mkdir");
    }
    for f in scn["files"].as_array().expect("files") {
        let name = f["name"].as_str().expect("file name");
        let mut buf: Vec<u8> = Vec::new();
        for p in f["parts"].as_array().expect("parts") {
            let src = p["src"].as_str().expect("src");
            let off = p["off"].as_u64().expect("off") as usize;
            let len = p["len"].as_u64().expect("len") as usize;
            if src == "zero" {
                buf.resize(buf.len() + len, 0);
            } else if let Some(n) = src.strip_prefix("pre:") {
                let b = c.pre.get(n).unwrap_or_else(|| panic!("driver: no pre file {n}"));
                buf.extend_from_slice(&b[off..off + len]);
            } else if let Some(i) = src.strip_prefix('w') {
                let b = c.writes.get(i).unwrap_or_else(|| panic!("driver: no write data {i}"));
                buf.extend_from_slice(&b[off..off + len]);
            } else {
                panic!("driver: unknown extent source {src}");
            }
        }
        assert_eq!(buf.len() as u64, f["len"].as_u64().expect("len"), "driver: extent lengths of {name} do not add up");
        let p = dst.join(name);
        if let Some(parent) = p.parent() {
            std::fs::create_dir_all(parent).expect("mkdir parent");
        }
        std::fs::write(&p, &buf).expect("write scenario file");
        // modification time tag: "now" (leave it), "pre:<name>", "t<event>"
        let mt = f["mt"].as_str().unwrap_or("now");
        let t = if let Some(n) = mt.strip_prefix("pre:") {
            Some(*c.pre_mtime.get(n).unwrap_or_else(|| panic!("driver: no pre mtime {n}")))
        } else if let Some(i) = mt.strip_prefix('t') {
            Some(*c.utimes.get(i).unwrap_or_else(|| panic!("driver: no utime event {i}")))
        } else {
            assert_eq!(mt, "now", "driver: unknown mtime tag");
            None
        };
        if let Some(t) = t {
            std::fs::File::options().write(true).open(&p).and_then(|h| h.set_modified(t)).expect("set mtime");
        }
    }
}

fn lru_gen_of(name: &str) -> i64 {
    // independent of the code under test: 16 hex digits + ".lru"
    if name.len() == 20 && name.ends_with(".lru") && !name.contains('/') {
        i64::from_str_radix(&name[..16], 16).unwrap_or(-1)
    } else {
        -1
    }
}

fn run_scenario(ctx: &Path, scn: &Value, out: &Emit) {
    let id = scn["case"].as_str().expect("scenario case").to_string();
    let c = load_ctx(ctx, &id, true);
    {
        let mut last = LAST_CASE.lock().unwrap();
        if *last != id {
            *last = id.clone();
            *SEQ.lock().unwrap() = 0;
            out.ev(c.header.clone());
        }
    }
    out.begin(&json!({"case": id, "pos": scn["pos"]}));
    let d = work_dir("s");
    materialise(&d, scn, &c);
    let (res, resave) = recover_guarded(&c.case, &d, true);
    let _ = std::fs::remove_dir_all(&d);
    let mut disk = vec![];
    for f in scn["files"].as_array().unwrap() {
        let mut m = f.clone();
        m["gen"] = json!(lru_gen_of(f["name"].as_str().unwrap()));
        disk.push(m);
    }
    let seq = {
        let mut s = SEQ.lock().unwrap();
        *s += 1;
        *s
    };
    out.ev(json!({"op": "recover", "seq": seq, "case": id, "pos": scn["pos"], "mode": scn["mode"], "dirs": scn["dirs"], "disk": disk,
                  "res": res, "resave": resave}));
}

fn main() {
    quiet_panics();
    // DiskCache::new_with_background_tasks starts a task that runs the external command `sync` (a global file-system
    // sync) at its first tick.  On a shared machine that can block for seconds and has nothing to do with the
    // property; with an empty PATH the spawn fails and the task ignores it.
    // SAFETY: single-threaded at this point.
    #[allow(unsafe_code)]
    unsafe {
        std::env::set_var("PATH", "/nonexistent");
    }
    check_tables();
    let args: Vec<String> = std::env::args().collect();
    // the sub-command may be given as a word or is implied by --cases / --scenarios
    let mode = if has_flag(&args, "history") || arg(&args, "--cases").is_some() {
        "history"
    } else if has_flag(&args, "recover") || arg(&args, "--scenarios").is_some() {
        "recover"
    } else {
        ""
    };
    match Some(mode) {
        Some("history") => {
            let cases = arg(&args, "--cases").expect("--cases");
            let ctx = PathBuf::from(arg(&args, "--ctx").expect("--ctx"));
            history(&cases, &ctx);
        }
        Some("recover") => {
            let ctx = PathBuf::from(arg(&args, "--ctx").expect("--ctx"));
            let scns = read_programs(&arg(&args, "--scenarios").expect("--scenarios"));
            let mut out = Out::from_arg(arg(&args, "--out").as_ref());
            let st = run_with_watchdog(scns, &mut out, std::time::Duration::from_secs(20), move |s, em| run_scenario(&ctx, s, em));
            out.flush();
            let _ = std::fs::remove_dir_all(scratch_root().join(format!("c06-r{}", std::process::id())));
            eprintln!("{}", json!({"programs": st.programs, "events": out.events, "hangs": st.hangs, "skipped": st.skipped}));
            if st.skipped > 0 {
                std::process::exit(3);
            }
        }
        _ => {
            eprintln!("usage: drv_crash history --cases F --ctx D | recover --ctx D --scenarios F --out F");
            std::process::exit(2);
        }
    }
}
