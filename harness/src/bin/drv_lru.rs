//! C17 driver: executes LRU programs on the real `LruManager`.
//!
//! usage: drv_lru --programs <file|-> --out <file|-> [--random N --len L --maxcap C --nkeys K]
//!
//! Program: {"cap": c, "ops": [{"op":"touch","k":"a"}, ...]}.  Keys are single
//! letters; "z" is the key of nine zero bytes, every other letter x maps to
//! nine bytes of (x - 'a' + 1) (injective for up to 200 keys: names "k<n>").
use cascette_client_storage::lru::LruManager;
use serde_json::{Value, json};
use verif_harness::*;

fn key(k: &str) -> [u8; 9] {
    if k == "z" {
        return [0; 9];
    }
    if let Some(n) = k.strip_prefix('k') {
        let n: u32 = n.parse().expect("key number");
        let mut b = [0xAAu8; 9];
        b[0..4].copy_from_slice(&(n + 1).to_be_bytes());
        return b;
    }
    let b = k.as_bytes()[0] - b'a' + 1;
    [b; 9]
}
fn name(k: &[u8; 9]) -> String {
    if *k == [0; 9] {
        return "z".into();
    }
    if k[8] == 0xAA && k[4] == 0xAA {
        let n = u32::from_be_bytes([k[0], k[1], k[2], k[3]]);
        return format!("k{}", n - 1);
    }
    ((k[0] - 1 + b'a') as char).to_string()
}

fn gens(dir: &std::path::Path) -> Vec<u64> {
    let mut v = vec![];
    if let Ok(rd) = std::fs::read_dir(dir) {
        for e in rd.flatten() {
            let n = e.file_name();
            let n = n.to_string_lossy();
            if let Some(h) = n.strip_suffix(".lru")
                && let Ok(g) = u64::from_str_radix(h, 16)
            {
                v.push(g);
            }
        }
    }
    v.sort_unstable();
    v
}

fn observe(l: &LruManager, universe: &[String], dir: &std::path::Path) -> Value {
    let mut order = vec![];
    let bound = l.capacity() as usize + 8;
    l.for_each_entry(|k| {
        // a cyclic list would never end: that is an outcome (panic -> recorded), not a driver hang
        assert!(order.len() <= bound, "for_each_entry yields more entries than the capacity (cyclic list)");
        order.push(name(k));
    });
    let members: Vec<&String> = universe.iter().filter(|k| l.contains(&key(k))).collect();
    json!({"order": order, "len": l.len(), "members": members,
           "gen": l.generation(), "prev": l.prev_generation(), "gens": gens(dir)})
}

fn universe_of(prog: &Value) -> Vec<String> {
    let mut u: Vec<String> = vec![];
    for op in prog["ops"].as_array().unwrap() {
        if let Some(k) = op.get("k").and_then(|k| k.as_str())
            && !u.iter().any(|x| x == k)
        {
            u.push(k.to_string());
        }
    }
    u.sort();
    u
}

fn run_program(prog: &Value, out: &Emit) {
    let rt = &rt();
    let dir = tempfile::tempdir_in(scratch()).expect("tempdir");
    let mut cap = prog["cap"].as_u64().unwrap() as u32;
    let universe = universe_of(prog);
    let mut lru = LruManager::new(cap, dir.path().to_path_buf());
    out.ev(json!({"op": "new", "cap": cap}));
    let mut seq = 0u64;
    for op in prog["ops"].as_array().unwrap() {
        let name_ = op["op"].as_str().unwrap();
        let mut ev = op.clone();
        out.begin(op);
        let r = guarded(|| -> Value {
            match name_ {
                "touch" => json!(lru.touch(&key(op["k"].as_str().unwrap()))),
                "remove" => json!(lru.remove(&key(op["k"].as_str().unwrap()))),
                "evict_tail" => json!(lru.evict_tail().is_some()),
                "evict_to_target" => {
                    let n = op["n"].as_u64().unwrap();
                    json!(lru.evict_to_target(n, 1).0)
                }
                "reset" => {
                    lru.reset();
                    json!(true)
                }
                "bump" => {
                    lru.bump_generation();
                    json!(true)
                }
                "checkpoint" => json!(rt.block_on(lru.checkpoint_to_disk()).is_ok()),
                "load" => {
                    let g = op["g"].as_u64().unwrap();
                    json!(rt.block_on(lru.load_from_disk(g)).is_ok())
                }
                "run_cycle" => {
                    let limit = op["limit"].as_u64().unwrap();
                    match rt.block_on(lru.run_cycle(limit, 1)) {
                        Ok(s) => json!(s.active_entries),
                        Err(_) => json!("err"),
                    }
                }
                "reopen" => {
                    // a new tracker on the same directory, possibly configured with another capacity
                    if let Some(c) = op.get("cap").and_then(Value::as_u64) {
                        cap = c as u32;
                    }
                    lru = LruManager::new(cap, dir.path().to_path_buf());
                    json!(true)
                }
                other => panic!("driver: unknown op {other}"),
            }
        });
        seq += 1;
        ev["seq"] = json!(seq);
        match r {
            Ok(v) => ev["res"] = v,
            Err(m) => ev["res"] = outcome_panic(&m),
        }
        match guarded(|| observe(&lru, &universe, dir.path())) {
            Ok(o) => ev["obs"] = o,
            Err(m) => {
                // the tracker is unusable; report an impossible projection and end the run
                ev["obs"] = json!({"order": [], "len": 4_000_000, "members": [], "gen": 0, "prev": 0, "gens": [], "panic": m});
                out.ev(ev);
                return;
            }
        }
        out.ev(ev);
    }
}

fn scratch() -> std::path::PathBuf {
    let p = std::path::Path::new("/dev/shm");
    if p.is_dir() { p.to_path_buf() } else { std::env::temp_dir() }
}

fn random_program(rng: &mut Rng, len: usize, maxcap: u64, nkeys: u64) -> Value {
    let cap = 1 + rng.below(maxcap);
    let nk = (cap * 5 / 4 + 2).min(nkeys);
    let mut ops = vec![];
    for _ in 0..len {
        let k = format!("k{}", rng.below(nk));
        let op = match rng.below(100) {
            0..=54 => json!({"op": "touch", "k": k}),
            55..=66 => json!({"op": "remove", "k": k}),
            67..=74 => json!({"op": "evict_tail"}),
            75..=79 => json!({"op": "evict_to_target", "n": rng.below(5)}),
            80..=83 => json!({"op": "bump"}),
            84..=89 => json!({"op": "checkpoint"}),
            90..=92 => json!({"op": "load", "g": 1 + rng.below(4)}),
            93..=95 => json!({"op": "run_cycle", "limit": rng.below(cap + 1)}),
            96 => json!({"op": "reopen"}),
            97 => json!({"op": "reopen", "cap": 1 + rng.below(maxcap)}),
            _ => json!({"op": "reset"}),
        };
        ops.push(op);
    }
    json!({"cap": cap, "ops": ops})
}

fn main() {
    quiet_panics();
    let args: Vec<String> = std::env::args().collect();
    let mut out = Out::from_arg(arg(&args, "--out").as_ref());
    let mut programs = vec![];
    if let Some(p) = arg(&args, "--programs") {
        programs = read_programs(&p);
    }
    let nrand = arg_u64(&args, "--random", 0);
    if nrand > 0 {
        let mut rng = Rng::new(seed_from_env());
        let len = arg_u64(&args, "--len", 200) as usize;
        let maxcap = arg_u64(&args, "--maxcap", 64);
        let nkeys = arg_u64(&args, "--nkeys", 80);
        let mut dump = arg(&args, "--dump-programs").map(|p| Out::to_path(std::path::Path::new(&p)));
        for _ in 0..nrand {
            let prog = random_program(&mut rng, len, maxcap, nkeys);
            if let Some(d) = dump.as_mut() {
                d.ev(&prog);
            }
            programs.push(prog);
        }
    }
    let st = run_with_watchdog(programs, &mut out, std::time::Duration::from_secs(5), run_program);
    out.flush();
    eprintln!("{}", json!({"programs": st.programs, "events": out.events, "hangs": st.hangs, "skipped": st.skipped}));
    if st.skipped > 0 {
        std::process::exit(3);
    }
}
