//! X05 driver: the shared-memory control block and its multi-process protocol, executed by REAL processes.
//!
//! usage: drv_shmem --programs <file|-> --out <file|->          (controller)
//!        drv_shmem --child                                      (worker process, spoken to over stdin/stdout)
//!
//! Program (one JSON object per line, from MC_Shmem or hand-written):
//!   {"fam":"proto"|"rt"|"mgr"|"msg"|"paths", "n":N, "ops":[{"p":1,"op":"open","sz":16384}, ...]}
//! Every element of `ops` is ONE call of the public API of cascette_client_storage::shmem executed by worker
//! process `p` (1..N).  The controller sends one command at a time and waits for the answer, so the processes
//! interleave exactly as the schedule says (API-call granularity - what several processes can do to one region).
//! Operations that touch shared state: open (shm_open/ftruncate/mmap), acquire/release (lock file), load
//! (from_mapped on the mapping), store (to_mapped into the mapping), poke/peek/sum (the mapping itself), crash
//! (SIGKILL), exit (orderly: destructors run), the legacy manager's new/drop/write/read.
//!
//! `acquire` may block: the controller waits until either the answer arrives ("ok") or the worker is seen inside
//! nanosleep - LockFile::acquire's retry loop is the only place a worker sleeps - ("blocked", a certain
//! observation, not a time-out).  A blocked worker answers later: op "granted" waits for that answer.  If a
//! blocked worker is needed for another operation, the controller first removes the lock file like an operator
//! would (event "unstick") and records the late answer (event "granted" with "auto":true).
//!
//! Death of a worker (SIGBUS, abort on a refused allocation, ...) is an outcome: {"r":"died","sig":n}.
//! This program records; spec/trace/T_Shmem.tla judges.
use cascette_client_storage::shmem::control_block::{PidTracking, ShmemControlBlock};
use cascette_client_storage::shmem::{
    FileRequestPayload, FileResponsePayload, IpcMessage, IpcMessagePayload, KeepAlivePayload, LockFile, PlatformShmem,
    SharedMemoryConfig, SharedMemoryManager, StatusRequestPayload, StatusResponsePayload, lock_file_path, shmem_file_path,
};
use serde_json::{Value, json};
use std::alloc::{GlobalAlloc, Layout, System};
use std::collections::HashMap;
use std::io::{BufRead, BufReader, Write};
use std::os::unix::process::ExitStatusExt;
use std::path::{Path, PathBuf};
use std::process::{Child, ChildStdin, Command, Stdio};
use std::sync::atomic::{AtomicU64, Ordering};
use std::sync::mpsc::{Receiver, RecvTimeoutError, TryRecvError, channel};
use std::time::{Duration, Instant};
use verif_harness::*;

// ----------------------------------------------------------------------------- allocator (largest single request)
struct Track;
static BIGGEST: AtomicU64 = AtomicU64::new(0);
const REFUSE_ABOVE: usize = 1 << 30;
fn note(n: usize) {
    BIGGEST.fetch_max(n as u64, Ordering::Relaxed);
}
unsafe impl GlobalAlloc for Track {
    unsafe fn alloc(&self, l: Layout) -> *mut u8 {
        note(l.size());
        if l.size() > REFUSE_ABOVE {
            return std::ptr::null_mut();
        }
        unsafe { System.alloc(l) }
    }
    unsafe fn alloc_zeroed(&self, l: Layout) -> *mut u8 {
        note(l.size());
        if l.size() > REFUSE_ABOVE {
            return std::ptr::null_mut();
        }
        unsafe { System.alloc_zeroed(l) }
    }
    unsafe fn dealloc(&self, p: *mut u8, l: Layout) {
        unsafe { System.dealloc(p, l) }
    }
    unsafe fn realloc(&self, p: *mut u8, l: Layout, n: usize) -> *mut u8 {
        note(n);
        if n > REFUSE_ABOVE {
            return std::ptr::null_mut();
        }
        unsafe { System.realloc(p, l, n) }
    }
}
#[global_allocator]
static ALLOC: Track = Track;

const CLAMP: u64 = 1_000_000_000;
fn cl(x: u64) -> u64 {
    x.min(CLAMP)
}

// ----------------------------------------------------------------------------- worker process
#[derive(Default)]
struct Worker {
    idx: usize,
    pids: Vec<u32>,
    name: String,
    dir: PathBuf,
    shm: Option<PlatformShmem>,
    lock: Option<LockFile>,
    cb: Option<ShmemControlBlock>,
    mgrs: HashMap<u64, SharedMemoryManager>,
}

impl Worker {
    fn tr(&self, pid: u32) -> i64 {
        if pid == 0 {
            return 0;
        }
        match self.pids.iter().position(|&p| p == pid) {
            Some(i) => i as i64 + 1,
            None => {
                if pid < 100 {
                    1000 + i64::from(pid)
                } else {
                    -1
                }
            }
        }
    }
    fn pid_arg(&self, c: &Value) -> u32 {
        // "lit": a literal pid (small numbers, e.g. 0); "as": another worker's real pid; default: my own
        if let Some(l) = c.get("lit").and_then(Value::as_u64) {
            return l as u32;
        }
        if let Some(q) = c.get("as").and_then(Value::as_u64) {
            return self.pids.get(q as usize - 1).copied().unwrap_or(0);
        }
        self.pids.get(self.idx - 1).copied().unwrap_or(std::process::id())
    }
    fn pt_json(&self, pt: Option<&PidTracking>) -> Value {
        match pt {
            None => json!({"hp": false, "st": 0, "wc": 0, "tc": 0, "lms": 0, "gen": 0, "max": 0, "len": 0, "mlen": 0, "occ": [], "occn": 0}),
            Some(pt) => {
                let n = pt.pids.len().max(pt.modes.len());
                let mut occ = vec![];
                let mut occn = 0u64;
                for i in 0..n {
                    let p = pt.pids.get(i).copied().unwrap_or(0);
                    let m = pt.modes.get(i).copied().unwrap_or(0);
                    if p != 0 || m != 0 {
                        occn += 1;
                        if occ.len() < 48 {
                            occ.push(json!([i, self.tr(p), cl(u64::from(m))]));
                        }
                    }
                }
                json!({"hp": true, "st": cl(u64::from(pt.state)), "wc": cl(u64::from(pt.writer_count)), "tc": cl(u64::from(pt.total_count)),
                       "lms": cl(u64::from(pt.last_modified_slot)), "gen": cl(pt.generation), "max": cl(u64::from(pt.max_slots)),
                       "len": pt.pids.len(), "mlen": pt.modes.len(), "occ": occ, "occn": occn})
            }
        }
    }
    fn snap(&self) -> Value {
        match &self.cb {
            None => json!({"r": "none"}),
            Some(cb) => {
                let mut o = json!({"r": "some", "ver": cb.version(), "init": cb.is_initialized(), "ds": cl(u64::from(cb.data_size())),
                                   "ex": cb.is_exclusive(), "fsz": cb.file_size(), "valid": cb.validate()});
                let p = self.pt_json(cb.pid_tracking());
                for (k, v) in p.as_object().expect("object") {
                    o[k] = v.clone();
                }
                o
            }
        }
    }
    fn reset(&mut self) {
        self.mgrs.clear();
        self.cb = None;
        self.lock = None;
        self.shm = None;
    }
}

fn classify(msg: &str) -> String {
    let mut s = String::new();
    let mut in_digits = false;
    for ch in msg.chars() {
        if ch.is_ascii_digit() {
            if !in_digits {
                s.push('N');
            }
            in_digits = true;
        } else {
            in_digits = false;
            s.push(ch);
        }
        if s.len() >= 100 {
            break;
        }
    }
    s
}

fn bind_class(m: &str) -> &'static str {
    if m.contains("protocol version") {
        "version"
    } else if m.contains("free space table") {
        "format"
    } else if m.contains("exclusive access") {
        "exclusive"
    } else if m.contains("initialization") {
        "init"
    } else {
        "other"
    }
}

fn u(c: &Value, k: &str) -> u64 {
    c.get(k).and_then(Value::as_u64).unwrap_or(0)
}

// ---- IPC messages of the legacy manager
fn build_msg(kind: &str, mid: u64, n: usize) -> Result<IpcMessage, String> {
    let fill = |n: usize| -> Vec<u8> { (0..n).map(|i| b'a' + (i % 23) as u8).collect() };
    let payload = match kind {
        "freq" => IpcMessagePayload::FileRequest(FileRequestPayload::by_path(&String::from_utf8(fill(n)).expect("ascii"), 1)),
        "fid" => IpcMessagePayload::FileRequest(FileRequestPayload::by_file_data_id(n as u32, 2)),
        "fresp" => IpcMessagePayload::FileResponse(FileResponsePayload::success(fill(n), [7; 16])),
        "nf" => IpcMessagePayload::FileResponse(FileResponsePayload::not_found()),
        "sreq" => IpcMessagePayload::StatusRequest(StatusRequestPayload::installation(&String::from_utf8(fill(n)).expect("ascii"))),
        "sgen" => IpcMessagePayload::StatusRequest(StatusRequestPayload::general()),
        "sresp" => IpcMessagePayload::StatusResponse(StatusResponsePayload::new(1, 2, 3, 4, 5, 6, String::from_utf8(fill(n)).expect("ascii"))),
        "ka" => IpcMessagePayload::KeepAlive(KeepAlivePayload::new(n as u64, 9)),
        "raw" => IpcMessagePayload::Raw(fill(n)),
        _ => return Err(format!("unknown kind {kind}")),
    };
    IpcMessage::new(mid, payload).map_err(|e| e.to_string())
}

/// What a user can see of a message: kind, id, the header's payload size, and the variable part.
fn msg_digest(m: &IpcMessage) -> Value {
    let (kind, var): (&str, Vec<u8>) = match &m.payload {
        IpcMessagePayload::FileRequest(p) => (if p.request_type == 0 { "freq" } else { "fid" }, p.identifier.clone()),
        IpcMessagePayload::FileResponse(p) => (if p.status == 0 { "fresp" } else { "nf" }, p.data.clone()),
        IpcMessagePayload::StatusRequest(p) => (if p.status_type == 1 { "sreq" } else { "sgen" }, p.installation_name.clone()),
        IpcMessagePayload::StatusResponse(p) => ("sresp", p.status_data.clone()),
        IpcMessagePayload::KeepAlive(p) => ("ka", p.sequence.to_be_bytes().to_vec()),
        IpcMessagePayload::Raw(d) => ("raw", d.clone()),
    };
    json!({"kind": kind, "mid": cl(m.header.message_id), "ps": m.header.payload_size, "n": var.len(), "md5": md5hex(&var)})
}

/// Offset (within the whole message) of the 32-bit big-endian length field that sizes the variable part.
fn len_field_offset(kind: &str) -> Option<usize> {
    match kind {
        "freq" => Some(36 + 4),
        "fresp" => Some(36 + 8),
        "sreq" => Some(36 + 4),
        "sresp" => Some(36 + 28),
        _ => None,
    }
}

fn exec(w: &mut Worker, c: &Value) -> Value {
    let op = c["op"].as_str().unwrap_or("");
    match op {
        "reset" => {
            w.reset();
            w.idx = u(c, "idx") as usize;
            w.pids = c["pids"].as_array().map(|a| a.iter().map(|x| x.as_u64().unwrap_or(0) as u32).collect()).unwrap_or_default();
            w.name = c["name"].as_str().unwrap_or("x").to_string();
            w.dir = PathBuf::from(c["dir"].as_str().unwrap_or("/tmp"));
            json!({"r": "ok", "pid": std::process::id()})
        }
        "open" => {
            let sz = u(c, "sz") as usize;
            match PlatformShmem::open_or_create(&w.name, sz) {
                Ok(s) => {
                    w.shm = Some(s); // the previous mapping (if any) is dropped here
                    json!({"r": "ok"})
                }
                Err(e) => json!({"r": "err", "msg": classify(&e.to_string())}),
            }
        }
        "close" => {
            let had = w.shm.take().is_some();
            json!({"r": if had { "ok" } else { "nomap" }})
        }
        "acquire" => {
            if w.lock.is_some() {
                return json!({"r": "have"});
            }
            match LockFile::acquire(&shmem_file_path(&w.dir)) {
                Ok(l) => {
                    w.lock = Some(l);
                    json!({"r": "ok"})
                }
                Err(e) => json!({"r": "err", "msg": classify(&e.to_string())}),
            }
        }
        "release" => {
            let had = w.lock.take().is_some();
            json!({"r": if had { "ok" } else { "nolock" }})
        }
        "load" => match &w.shm {
            None => json!({"r": "nomap"}),
            Some(s) => {
                w.cb = ShmemControlBlock::from_mapped(s.as_slice());
                w.snap()
            }
        },
        "snap" => w.snap(),
        "create" => {
            let ver = u(c, "ver") as u8;
            let hp = c.get("hp").and_then(Value::as_bool).unwrap_or(false);
            w.cb = if hp { Some(ShmemControlBlock::new_v5_with_pid_tracking(u(c, "slots") as u32)) } else { ShmemControlBlock::new(ver) };
            if let Some(cb) = w.cb.as_mut()
                && u(c, "ds") > 0
            {
                cb.initialize(u(c, "ds") as u32);
            }
            w.snap()
        }
        "bind" => match &w.cb {
            None => json!({"r": "nocb"}),
            Some(cb) => match cb.validate_for_bind() {
                Ok(()) => json!({"r": "ok"}),
                Err(m) => json!({"r": bind_class(m)}),
            },
        },
        "add" => {
            let pid = w.pid_arg(c);
            let mode = u(c, "mode") as u32;
            match w.cb.as_mut() {
                None => json!({"r": "nocb"}),
                Some(cb) => match cb.pid_tracking_mut() {
                    None => json!({"r": "nopt"}),
                    Some(pt) => match pt.add_process(pid, mode) {
                        Some(s) => json!({"r": "slot", "slot": s}),
                        None => json!({"r": "full"}),
                    },
                },
            }
        }
        "remove" => {
            let pid = w.pid_arg(c);
            match w.cb.as_mut() {
                None => json!({"r": "nocb"}),
                Some(cb) => match cb.pid_tracking_mut() {
                    None => json!({"r": "nopt"}),
                    Some(pt) => json!({"r": if pt.remove_process(pid) { "removed" } else { "absent" }}),
                },
            }
        }
        "recount" => match w.cb.as_mut().and_then(ShmemControlBlock::pid_tracking_mut) {
            None => json!({"r": "nopt"}),
            Some(pt) => {
                pt.recount();
                json!({"r": "ok"})
            }
        },
        "excl" => match w.cb.as_mut() {
            None => json!({"r": "nocb"}),
            Some(cb) => {
                cb.set_exclusive(c["on"].as_bool().unwrap_or(false));
                json!({"r": "ok", "ex": cb.is_exclusive()})
            }
        },
        "setds" => match w.cb.as_mut() {
            None => json!({"r": "nocb"}),
            Some(cb) => {
                cb.set_data_size(u(c, "v") as u32);
                json!({"r": "ok"})
            }
        },
        "store" => {
            let (Some(cb), Some(s)) = (w.cb.as_ref(), w.shm.as_mut()) else {
                return json!({"r": if w.cb.is_none() { "nocb" } else { "nomap" }});
            };
            cb.to_mapped(s.as_mut_slice());
            json!({"r": "ok"})
        }
        "poke" => match w.shm.as_mut() {
            None => json!({"r": "nomap"}),
            Some(s) => {
                let off = u(c, "off") as usize;
                let sl = s.as_mut_slice();
                if off >= sl.len() {
                    return json!({"r": "range"});
                }
                // volatile: the byte goes to the shared page now
                unsafe { std::ptr::write_volatile(sl.as_mut_ptr().add(off), u(c, "v") as u8) };
                json!({"r": "ok"})
            }
        },
        "peek" => match w.shm.as_ref() {
            None => json!({"r": "nomap"}),
            Some(s) => {
                let off = u(c, "off") as usize;
                let sl = s.as_slice();
                if off >= sl.len() {
                    return json!({"r": "range"});
                }
                let v = unsafe { std::ptr::read_volatile(sl.as_ptr().add(off)) };
                json!({"r": "ok", "v": v})
            }
        },
        "poke32" => match w.shm.as_mut() {
            None => json!({"r": "nomap"}),
            Some(s) => {
                let off = u(c, "off") as usize;
                let sl = s.as_mut_slice();
                if off + 4 > sl.len() {
                    return json!({"r": "range"});
                }
                sl[off..off + 4].copy_from_slice(&(u(c, "v") as u32).to_le_bytes());
                json!({"r": "ok"})
            }
        },
        "peek32" => match w.shm.as_ref() {
            None => json!({"r": "nomap"}),
            Some(s) => {
                let off = u(c, "off") as usize;
                let sl = s.as_slice();
                if off + 4 > sl.len() {
                    return json!({"r": "range"});
                }
                json!({"r": "ok", "v": cl(u64::from(u32::from_le_bytes([sl[off], sl[off + 1], sl[off + 2], sl[off + 3]])))})
            }
        },
        "sum" => match w.shm.as_ref() {
            None => json!({"r": "nomap"}),
            Some(s) => {
                // what `dump_shmem` or any copy of the region does: read every byte of the mapping
                let mut nz = 0u64;
                for b in s.as_slice() {
                    if std::hint::black_box(*b) != 0 {
                        nz += 1;
                    }
                }
                json!({"r": "ok", "len": s.size(), "nz_gt0": nz > 0})
            }
        },
        "paths" => {
            let d = w.dir.join("paths");
            let _ = std::fs::create_dir_all(&d);
            let shm = shmem_file_path(&d);
            let lk = lock_file_path(&d);
            let acq = LockFile::acquire(&shm).map(|l| l.path().file_name().map(|n| n.to_string_lossy().to_string()).unwrap_or_default());
            json!({"r": "ok", "shm": shm.file_name().map(|n| n.to_string_lossy().to_string()).unwrap_or_default(),
                   "lock": lk.file_name().map(|n| n.to_string_lossy().to_string()).unwrap_or_default(),
                   "acq": acq.unwrap_or_else(|_| "ERR".into())})
        }
        // ---------------- legacy manager
        "mnew" => {
            let cfg = SharedMemoryConfig {
                name: format!("{}_{}", w.name, c["nm"].as_str().unwrap_or("a")),
                size: u(c, "sz") as usize,
                connection_timeout: Duration::from_millis(u(c, "tmo")),
                max_connections: u(c, "maxc") as usize,
                enable_heartbeat: false,
            };
            match SharedMemoryManager::new(cfg) {
                Ok(m) => {
                    w.mgrs.insert(u(c, "id"), m);
                    json!({"r": "ok"})
                }
                Err(e) => json!({"r": "err", "msg": classify(&e.to_string())}),
            }
        }
        "mdrop" => json!({"r": if w.mgrs.remove(&u(c, "id")).is_some() { "ok" } else { "nomgr" }}),
        "mwrite" => {
            let msg = match build_msg(c["kind"].as_str().unwrap_or(""), u(c, "mid"), u(c, "n") as usize) {
                Ok(m) => m,
                Err(e) => return json!({"r": "builderr", "msg": classify(&e)}),
            };
            match w.mgrs.get_mut(&u(c, "id")) {
                None => json!({"r": "nomgr"}),
                Some(m) => match m.write_message(&msg) {
                    Ok(n) => json!({"r": "ok", "len": n}),
                    Err(e) => json!({"r": "err", "msg": classify(&e.to_string())}),
                },
            }
        }
        "mread" => match w.mgrs.get(&u(c, "id")) {
            None => json!({"r": "nomgr"}),
            Some(m) => match m.read_message(u(c, "sz") as usize) {
                Ok(msg) => json!({"r": "ok", "m": msg_digest(&msg)}),
                Err(e) => json!({"r": "err", "msg": classify(&e.to_string())}),
            },
        },
        "reg" => match w.mgrs.get(&u(c, "id")) {
            None => json!({"r": "nomgr"}),
            Some(m) => match m.register_connection() {
                Ok(id) => json!({"r": "ok", "cid": id, "count": m.connection_count()}),
                Err(_) => json!({"r": "err", "count": m.connection_count()}),
            },
        },
        "unreg" => match w.mgrs.get(&u(c, "id")) {
            None => json!({"r": "nomgr"}),
            Some(m) => match m.unregister_connection(u(c, "cid") as u32) {
                Ok(()) => json!({"r": "ok", "count": m.connection_count()}),
                Err(_) => json!({"r": "err", "count": m.connection_count()}),
            },
        },
        "touch" => match w.mgrs.get(&u(c, "id")) {
            None => json!({"r": "nomgr"}),
            Some(m) => match m.update_connection_activity(u(c, "cid") as u32) {
                Ok(()) => json!({"r": "ok", "count": m.connection_count()}),
                Err(_) => json!({"r": "err", "count": m.connection_count()}),
            },
        },
        "cleanup" => match w.mgrs.get(&u(c, "id")) {
            None => json!({"r": "nomgr"}),
            Some(m) => {
                // connections expire when older than the configured time-out: make the age unambiguous first
                if u(c, "sleep_ms") > 0 {
                    std::thread::sleep(Duration::from_millis(u(c, "sleep_ms")));
                }
                let n = m.cleanup_expired_connections();
                json!({"r": "ok", "n": n, "count": m.connection_count()})
            }
        },
        "stats" => match w.mgrs.get(&u(c, "id")) {
            None => json!({"r": "nomgr"}),
            Some(m) => {
                let s = m.connection_stats();
                json!({"r": "ok", "count": m.connection_count(), "total": s.get("total_connections").copied().unwrap_or(CLAMP),
                       "max": s.get("max_connections").copied().unwrap_or(CLAMP), "size": m.size()})
            }
        },
        "nextid" => match w.mgrs.get(&u(c, "id")) {
            None => json!({"r": "nomgr"}),
            Some(m) => json!({"r": "ok", "v": cl(m.next_message_id())}),
        },
        // ---------------- messages
        "msg_rt" => {
            let msg = match build_msg(c["kind"].as_str().unwrap_or(""), u(c, "mid"), u(c, "n") as usize) {
                Ok(m) => m,
                Err(e) => return json!({"r": "builderr", "msg": classify(&e)}),
            };
            let a = msg_digest(&msg);
            let bytes = match msg.to_bytes() {
                Ok(b) => b,
                Err(e) => return json!({"r": "encerr", "a": a, "msg": classify(&e.to_string())}),
            };
            match IpcMessage::from_bytes(&bytes) {
                Ok(d) => json!({"r": "ok", "len": bytes.len(), "a": a, "b": msg_digest(&d)}),
                Err(e) => json!({"r": "decerr", "len": bytes.len(), "a": a, "msg": classify(&e.to_string())}),
            }
        }
        "msg_parse" => {
            // a well-formed message of `kind` whose inner length field is overwritten (`lenv`), optionally cut (`cut`)
            let kind = c["kind"].as_str().unwrap_or("");
            let msg = match build_msg(kind, 5, u(c, "n") as usize) {
                Ok(m) => m,
                Err(e) => return json!({"r": "builderr", "msg": classify(&e)}),
            };
            let mut bytes = match msg.to_bytes() {
                Ok(b) => b,
                Err(e) => return json!({"r": "encerr", "msg": classify(&e.to_string())}),
            };
            if let (Some(off), Some(v)) = (len_field_offset(kind), c.get("lenv").and_then(Value::as_u64)) {
                bytes[off..off + 4].copy_from_slice(&(v as u32).to_be_bytes());
            }
            if let Some(k) = c.get("cut").and_then(Value::as_u64) {
                bytes.truncate(bytes.len().saturating_sub(k as usize));
            }
            BIGGEST.store(0, Ordering::Relaxed);
            let r = IpcMessage::from_bytes(&bytes);
            let big = BIGGEST.load(Ordering::Relaxed);
            json!({"r": if r.is_ok() { "ok" } else { "err" }, "inlen": bytes.len(), "big_kib": big.div_ceil(1024)})
        }
        "sleep" => {
            std::thread::sleep(Duration::from_millis(u(c, "ms")));
            json!({"r": "ok"})
        }
        _ => json!({"r": "unknown-op"}),
    }
}

fn child_main() {
    quiet_panics();
    let stdin = std::io::stdin();
    let stdout = std::io::stdout();
    let mut w = Worker::default();
    for line in stdin.lock().lines() {
        let Ok(line) = line else { break };
        if line.trim().is_empty() {
            continue;
        }
        let cmd: Value = serde_json::from_str(&line).expect("command");
        let reply = if cmd["op"] == "exit" {
            w.reset(); // orderly: destructors of the lock, the mapping and the managers run
            json!({"r": "ok"})
        } else {
            match guarded(|| exec(&mut w, &cmd)) {
                Ok(v) => v,
                Err(m) => json!({"r": "panic", "msg": classify(&m)}),
            }
        };
        let mut o = stdout.lock();
        writeln!(o, "{reply}").expect("reply");
        o.flush().expect("flush");
        if cmd["op"] == "exit" {
            break;
        }
    }
}

// ----------------------------------------------------------------------------- controller
struct Kid {
    child: Child,
    stdin: ChildStdin,
    rx: Receiver<String>,
    pid: u32,
    dead: bool,
    pending: bool,
}

enum Reply {
    Line(Value),
    Died(Value),
    Timeout,
    Blocked,
}

fn spawn_kid() -> Kid {
    let exe = std::env::current_exe().expect("current_exe");
    let mut child = Command::new(exe).arg("--child").stdin(Stdio::piped()).stdout(Stdio::piped()).stderr(if std::env::var_os("VERIF_X05_DEBUG").is_some() { Stdio::inherit() } else { Stdio::null() }).spawn().expect("spawn worker");
    let stdin = child.stdin.take().expect("stdin");
    let stdout = child.stdout.take().expect("stdout");
    let (tx, rx) = channel();
    std::thread::spawn(move || {
        for line in BufReader::new(stdout).lines() {
            let Ok(line) = line else { break };
            if tx.send(line).is_err() {
                break;
            }
        }
    });
    let pid = child.id();
    Kid { child, stdin, rx, pid, dead: false, pending: false }
}

fn in_nanosleep(pid: u32) -> bool {
    // x86_64: nanosleep 35, clock_nanosleep 230; aarch64: 101 / 115
    if let Ok(s) = std::fs::read_to_string(format!("/proc/{pid}/syscall")) {
        let first = s.split_whitespace().next().unwrap_or("");
        #[cfg(target_arch = "x86_64")]
        return first == "35" || first == "230";
        #[cfg(not(target_arch = "x86_64"))]
        return first == "101" || first == "115";
    }
    if let Ok(s) = std::fs::read_to_string(format!("/proc/{pid}/wchan")) {
        return s.contains("nanosleep");
    }
    false
}

impl Kid {
    fn death(&mut self) -> Value {
        self.dead = true;
        self.pending = false;
        match self.child.wait() {
            Ok(st) => match st.signal() {
                Some(s) => json!({"r": "died", "sig": s}),
                None => json!({"r": "died", "code": st.code().unwrap_or(-1)}),
            },
            Err(_) => json!({"r": "died"}),
        }
    }
    fn send(&mut self, cmd: &Value) -> bool {
        writeln!(self.stdin, "{cmd}").is_ok() && self.stdin.flush().is_ok()
    }
    fn wait_reply(&mut self, timeout: Duration, detect_block: bool) -> Reply {
        let t0 = Instant::now();
        loop {
            match self.rx.try_recv() {
                Ok(l) => return Reply::Line(serde_json::from_str(&l).unwrap_or(json!({"r": "garbled"}))),
                Err(TryRecvError::Disconnected) => return Reply::Died(self.death()),
                Err(TryRecvError::Empty) => {}
            }
            if detect_block && in_nanosleep(self.pid) {
                // the worker sleeps only inside LockFile::acquire's retry loop; an answer written before is already in the pipe
                std::thread::sleep(Duration::from_micros(300));
                match self.rx.try_recv() {
                    Ok(l) => return Reply::Line(serde_json::from_str(&l).unwrap_or(json!({"r": "garbled"}))),
                    Err(TryRecvError::Disconnected) => return Reply::Died(self.death()),
                    Err(TryRecvError::Empty) => return Reply::Blocked,
                }
            }
            if t0.elapsed() > timeout {
                return Reply::Timeout;
            }
            if detect_block {
                std::thread::sleep(Duration::from_micros(200));
            } else {
                match self.rx.recv_timeout(Duration::from_millis(20)) {
                    Ok(l) => return Reply::Line(serde_json::from_str(&l).unwrap_or(json!({"r": "garbled"}))),
                    Err(RecvTimeoutError::Disconnected) => return Reply::Died(self.death()),
                    Err(RecvTimeoutError::Timeout) => {}
                }
            }
        }
    }
    fn call(&mut self, cmd: &Value, timeout: Duration) -> Reply {
        if !self.send(cmd) {
            return Reply::Died(self.death());
        }
        self.wait_reply(timeout, cmd["op"] == "acquire")
    }
    fn kill(&mut self) -> Value {
        let _ = self.child.kill();
        self.death()
    }
}

/// SIGSTOP / SIGCONT a worker (scheduling control: while one waiter is meant to get the lock, the others do not run).
fn signal(pid: u32, sig: &str) {
    let _ = Command::new("kill").arg(format!("-{sig}")).arg(pid.to_string()).stdin(Stdio::null()).stdout(Stdio::null()).stderr(Stdio::null()).status();
}

struct Ctl {
    kids: Vec<Kid>,
    counter: u64,
    spawns: u64,
    hangs: u64,
    /// bookkeeping only (how long to wait for a late answer): the worker whose acquire was answered last and
    /// who has not released since
    holder: Option<usize>,
}

const CALL_TIMEOUT: Duration = Duration::from_secs(30);

fn shm_size(name: &str) -> i64 {
    std::fs::metadata(format!("/dev/shm/cascette_{name}")).map(|m| m.len() as i64).unwrap_or(-1)
}
/// What anybody can see of the shared objects of this run: their sizes (-1: no object under that name).
fn observe(name: &str) -> Value {
    // the flags dword at 0x150 of the region, read through the file system like any other process could
    let ea = (|| -> Option<u64> {
        use std::io::{Read, Seek, SeekFrom};
        let mut f = std::fs::File::open(format!("/dev/shm/cascette_{name}")).ok()?;
        f.seek(SeekFrom::Start(0x150)).ok()?;
        let mut b = [0u8; 4];
        f.read_exact(&mut b).ok()?;
        Some(cl(u64::from(u32::from_le_bytes(b))))
    })();
    json!({"fsz": shm_size(name), "ea": ea.map_or(-1, |v| v as i64), "na": shm_size(&format!("{name}_a")), "nb": shm_size(&format!("{name}_b"))})
}

fn remove_locks(dir: &Path) -> u64 {
    let mut n = 0;
    if let Ok(rd) = std::fs::read_dir(dir) {
        for e in rd.flatten() {
            if e.file_name().to_string_lossy().contains("lock") && std::fs::remove_file(e.path()).is_ok() {
                n += 1;
            }
        }
    }
    n
}

impl Ctl {
    fn run_program(&mut self, prog: &Value, out: &mut Out) {
        let n = prog["n"].as_u64().unwrap_or(1) as usize;
        self.counter += 1;
        let name = format!("x05_{}_{}", std::process::id(), self.counter);
        let dir = std::env::temp_dir().join(format!("verif_{name}"));
        let _ = std::fs::remove_dir_all(&dir);
        // left over from a killed earlier run with the same pid and counter
        for suffix in ["", "_a", "_b"] {
            let _ = std::fs::remove_file(format!("/dev/shm/cascette_{name}{suffix}"));
        }
        std::fs::create_dir_all(&dir).expect("scratch dir");
        // workers: reuse the living ones, replace the dead
        while self.kids.len() < n {
            self.kids.push(spawn_kid());
            self.spawns += 1;
        }
        for i in 0..n {
            if self.kids[i].dead || self.kids[i].pending {
                if !self.kids[i].dead {
                    self.kids[i].kill();
                }
                self.kids[i] = spawn_kid();
                self.spawns += 1;
            }
        }
        let pids: Vec<u32> = self.kids[..n].iter().map(|k| k.pid).collect();
        for i in 0..n {
            let r = self.kids[i].call(&json!({"op": "reset", "idx": i + 1, "pids": pids, "name": name, "dir": dir}), CALL_TIMEOUT);
            if !matches!(r, Reply::Line(_)) {
                eprintln!("worker {} did not reset", i + 1);
                std::process::exit(4);
            }
        }
        let mut hdr = json!({"op": "new", "fam": prog["fam"], "n": n});
        if let Some(t) = prog.get("tag") {
            hdr["tag"] = t.clone();
        }
        out.ev(&hdr);
        let mut seq = 0u64;
        let empty = vec![];
        self.holder = None;
        for op in prog["ops"].as_array().unwrap_or(&empty) {
            let p = op["p"].as_u64().unwrap_or(1) as usize;
            let name_op = op["op"].as_str().unwrap_or("");
            if p == 0 || p > n {
                continue;
            }
            // a worker still blocked in acquire is needed for something else: operator removes the lock file
            if self.kids[p - 1].pending && name_op != "granted" && name_op != "crash" {
                let others: Vec<u32> = self.kids.iter().enumerate().filter(|(i, k)| *i != p - 1 && k.pending && !k.dead).map(|(_, k)| k.pid).collect();
                for &q in &others {
                    signal(q, "STOP");
                }
                let removed = remove_locks(&dir);
                seq += 1;
                out.ev(&json!({"p": 0, "op": "unstick", "i": seq, "res": {"r": "ok", "removed": removed}, "obs": observe(&name)}));
                self.holder = None;
                let res = self.late_answer(p);
                for &q in &others {
                    signal(q, "CONT");
                }
                if res["r"] == "ok" {
                    self.holder = Some(p);
                }
                seq += 1;
                out.ev(&json!({"p": p, "op": "granted", "auto": true, "i": seq, "res": res, "obs": observe(&name)}));
            }
            let res = self.step(p, name_op, op, &dir);
            match (name_op, res["r"].as_str().unwrap_or("")) {
                ("acquire" | "granted", "ok") => self.holder = Some(p),
                ("release" | "exit", "ok") if self.holder == Some(p) => self.holder = None,
                ("unstick", _) => self.holder = None,
                _ => {}
            }
            seq += 1;
            let mut ev = op.clone();
            ev["i"] = json!(seq);
            ev["res"] = res;
            ev["obs"] = observe(&name);
            out.ev(&ev);
        }
        // tidy up: blocked workers are killed, objects and files removed
        for i in 0..n {
            if self.kids[i].pending && !self.kids[i].dead {
                self.kids[i].kill();
            }
        }
        if let Ok(rd) = std::fs::read_dir("/dev/shm") {
            let pre = format!("cascette_{name}");
            for e in rd.flatten() {
                if e.file_name().to_string_lossy().starts_with(&pre) {
                    let _ = std::fs::remove_file(e.path());
                }
            }
        }
        let _ = std::fs::remove_dir_all(&dir);
    }

    fn late_answer(&mut self, p: usize) -> Value {
        let holder_dead = self.holder.is_some_and(|h| self.kids[h - 1].dead);
        if !self.kids[p - 1].pending {
            return json!({"r": "notpending"});
        }
        // the schedule says WHICH waiter proceeds: the other blocked workers are not scheduled meanwhile
        let others: Vec<u32> = self.kids.iter().enumerate().filter(|(i, k)| *i != p - 1 && k.pending && !k.dead).map(|(_, k)| k.pid).collect();
        for &q in &others {
            signal(q, "STOP");
        }
        let r = self.late_answer_of(p, holder_dead);
        for &q in &others {
            signal(q, "CONT");
        }
        r
    }

    fn late_answer_of(&mut self, p: usize, holder_dead: bool) -> Value {
        let k = &mut self.kids[p - 1];
        // a waiter polls every 50 ms: when the holder is known to be dead, 2 s (40 periods) of silence is recorded as
        // "timeout"; otherwise (the holder released) the answer must come, the bound is a hang detector
        let wait = if holder_dead { Duration::from_secs(2) } else { Duration::from_secs(20) };
        match k.wait_reply(wait, false) {
            Reply::Line(v) => {
                k.pending = false;
                v
            }
            Reply::Died(v) => v,
            Reply::Timeout | Reply::Blocked => json!({"r": "timeout"}),
        }
    }

    fn step(&mut self, p: usize, name_op: &str, op: &Value, dir: &Path) -> Value {
        if name_op == "unstick" {
            return json!({"r": "ok", "removed": remove_locks(dir)});
        }
        let k = &mut self.kids[p - 1];
        if k.dead {
            return json!({"r": "dead"});
        }
        match name_op {
            "crash" => {
                k.kill();
                json!({"r": "ok"})
            }
            "granted" => self.late_answer(p),
            "exit" => {
                let r = k.call(op, CALL_TIMEOUT);
                let _ = k.child.wait();
                k.dead = true;
                match r {
                    Reply::Line(v) => v,
                    Reply::Died(v) => v,
                    _ => json!({"r": "hang"}),
                }
            }
            _ => match k.call(op, CALL_TIMEOUT) {
                Reply::Line(v) => v,
                Reply::Died(v) => v,
                Reply::Blocked => {
                    k.pending = true;
                    json!({"r": "blocked"})
                }
                Reply::Timeout => {
                    self.hangs += 1;
                    k.kill();
                    json!({"r": "hang"})
                }
            },
        }
    }
}

fn main() {
    let args: Vec<String> = std::env::args().collect();
    if has_flag(&args, "--child") {
        child_main();
        return;
    }
    quiet_panics();
    let mut out = Out::from_arg(arg(&args, "--out").as_ref());
    let programs = arg(&args, "--programs").map(|p| read_programs(&p)).unwrap_or_default();
    let mut ctl = Ctl { kids: vec![], counter: 0, spawns: 0, hangs: 0, holder: None };
    let mut n = 0u64;
    let mut per_fam: std::collections::BTreeMap<String, u64> = Default::default();
    for prog in &programs {
        let t0 = Instant::now();
        ctl.run_program(prog, &mut out);
        *per_fam.entry(format!("ms_{}", prog["fam"].as_str().unwrap_or("x"))).or_default() += t0.elapsed().as_micros() as u64;
        n += 1;
    }
    for k in &mut ctl.kids {
        if !k.dead {
            k.kill();
        }
    }
    out.flush();
    let mut summary = json!({"programs": n, "events": out.events, "hangs": ctl.hangs, "spawns": ctl.spawns});
    for (k, v) in per_fam {
        summary[k] = json!(v / 1000);
    }
    eprintln!("{summary}");
}
