//! C10 driver: executes cache programs on the real `MemoryCache<RibbitKey>` /
//! `DiskCache<RibbitKey>` and records what the public API answered.
//!
//! usage: drv_cache --programs <file|-> --out <file|->
//!                  [--random N --len L --kinds mem,disk --dump-programs <file> [--gen-only]]
//!
//! Program (one JSON object per line):
//!   {"cfg": {"kind":"mem"|"disk", "policy":"lru"|"lfu"|"fifo"|"random"|"ttl",
//!            "maxe": N, "maxb": M (0 = no byte limit), "dttl":"none"|"long"|"short"|"zero"|"ns"|"max",
//!            "subdirs": bool, "bg": bool},
//!    "keys": ["a","b",..],                 (universe probed by "probe"; default: keys of the ops)
//!    "ops": [{"op":"put","k":"a","n":3}, {"op":"put_ttl","k":"a","n":1,"ttl":"short"|"long"|"zero"|"ns"|"max"},
//!            {"op":"get","k":"a"}, {"op":"contains","k":"a"}, {"op":"remove","k":"a"},
//!            {"op":"clear"}, {"op":"tick"}, {"op":"restart"}, {"op":"probe"}]}
//!
//! Events: {"op":"new","cfg":..,"keys":..,"res":{"ok":true}} starts a run; then one event
//! per operation: the operation's fields + "seq", "res", for puts "v" (value id) and
//! "vh" (md5 of the bytes handed to the cache), and the cache's own books read after
//! the call: "cnt" = size(), "st" = {"n": stats.entry_count, "mem": stats.memory_usage_bytes,
//! "gets","hits","miss"}.  Results are records: get -> {"hit":false} | {"hit":true,"n":len,"h":md5};
//! put/clear/tick/restart -> {"ok":true}; contains/remove -> {"b":bool}; probe -> {"vals":{key: get result}};
//! any error -> {"err":text}; a panic -> {"outcome":"panic",..}.
//!
//! Time: "short" TTL = 2 ms, "tick" sleeps 10 ms (5 x TTL), "long" = 1 h; boundary values
//! "zero" = Duration::ZERO, "ns" = 1 ns, "max" = Duration::MAX.  Nothing here judges
//! anything: T_Cache (TLC) does.
use bytes::Bytes;
use cascette_cache::config::{DiskCacheConfig, MemoryCacheConfig};
use cascette_cache::key::RibbitKey;
use cascette_cache::traits::{AsyncCache, EvictionPolicy};
use cascette_cache::{DiskCache, MemoryCache};
use serde_json::{Map, Value, json};
use std::time::Duration;
use verif_harness::*;

const SHORT_TTL: Duration = Duration::from_millis(2);
const LONG_TTL: Duration = Duration::from_secs(3600);
const TICK: Duration = Duration::from_millis(10);

fn key(name: &str) -> RibbitKey {
    RibbitKey::new(name, "us")
}

/// Bytes of value `v` with length `n`: pseudo-random from (v, n), so that two puts of one
/// program never hand the same non-empty bytes to the cache (up to the 256^n possibilities).
fn value_bytes(v: u64, n: usize) -> Vec<u8> {
    Rng::new(v.wrapping_mul(0x1_0000_01B3) ^ 0xC10).bytes(n)
}

fn policy(p: &str) -> EvictionPolicy {
    match p {
        "lru" => EvictionPolicy::Lru,
        "lfu" => EvictionPolicy::Lfu,
        "fifo" => EvictionPolicy::Fifo,
        "random" => EvictionPolicy::Random,
        "ttl" => EvictionPolicy::Ttl,
        other => panic!("driver: unknown policy {other}"),
    }
}

fn ttl_of(class: &str) -> Duration {
    match class {
        "short" => SHORT_TTL,
        "long" => LONG_TTL,
        // the boundary values of the TTL domain
        "zero" => Duration::ZERO,
        "ns" => Duration::from_nanos(1),
        "max" => Duration::MAX,
        other => panic!("driver: unknown ttl class {other}"),
    }
}

fn default_ttl(cfg: &Value) -> Option<Duration> {
    match cfg["dttl"].as_str().unwrap_or("none") {
        "none" => None,
        c => Some(ttl_of(c)),
    }
}

type Cache = Box<dyn AsyncCache<RibbitKey>>;

fn build(cfg: &Value, dir: &std::path::Path, rt: &tokio::runtime::Runtime) -> Result<Cache, String> {
    let maxe = cfg["maxe"].as_u64().unwrap_or(10_000) as usize;
    let maxb = cfg["maxb"].as_u64().unwrap_or(0) as usize;
    let pol = policy(cfg["policy"].as_str().unwrap_or("lru"));
    let bg = cfg["bg"].as_bool().unwrap_or(false);
    match cfg["kind"].as_str().unwrap_or("mem") {
        "mem" => {
            let c = MemoryCacheConfig {
                max_entries: maxe,
                max_memory_bytes: if maxb > 0 { Some(maxb) } else { None },
                default_ttl: default_ttl(cfg),
                eviction_policy: pol,
                ..MemoryCacheConfig::default()
            };
            let r = if bg {
                let _g = rt.enter();
                MemoryCache::<RibbitKey>::new_with_cleanup(MemoryCacheConfig { cleanup_interval: Duration::from_millis(3), ..c })
            } else {
                MemoryCache::<RibbitKey>::new(c)
            };
            r.map(|c| Box::new(c) as Cache).map_err(|e| e.to_string())
        }
        "disk" => {
            let mut c = DiskCacheConfig::new(dir);
            c.max_files = maxe;
            c.max_disk_bytes = if maxb > 0 { Some(maxb) } else { None };
            c.default_ttl = default_ttl(cfg);
            c.eviction_policy = pol;
            c.use_subdirectories = cfg["subdirs"].as_bool().unwrap_or(true);
            let r = if bg {
                let _g = rt.enter();
                c.cleanup_interval = Duration::from_millis(3);
                c.sync_interval = Duration::from_secs(24 * 3600);
                DiskCache::<RibbitKey>::new_with_background_tasks(c)
            } else {
                DiskCache::<RibbitKey>::new(c)
            };
            r.map(|c| Box::new(c) as Cache).map_err(|e| e.to_string())
        }
        other => panic!("driver: unknown cache kind {other}"),
    }
}

fn get_res(r: Result<Option<Bytes>, cascette_cache::CacheError>) -> Value {
    match r {
        Ok(None) => json!({"hit": false}),
        Ok(Some(b)) => json!({"hit": true, "n": b.len(), "h": md5hex(&b)}),
        Err(e) => json!({"err": e.to_string()}),
    }
}

fn universe_of(prog: &Value) -> Vec<String> {
    let mut u: Vec<String> = vec![];
    if let Some(ks) = prog.get("keys").and_then(|k| k.as_array()) {
        for k in ks {
            u.push(k.as_str().expect("key name").to_string());
        }
    }
    for op in prog["ops"].as_array().unwrap() {
        if let Some(k) = op.get("k").and_then(|k| k.as_str())
            && !u.iter().any(|x| x == k)
        {
            u.push(k.to_string());
        }
    }
    u.sort();
    u.dedup();
    u
}

fn run_program(prog: &Value, out: &Emit) {
    let rt = rt();
    let dir = tempfile::tempdir_in(scratch()).expect("tempdir");
    // the configuration with every field present (the monitor reads them all)
    let pc = &prog["cfg"];
    let cfg = &json!({
        "kind": pc["kind"].as_str().unwrap_or("mem"),
        "policy": pc["policy"].as_str().unwrap_or("lru"),
        "maxe": pc["maxe"].as_u64().unwrap_or(10_000),
        "maxb": pc["maxb"].as_u64().unwrap_or(0),
        "dttl": pc["dttl"].as_str().unwrap_or("none"),
        "subdirs": pc["subdirs"].as_bool().unwrap_or(true),
        "bg": pc["bg"].as_bool().unwrap_or(false),
    });
    let universe = universe_of(prog);
    let mut cache = match guarded(|| build(cfg, dir.path(), &rt)) {
        Ok(Ok(c)) => {
            out.ev(json!({"op": "new", "cfg": cfg, "keys": universe, "res": {"ok": true}}));
            c
        }
        Ok(Err(e)) => {
            out.ev(json!({"op": "new", "cfg": cfg, "keys": universe, "res": {"err": e}}));
            return;
        }
        Err(m) => {
            out.ev(json!({"op": "new", "cfg": cfg, "keys": universe, "res": outcome_panic(&m)}));
            return;
        }
    };
    let bg = cfg["bg"].as_bool().unwrap_or(false);
    let mut seq = 0u64;
    for op in prog["ops"].as_array().unwrap() {
        let name_ = op["op"].as_str().unwrap();
        let mut ev = op.clone();
        seq += 1;
        ev["seq"] = json!(seq);
        let k = op.get("k").and_then(|k| k.as_str()).map(key);
        let mut val: Option<Bytes> = None;
        if name_ == "put" || name_ == "put_ttl" {
            let n = op["n"].as_u64().unwrap() as usize;
            let v = op.get("v").and_then(|v| v.as_u64()).unwrap_or(seq);
            let b = value_bytes(v, n);
            ev["v"] = json!(v);
            ev["vh"] = json!(md5hex(&b));
            val = Some(Bytes::from(b));
        }
        out.begin(op);
        let r = guarded(|| -> Value {
            match name_ {
                "put" => match rt.block_on(cache.put(k.clone().unwrap(), val.clone().unwrap())) {
                    Ok(()) => json!({"ok": true}),
                    Err(e) => json!({"err": e.to_string()}),
                },
                "put_ttl" => {
                    let ttl = ttl_of(op["ttl"].as_str().unwrap());
                    match rt.block_on(cache.put_with_ttl(k.clone().unwrap(), val.clone().unwrap(), ttl)) {
                        Ok(()) => json!({"ok": true}),
                        Err(e) => json!({"err": e.to_string()}),
                    }
                }
                "get" => get_res(rt.block_on(cache.get(k.as_ref().unwrap()))),
                "contains" => match rt.block_on(cache.contains(k.as_ref().unwrap())) {
                    Ok(b) => json!({"b": b}),
                    Err(e) => json!({"err": e.to_string()}),
                },
                "remove" => match rt.block_on(cache.remove(k.as_ref().unwrap())) {
                    Ok(b) => json!({"b": b}),
                    Err(e) => json!({"err": e.to_string()}),
                },
                "clear" => match rt.block_on(cache.clear()) {
                    Ok(()) => json!({"ok": true}),
                    Err(e) => json!({"err": e.to_string()}),
                },
                "tick" => {
                    if bg {
                        // let the cache's background tasks run while the time passes
                        rt.block_on(async { tokio::time::sleep(TICK).await });
                    } else {
                        std::thread::sleep(TICK);
                    }
                    json!({"ok": true})
                }
                "restart" => {
                    // drop the instance, build a new one on the same directory
                    cache = Box::new(Dummy);
                    match build(cfg, dir.path(), &rt) {
                        Ok(c) => {
                            cache = c;
                            json!({"ok": true})
                        }
                        Err(e) => json!({"err": e}),
                    }
                }
                "probe" => {
                    let mut m = Map::new();
                    for name in &universe {
                        m.insert(name.clone(), get_res(rt.block_on(cache.get(&key(name)))));
                    }
                    json!({"vals": Value::Object(m)})
                }
                other => panic!("driver: unknown op {other}"),
            }
        });
        ev["res"] = match r {
            Ok(v) => v,
            Err(m) => outcome_panic(&m),
        };
        // the cache's own books, read back after the call
        let books = guarded(|| (rt.block_on(cache.size()), rt.block_on(cache.stats())));
        match books {
            Ok((Ok(cnt), Ok(st))) => {
                ev["cnt"] = json!(cnt);
                ev["st"] = json!({"n": st.entry_count, "mem": st.memory_usage_bytes,
                                  "gets": st.get_count, "hits": st.hit_count, "miss": st.miss_count});
            }
            Ok((a, b)) => {
                ev["obs_err"] = json!(format!("size: {:?} stats: {}", a.map_err(|e| e.to_string()), b.is_ok()));
            }
            Err(m) => {
                ev["obs_err"] = json!(format!("panic: {m}"));
            }
        }
        out.ev(ev);
    }
}

/// Placeholder while a disk cache is being re-created ("restart"): the old instance must be
/// gone before the new one is built.
struct Dummy;
#[async_trait::async_trait]
impl AsyncCache<RibbitKey> for Dummy {
    async fn get(&self, _: &RibbitKey) -> cascette_cache::CacheResult<Option<Bytes>> {
        Ok(None)
    }
    async fn put(&self, _: RibbitKey, _: Bytes) -> cascette_cache::CacheResult<()> {
        Ok(())
    }
    async fn put_with_ttl(&self, _: RibbitKey, _: Bytes, _: Duration) -> cascette_cache::CacheResult<()> {
        Ok(())
    }
    async fn contains(&self, _: &RibbitKey) -> cascette_cache::CacheResult<bool> {
        Ok(false)
    }
    async fn remove(&self, _: &RibbitKey) -> cascette_cache::CacheResult<bool> {
        Ok(false)
    }
    async fn clear(&self) -> cascette_cache::CacheResult<()> {
        Ok(())
    }
    async fn stats(&self) -> cascette_cache::CacheResult<cascette_cache::CacheStats> {
        Ok(cascette_cache::CacheStats::new())
    }
    async fn size(&self) -> cascette_cache::CacheResult<usize> {
        Ok(usize::MAX)
    }
}

fn scratch() -> std::path::PathBuf {
    let p = std::path::Path::new("/dev/shm");
    if p.is_dir() { p.to_path_buf() } else { std::env::temp_dir() }
}

/// Seeded long histories: key population ~3x the capacity, value sizes from 0 to above the
/// byte budget, byte budgets from 1 byte up, all policies, probes every ~20 operations.
fn random_program(rng: &mut Rng, len: usize, kind: &str) -> Value {
    let pol = *rng.pick(&["lru", "lfu", "fifo", "random", "ttl"]);
    let (maxe, maxb, nkeys, maxsize);
    if kind == "mem" {
        maxe = match rng.below(4) {
            0 => 1 + rng.below(3),
            1 => 4 + rng.below(8),
            2 => 10 + rng.below(12),
            _ => 1 + rng.below(40),
        };
        maxb = match rng.below(5) {
            0 => 0,
            1 => 1 + rng.below(4),
            2 => 1 + rng.below(24),
            3 => 20 + rng.below(100),
            _ => 1 + rng.below(400),
        };
        nkeys = (maxe * 3).clamp(3, 60);
        maxsize = if maxb > 0 { (maxb * 3 / 2 + 2).min(64) } else { 24 };
    } else {
        maxe = 100_000;
        maxb = 0;
        nkeys = 3 + rng.below(10);
        maxsize = 24;
    }
    let dttl = match rng.below(20) {
        0 | 1 => "short",
        2..=6 => "long",
        7 => "zero",
        8 => "max",
        _ => "none",
    };
    let mut ops = vec![];
    let mut since_probe = 0;
    while ops.len() < len {
        let k = format!("k{}", rng.below(nkeys));
        let n = match rng.below(8) {
            0 => 0,
            1 => maxsize,
            _ => rng.below(maxsize + 1),
        };
        let r = rng.below(100);
        let op = match r {
            0..=39 => json!({"op": "put", "k": k, "n": n}),
            40..=45 => json!({"op": "put_ttl", "k": k, "n": n, "ttl": "short"}),
            46..=47 => json!({"op": "put_ttl", "k": k, "n": n, "ttl": "long"}),
            48 => json!({"op": "put_ttl", "k": k, "n": n, "ttl": "zero"}),
            49 => json!({"op": "put_ttl", "k": k, "n": n, "ttl": "ns"}),
            50 => json!({"op": "put_ttl", "k": k, "n": n, "ttl": "max"}),
            51..=70 => json!({"op": "get", "k": k}),
            71..=78 => json!({"op": "contains", "k": k}),
            79..=90 => json!({"op": "remove", "k": k}),
            91 => json!({"op": "clear"}),
            92..=94 => json!({"op": "tick"}),
            95..=97 if kind == "disk" => json!({"op": "restart"}),
            _ => json!({"op": "probe"}),
        };
        since_probe = if op["op"] == "probe" { 0 } else { since_probe + 1 };
        ops.push(op);
        if since_probe >= 20 {
            ops.push(json!({"op": "probe"}));
            since_probe = 0;
        }
    }
    ops.push(json!({"op": "tick"}));
    ops.push(json!({"op": "probe"}));
    let keys: Vec<String> = (0..nkeys).map(|i| format!("k{i}")).collect();
    json!({"cfg": {"kind": kind, "policy": pol, "maxe": maxe, "maxb": maxb, "dttl": dttl,
                   "subdirs": rng.chance(1, 2), "bg": false},
           "keys": keys, "ops": ops})
}

fn main() {
    quiet_panics();
    // DiskCache::new_with_background_tasks starts a task that runs the external command `sync` (a global
    // file-system sync) as soon as it is first polled.  On a shared machine that can block for seconds and
    // has nothing to do with the property; with an empty PATH the spawn fails and the task ignores it.
    // SAFETY: single-threaded at this point.
    #[allow(unsafe_code)]
    unsafe {
        std::env::set_var("PATH", "/nonexistent");
    }
    let args: Vec<String> = std::env::args().collect();
    let mut out = Out::from_arg(arg(&args, "--out").as_ref());
    let mut programs = vec![];
    if let Some(p) = arg(&args, "--programs") {
        programs = read_programs(&p);
    }
    let nrand = arg_u64(&args, "--random", 0);
    if nrand > 0 {
        let mut rng = Rng::new(seed_from_env());
        let len = arg_u64(&args, "--len", 300) as usize;
        let kinds = arg(&args, "--kinds").unwrap_or_else(|| "mem,disk".to_string());
        let kinds: Vec<&str> = kinds.split(',').collect();
        let mut dump = arg(&args, "--dump-programs").map(|p| Out::to_path(std::path::Path::new(&p)));
        for i in 0..nrand {
            let prog = random_program(&mut rng, len, kinds[i as usize % kinds.len()]);
            if let Some(d) = dump.as_mut() {
                d.ev(&prog);
            }
            programs.push(prog);
        }
        if has_flag(&args, "--gen-only") {
            // only write the seeded programs (they are then executed in parallel shards like TLC's)
            eprintln!("{}", json!({"programs": programs.len(), "events": 0, "hangs": 0, "skipped": 0}));
            return;
        }
    }
    let st = run_with_watchdog(programs, &mut out, Duration::from_secs(10), run_program);
    out.flush();
    eprintln!("{}", json!({"programs": st.programs, "events": out.events, "hangs": st.hangs, "skipped": st.skipped}));
    if st.skipped > 0 {
        std::process::exit(3);
    }
}
