//! X03 driver: executes container programs on the real cascette-client-storage containers and
//! records what came back.  Four components (one per run, field "comp" of the program):
//!
//!  "dyn"    DynamicContainer built with `.lru(..)` and `.residency(..)` (both optional): the
//!           composition.  Ops: write / read [off,len] / remove / reserve / rmspan / flush / flushb /
//!           reopen{mode} / trunc{p} (close, cut data.000 one byte short of p's entry, reopen) /
//!           mark, unmark (the user's own calls on the shared ResidencyContainer) / levict, ltouch
//!           (the user's own calls on the shared LruManager).
//!  "res"    ResidencyContainer, through its own API and through the Container trait, in every
//!           access mode.
//!  "static" StaticContainer on a directory prepared (and changed) through a DynamicContainer.
//!  "hl"     HardLinkContainer: create_link / remove_file / Container::remove / delete_keys /
//!           clean / compact / query, with destinations inside and outside its base, external
//!           changes of the file system (to expose what the FD cache holds) and floods of filler
//!           keys (to reach the cache's capacity).
//!
//! usage: drv_containers --programs <file|-> --out <file|-> [--timeout SECS]
//!        drv_containers --random N [--len L] --out <file> [--dump-programs <file> [--dump-only]]
//!
//! The driver records (operation, arguments, result, state read back through the public API and
//! from the file system); it never judges.  Verdicts: spec/trace/T_Containers.tla.
use cascette_client_storage::StorageError;
use cascette_client_storage::container::dynamic::DynamicContainerBuilder;
use cascette_client_storage::container::hardlink::format_content_key_path;
use cascette_client_storage::container::{AccessMode, Container, DynamicContainer, HardLinkContainer, ResidencyContainer, StaticContainer};
use cascette_client_storage::index::IndexManager;
use cascette_client_storage::kmt::key_state::{RESIDENCY_BUCKET_COUNT, RESIDENCY_PAGE_SIZE, ResidencyPage};
use cascette_client_storage::lru::LruManager;
use cascette_crypto::EncodingKey;
use cascette_formats::CascFormat;
use cascette_formats::blte::{BlteFile, CompressionMode};
use serde_json::{Map, Value, json};
use std::path::{Path, PathBuf};
use std::sync::Arc;
use verif_harness::*;

// ---------------------------------------------------------------------------------- helpers
fn kind(e: &StorageError) -> String {
    let d = format!("{e:?}");
    let k: String = d.chars().take_while(|c| c.is_ascii_alphanumeric()).collect();
    format!("err:{k}")
}
fn unit(r: Result<(), StorageError>) -> String {
    match r {
        Ok(()) => "ok".into(),
        Err(e) => kind(&e),
    }
}
fn tf(b: bool) -> String {
    if b { "true".into() } else { "false".into() }
}
fn mode_of(s: &str) -> AccessMode {
    match s {
        "rw" => AccessMode::ReadWrite,
        "ro" => AccessMode::ReadOnly,
        "none" => AccessMode::None,
        "excl" => AccessMode::Exclusive,
        other => panic!("driver: unknown access mode {other}"),
    }
}
fn scratch() -> PathBuf {
    let p = Path::new("/dev/shm");
    if p.is_dir() { p.to_path_buf() } else { std::env::temp_dir() }
}
fn s<'a>(v: &'a Value, f: &str) -> &'a str {
    v.get(f).and_then(Value::as_str).unwrap_or_else(|| panic!("driver: field {f} missing in {v}"))
}
fn s_or<'a>(v: &'a Value, f: &str, d: &'a str) -> &'a str {
    v.get(f).and_then(Value::as_str).unwrap_or(d)
}

/// digest of a directory tree: relative path, length and md5 of every file, names of directories
fn fs_digest(root: &Path) -> String {
    fn walk(dir: &Path, root: &Path, acc: &mut Vec<String>) {
        let Ok(rd) = std::fs::read_dir(dir) else { return };
        let mut es: Vec<_> = rd.flatten().collect();
        es.sort_by_key(std::fs::DirEntry::file_name);
        for e in es {
            let p = e.path();
            let rel = p.strip_prefix(root).unwrap_or(&p).to_string_lossy().to_string();
            let Ok(md) = std::fs::symlink_metadata(&p) else { continue };
            if md.is_dir() {
                acc.push(format!("{rel}/"));
                walk(&p, root, acc);
            } else {
                let c = std::fs::read(&p).unwrap_or_default();
                acc.push(format!("{rel}:{}:{}", c.len(), md5hex(&c)));
            }
        }
    }
    let mut acc = vec![];
    if !root.exists() {
        return "absent".into();
    }
    walk(root, root, &mut acc);
    md5hex(acc.join("\n").as_bytes())
}

fn name_seed(name: &str) -> u64 {
    let mut h: u64 = 0xcbf2_9ce4_8422_2325;
    for b in name.as_bytes() {
        h ^= u64::from(*b);
        h = h.wrapping_mul(0x0000_0100_0000_01B3);
    }
    h
}
fn blte_wrap(inner: &[u8]) -> Vec<u8> {
    BlteFile::single_chunk(inner.to_vec(), CompressionMode::None).expect("driver: BLTE single chunk").build().expect("driver: BLTE build")
}

struct Payload {
    name: String,
    data: Vec<u8>,
    md5: String,
    /// the key the containers store the object under: MD5 of its uncompressed BLTE wrapping
    key: [u8; 16],
}
fn payload_table(prog: &Value) -> Vec<Payload> {
    let mut t: Vec<Payload> = vec![];
    for p in prog["payloads"].as_array().expect("driver: payloads") {
        let name = p[0].as_str().unwrap().to_string();
        let len = p[1].as_u64().unwrap() as usize;
        let data = Rng::new(name_seed(&name)).bytes(len);
        let key = *EncodingKey::from_data(&blte_wrap(&data)).as_bytes();
        assert!(t.iter().all(|q| q.data != data && q.key[..9] != key[..9]), "driver: payload {name} is not distinct");
        t.push(Payload { md5: md5hex(&data), name, data, key });
    }
    t
}
fn pl_json(t: &[Payload]) -> Value {
    Value::Array(t.iter().map(|p| json!([p.name, p.data.len(), p.md5])).collect())
}

/// 16-byte key of a symbolic key name ("z" = the all-zero key, "k<n>" = filler keys)
fn key16(k: &str) -> [u8; 16] {
    if k == "z" {
        return [0; 16];
    }
    if let Some(n) = k.strip_prefix('k') {
        let n: u32 = n.parse().expect("driver: key number");
        let mut b = [0xEEu8; 16];
        b[0] = 0xF0 | ((n >> 16) as u8 & 0x0F);
        b[1] = (n >> 8) as u8;
        b[2] = n as u8;
        return b;
    }
    let c = k.as_bytes()[0];
    assert!(c.is_ascii_lowercase() && k.len() == 1, "driver: bad key name {k}");
    [(c - b'a' + 1) * 0x11; 16]
}
fn names_of(prog: &Value, f: &str) -> Vec<String> {
    prog[f].as_array().unwrap_or_else(|| panic!("driver: {f}")).iter().map(|k| k.as_str().unwrap().to_string()).collect()
}

struct Run<'a> {
    out: &'a Emit,
    seq: u64,
}
impl Run<'_> {
    /// execute one operation under `guarded`; `f` fills the event; a panic of the code under test is an outcome
    fn step(&mut self, op: &Value, f: impl FnOnce(&mut Value)) -> Value {
        let mut ev = op.clone();
        self.out.begin(op);
        self.seq += 1;
        ev["seq"] = json!(self.seq);
        if let Err(m) = guarded(|| f(&mut ev)) {
            if m.starts_with("driver:") {
                eprintln!("{m}");
                std::process::exit(4);
            }
            ev["res"] = json!("panic");
            ev["panic"] = json!(m.chars().take(160).collect::<String>());
        }
        // lexical class of the result string (the monitor has no string functions)
        let r = ev["res"].as_str().unwrap_or("?");
        ev["rc"] = json!(if r.starts_with("err") { "err" } else if r == "panic" { "panic" } else { "ok" });
        ev
    }
}

// ---------------------------------------------------------------------------------- comp "dyn"
/// The shared `Arc<RwLock<LruManager>>` the builder takes (a parking_lot lock; its type is inferred from
/// `DynamicContainerBuilder::lru`, the harness crate does not name it): the handle the user keeps.
struct LruHandle {
    attach: Box<dyn Fn(DynamicContainerBuilder) -> DynamicContainerBuilder>,
    touch: Box<dyn Fn(&[u8; 9]) -> bool>,
    evict: Box<dyn Fn() -> bool>,
    /// keys from the LRU end to the MRU end, and len()
    list: Box<dyn Fn(usize) -> (Vec<[u8; 9]>, usize)>,
}
fn lru_handle(cap: u32, dir: PathBuf) -> LruHandle {
    let l = Arc::new(LruManager::new(cap, dir).into());
    let (a, b, c, d) = (Arc::clone(&l), Arc::clone(&l), Arc::clone(&l), l);
    let attach = Box::new(move |bld: DynamicContainerBuilder| bld.lru(Arc::clone(&a)));
    let touch = Box::new(move |k: &[u8; 9]| b.write().touch(k));
    let evict = Box::new(move || c.write().evict_tail().is_some());
    let list = Box::new(move |bound: usize| {
        let g = d.read();
        let mut v = vec![];
        g.for_each_entry(|k| {
            assert!(v.len() <= bound, "for_each_entry yields more entries than the capacity (cyclic list)");
            v.push(*k);
        });
        (v, g.len())
    });
    LruHandle { attach, touch, evict, list }
}

struct DynWorld {
    rt: tokio::runtime::Runtime,
    root: PathBuf,
    dynp: PathBuf,
    resp: PathBuf,
    cont: Option<DynamicContainer>,
    dead: String,
    lru: Option<LruHandle>,
    res: Option<Arc<ResidencyContainer>>,
    resm: String,
    cap: u32,
    table: Vec<Payload>,
    /// driver bookkeeping for `trunc`: where the latest copy of a payload ends (file length after its write)
    ends: std::collections::HashMap<String, u64>,
}
impl DynWorld {
    fn data0(&self) -> PathBuf {
        self.dynp.join("data.000")
    }
    fn dlen(&self) -> u64 {
        let mut n = 0;
        if let Ok(rd) = std::fs::read_dir(&self.dynp) {
            for e in rd.flatten() {
                let f = e.file_name();
                let f = f.to_string_lossy();
                if f.starts_with("data.") && f.len() == 8 {
                    n += e.metadata().map(|m| m.len()).unwrap_or(0);
                }
            }
        }
        n
    }
    fn open(&mut self, mode: &str) -> String {
        self.cont = None;
        let mut b = DynamicContainer::builder(self.dynp.clone()).access_mode(mode_of(mode)).segment_limit(100).max_segment_size(1 << 30);
        if let Some(l) = &self.lru {
            b = (l.attach)(b);
        }
        if let Some(r) = &self.res {
            b = b.residency(r.clone());
        }
        let r = b.build().and_then(|c| self.rt.block_on(c.open()).map(|()| c));
        match r {
            Ok(c) => {
                self.cont = Some(c);
                "ok".into()
            }
            Err(e) => {
                self.dead = kind(&e);
                self.dead.clone()
            }
        }
    }
    fn pay(&self, op: &Value) -> &Payload {
        let n = s(op, "p");
        self.table.iter().find(|x| x.name == n).unwrap_or_else(|| panic!("driver: payload {n} not in table"))
    }
    fn name_of9(&self, k: &[u8; 9]) -> String {
        self.table.iter().find(|p| p.key[..9] == k[..]).map_or_else(|| format!("?{}", hex(k)), |p| p.name.clone())
    }
    fn name_of16(&self, k: &[u8; 16]) -> String {
        self.table.iter().find(|p| p.key == *k).map_or_else(|| format!("?{}", hex(k)), |p| p.name.clone())
    }
    fn observe(&self) -> Value {
        let mut q = Map::new();
        let mut cnt = json!(-1);
        if let Some(c) = &self.cont {
            for p in &self.table {
                q.insert(p.name.clone(), json!(match self.rt.block_on(c.query(&p.key)) {
                    Ok(true) => "t".to_string(),
                    Ok(false) => "f".to_string(),
                    Err(e) => kind(&e),
                }));
            }
            cnt = json!(c.entry_count());
        }
        let mut order = vec![];
        let mut llen = 0;
        if let Some(l) = &self.lru {
            let (ks, n) = (l.list)(self.cap as usize + 8);
            order = ks.iter().map(|k| self.name_of9(k)).collect();
            llen = n;
        }
        let mut rres = Map::new();
        let mut scan = vec![];
        let mut count = 0;
        let mut spans = Map::new();
        for p in &self.table {
            rres.insert(p.name.clone(), json!(false));
        }
        if let Some(r) = &self.res {
            for p in &self.table {
                rres.insert(p.name.clone(), json!(r.is_resident(&p.key)));
            }
            scan = r.scan_keys().iter().map(|k| self.name_of16(k)).collect();
            scan.sort();
            count = r.resident_count();
            if self.resm == "rw" {
                // what the database holds, read back through flush + the crate's own page parser
                r.flush().expect("driver: residency flush");
                spans = parse_residency(&self.resp.join("key_state_v8"), |k| self.name_of16(k));
            }
        }
        json!({"q": q, "cnt": cnt, "order": order, "llen": llen, "rres": rres, "scan": scan, "count": count,
               "spans": spans, "fs": fs_digest(&self.dynp), "dlen": self.dlen()})
    }
}

/// key name -> [offset, length, update type] of every entry of a saved residency database
fn parse_residency(path: &Path, name: impl Fn(&[u8; 16]) -> String) -> Map<String, Value> {
    let mut m = Map::new();
    let Ok(data) = std::fs::read(path) else { return m };
    let mut off = 0;
    while off + 5 <= data.len() {
        let b = data[off] as usize;
        if b >= RESIDENCY_BUCKET_COUNT {
            break;
        }
        let n = u32::from_le_bytes([data[off + 1], data[off + 2], data[off + 3], data[off + 4]]) as usize;
        off += 5;
        for _ in 0..n {
            if off + RESIDENCY_PAGE_SIZE > data.len() {
                break;
            }
            if let Some(pg) = ResidencyPage::from_bytes(&data[off..]) {
                for e in pg.entries() {
                    m.insert(name(&e.ekey), json!([e.span.offset, e.span.length, e.update_type as u8]));
                }
            }
            off += RESIDENCY_PAGE_SIZE;
        }
    }
    m
}

fn run_dyn(prog: &Value, out: &Emit) {
    let dir = tempfile::tempdir_in(scratch()).expect("tempdir");
    let cap = prog.get("cap").and_then(Value::as_u64).unwrap_or(0) as u32;
    let lru_on = prog.get("lru").and_then(Value::as_bool).unwrap_or(true);
    let resm = s_or(prog, "resm", "rw").to_string();
    let mode0 = s_or(prog, "mode", "rw").to_string();
    let rt = rt();
    let root = dir.path().to_path_buf();
    let resp = root.join("residency");
    let res = if resm == "off" {
        None
    } else {
        // the residency container is prepared writable (token file), then opened in the requested mode
        let mut r = ResidencyContainer::new("wow".into(), AccessMode::ReadWrite, resp.clone());
        rt.block_on(r.initialize()).expect("driver: residency init");
        drop(r);
        let mut r = ResidencyContainer::new("wow".into(), mode_of(&resm), resp.clone());
        rt.block_on(r.initialize()).expect("driver: residency init");
        Some(Arc::new(r))
    };
    let lru = if lru_on { Some(lru_handle(cap, root.join("lru"))) } else { None };
    let mut w = DynWorld { rt, dynp: root.join("store"), resp, root, cont: None, dead: "closed".into(), lru, res, resm: resm.clone(), cap,
                           table: payload_table(prog), ends: std::collections::HashMap::new() };
    let _ = &w.root;
    let opened = guarded(|| w.open(&mode0)).unwrap_or_else(|_| "panic".into());
    out.ev(json!({"op": "new", "comp": "dyn", "cap": cap, "lru": lru_on, "resm": resm, "mode": mode0, "res": opened,
                  "pl": pl_json(&w.table), "fs": fs_digest(&w.dynp)}));
    let mut run = Run { out, seq: 0 };
    for op in prog["ops"].as_array().expect("driver: ops") {
        let name_ = s(op, "op").to_string();
        let mut ev = run.step(op, |ev| {
            let dead = w.dead.clone();
            match name_.as_str() {
                "write" => {
                    let before = w.dlen();
                    ev["off"] = json!(before);
                    let p = w.pay(op);
                    // the caller names the object by its content key (MD5 of the data); the container stores it
                    // under the encoding key it computes itself
                    let ckey: [u8; 16] = md5::compute(&p.data).0;
                    let r = match &w.cont {
                        Some(c) => unit(w.rt.block_on(c.write(&ckey, &p.data))),
                        None => dead,
                    };
                    let end = w.dlen();
                    if r == "ok" {
                        let n = p.name.clone();
                        w.ends.insert(n, end);
                    }
                    ev["end"] = json!(end);
                    ev["res"] = json!(r);
                }
                "read" => {
                    let p = w.pay(op);
                    let off = op.get("off").and_then(Value::as_u64).unwrap_or(0);
                    // len 0 = "everything" (the form the repository's own tests use)
                    let len = op.get("len").and_then(Value::as_u64).unwrap_or(0);
                    let mut buf = vec![0u8; p.data.len() + 64];
                    let r = match &w.cont {
                        Some(c) => w.rt.block_on(c.read(&p.key, off, len as u32, &mut buf)),
                        None => Err(StorageError::Config(dead)),
                    };
                    // facts about the input bytes the judge compares with: the whole object, the requested slice
                    let lo = (off as usize).min(p.data.len());
                    let hi = if len == 0 { p.data.len() } else { (lo + len as usize).min(p.data.len()) };
                    ev["wmd5"] = json!(p.md5);
                    ev["smd5"] = json!(md5hex(&p.data[lo..hi]));
                    match r {
                        Ok(n) => {
                            buf.truncate(n);
                            ev["res"] = json!("ok");
                            ev["n"] = json!(n);
                            ev["md5"] = json!(md5hex(&buf));
                        }
                        Err(e) => {
                            ev["res"] = json!(if w.cont.is_some() { kind(&e) } else { w.dead.clone() });
                            ev["n"] = json!(-1);
                            ev["md5"] = json!("");
                        }
                    }
                }
                "remove" => {
                    let p = w.pay(op);
                    ev["res"] = json!(match &w.cont {
                        Some(c) => unit(w.rt.block_on(c.remove(&p.key))),
                        None => dead,
                    });
                }
                "reserve" => {
                    let p = w.pay(op);
                    ev["res"] = json!(match &w.cont {
                        Some(c) => unit(w.rt.block_on(c.reserve(&p.key))),
                        None => dead,
                    });
                }
                "rmspan" => {
                    let p = w.pay(op);
                    let off = op["off"].as_u64().expect("driver: off");
                    let len = op["len"].as_u64().expect("driver: len");
                    ev["res"] = json!(match &w.cont {
                        Some(c) => unit(c.remove_span(&p.key, off, len)),
                        None => dead,
                    });
                }
                "flush" => {
                    ev["res"] = json!(match &w.cont {
                        Some(c) => unit(c.flush_all_updates()),
                        None => dead,
                    });
                }
                "flushb" => {
                    let p = w.pay(op);
                    ev["res"] = json!(match &w.cont {
                        Some(c) => unit(c.flush_bucket(IndexManager::bucket_for_key(&EncodingKey::from_bytes(p.key)))),
                        None => dead,
                    });
                }
                "reopen" => {
                    let m = s(op, "mode").to_string();
                    ev["res"] = json!(w.open(&m));
                    ev["flen"] = json!(w.dlen());
                }
                "trunc" => {
                    // the archive loses its tail behind the container's back: close, cut, reopen in the same mode
                    let p = w.pay(op).name.clone();
                    let m = s(op, "mode").to_string();
                    let end = *w.ends.get(&p).unwrap_or_else(|| panic!("driver: trunc of {p}, which was never written"));
                    w.cont = None;
                    let f = std::fs::OpenOptions::new().write(true).open(w.data0()).expect("driver: open data.000");
                    let cur = f.metadata().expect("driver: metadata").len();
                    let to = (end - 1).min(cur);
                    f.set_len(to).expect("driver: set_len");
                    drop(f);
                    ev["flen"] = json!(to);
                    ev["res"] = json!(w.open(&m));
                }
                "mark" | "unmark" => {
                    let p = w.pay(op);
                    let r = w.res.as_ref().expect("driver: mark without a residency container");
                    ev["res"] = json!(unit(if name_ == "mark" { r.mark_resident(&p.key) } else { r.mark_non_resident(&p.key) }));
                }
                "ltouch" => {
                    let p = w.pay(op);
                    let mut k = [0u8; 9];
                    k.copy_from_slice(&p.key[..9]);
                    ev["res"] = json!(tf((w.lru.as_ref().expect("driver: ltouch without an LRU").touch)(&k)));
                }
                "levict" => {
                    ev["res"] = json!(tf((w.lru.as_ref().expect("driver: levict without an LRU").evict)()));
                }
                other => panic!("driver: unknown dyn op {other}"),
            }
        });
        match guarded(|| w.observe()) {
            Ok(o) => ev["obs"] = o,
            Err(m) => {
                if m.starts_with("driver:") {
                    eprintln!("{m}");
                    std::process::exit(4);
                }
                ev["obs"] = json!({"panic": m});
                out.ev(ev);
                return;
            }
        }
        out.ev(ev);
    }
}

// ---------------------------------------------------------------------------------- comp "res"
fn run_res(prog: &Value, out: &Emit) {
    let dir = tempfile::tempdir_in(scratch()).expect("tempdir");
    let rt = rt();
    let path = dir.path().join("residency");
    let keys = names_of(prog, "keys");
    let mode0 = s_or(prog, "mode", "rw").to_string();
    // a residency container that exists (directory + token), as a read-only / no-access open presupposes
    let open = |mode: &str| -> (Option<ResidencyContainer>, String) {
        let mut r = ResidencyContainer::new("wow".into(), mode_of(mode), path.clone());
        match rt.block_on(r.initialize()) {
            Ok(()) => (Some(r), "ok".into()),
            Err(e) => (None, kind(&e)),
        }
    };
    let (c0, _) = open("rw");
    drop(c0);
    let (mut cont, opened) = open(&mode0);
    out.ev(json!({"op": "new", "comp": "res", "mode": mode0, "keys": keys, "res": opened}));
    let name16 = |k: &[u8; 16]| keys.iter().find(|n| key16(n) == *k).cloned().unwrap_or_else(|| format!("?{}", hex(k)));
    let mut run = Run { out, seq: 0 };
    for op in prog["ops"].as_array().expect("driver: ops") {
        let name_ = s(op, "op").to_string();
        let mut ev = run.step(op, |ev| {
            if name_ == "reload" {
                let m = s(op, "mode").to_string();
                drop(cont.take());
                let (c, r) = open(&m);
                cont = c;
                ev["ro"] = json!(m != "rw" && m != "excl");
                ev["res"] = json!(r);
                return;
            }
            let c = cont.as_ref().expect("driver: residency container not open");
            let k = op.get("k").and_then(Value::as_str).map(key16);
            let r = match name_.as_str() {
                "mark" => unit(c.mark_resident(&k.unwrap())),
                "unmark" => unit(c.mark_non_resident(&k.unwrap())),
                "span" => unit(c.mark_span_non_resident(&k.unwrap(), 1024, 512)),
                "cremove" => unit(rt.block_on(c.remove(&k.unwrap()))),
                "creserve" => unit(rt.block_on(c.reserve(&k.unwrap()))),
                "cwrite" => unit(rt.block_on(c.write(&k.unwrap(), b"data"))),
                "cread" => {
                    let mut buf = [0u8; 16];
                    match rt.block_on(c.read(&k.unwrap(), 0, 0, &mut buf)) {
                        Ok(_) => "ok".to_string(),
                        Err(e) => kind(&e),
                    }
                }
                "delete" => {
                    let ks: Vec<[u8; 16]> = names_of(op, "ks").iter().map(|n| key16(n)).collect();
                    unit(c.delete_keys(&ks))
                }
                "save" => unit(c.flush()),
                other => panic!("driver: unknown res op {other}"),
            };
            // error kinds are left open by Residency.tla: "ok" / "err"
            ev["kind"] = json!(r);
            ev["res"] = json!(if r == "ok" { "ok" } else { "err" });
        });
        let obs = guarded(|| {
            let c = cont.as_ref().expect("driver: residency container not open");
            let mut res = Map::new();
            let mut q = Map::new();
            for n in &keys {
                let k = key16(n);
                res.insert(n.clone(), json!(c.is_resident(&k)));
                q.insert(n.clone(), json!(match rt.block_on(c.query(&k)) {
                    Ok(b) => tf(b),
                    Err(_) => "err".into(),
                }));
            }
            let mut scan: Vec<String> = c.scan_keys().iter().map(&name16).collect();
            scan.sort();
            json!({"res": res, "q": q, "nscan": scan.len(), "scan": scan, "count": c.resident_count(), "padres": 0, "fs": fs_digest(&path)})
        });
        match obs {
            Ok(o) => ev["obs"] = o,
            Err(m) => {
                if m.starts_with("driver:") {
                    eprintln!("{m}");
                    std::process::exit(4);
                }
                ev["obs"] = json!({"panic": m});
                out.ev(ev);
                return;
            }
        }
        out.ev(ev);
    }
}

// ---------------------------------------------------------------------------------- comp "static"
fn run_static(prog: &Value, out: &Emit) {
    let dir = tempfile::tempdir_in(scratch()).expect("tempdir");
    let rt = rt();
    let store = dir.path().join("store");
    let table = payload_table(prog);
    let mut sc = StaticContainer::new(store.clone());
    out.ev(json!({"op": "new", "comp": "static", "pl": pl_json(&table)}));
    let pay = |op: &Value| -> &Payload {
        let n = s(op, "p");
        table.iter().find(|x| x.name == n).unwrap_or_else(|| panic!("driver: payload {n} not in table"))
    };
    let dlen = || std::fs::metadata(store.join("data.000")).map(|m| m.len()).unwrap_or(0);
    let mut run = Run { out, seq: 0 };
    for op in prog["ops"].as_array().expect("driver: ops") {
        let name_ = s(op, "op").to_string();
        let mut ev = run.step(op, |ev| match name_.as_str() {
            // the directory is prepared / changed by a DynamicContainer that is opened for this one call and closed again
            "dwrite" | "dremove" => {
                let p = pay(op);
                let c = DynamicContainer::new(AccessMode::ReadWrite, store.clone(), false, 100, 1 << 30, false).expect("driver: dyn new");
                rt.block_on(c.open()).expect("driver: dyn open");
                ev["off"] = json!(dlen());
                ev["res"] = json!(unit(if name_ == "dwrite" { rt.block_on(c.write(&p.key, &p.data)) } else { rt.block_on(c.remove(&p.key)) }));
                drop(c);
                ev["end"] = json!(dlen());
            }
            "sopen" => {
                ev["res"] = json!(unit(rt.block_on(sc.open())));
            }
            "snew" => {
                sc = StaticContainer::new(store.clone());
                ev["res"] = json!("ok");
            }
            "sread" => {
                let p = pay(op);
                let mut buf = vec![0u8; p.data.len() + 64];
                ev["wmd5"] = json!(p.md5);
                match rt.block_on(sc.read(&p.key, 0, 0, &mut buf)) {
                    Ok(n) => {
                        buf.truncate(n);
                        ev["res"] = json!("ok");
                        ev["n"] = json!(n);
                        ev["md5"] = json!(md5hex(&buf));
                    }
                    Err(e) => {
                        ev["res"] = json!(kind(&e));
                        ev["n"] = json!(-1);
                        ev["md5"] = json!("");
                    }
                }
            }
            "swrite" => ev["res"] = json!(unit(rt.block_on(sc.write(&pay(op).key, &pay(op).data)))),
            "sremove" => ev["res"] = json!(unit(rt.block_on(sc.remove(&pay(op).key)))),
            "sreserve" => ev["res"] = json!(unit(rt.block_on(sc.reserve(&pay(op).key)))),
            other => panic!("driver: unknown static op {other}"),
        });
        let obs = guarded(|| {
            let mut q = Map::new();
            for p in &table {
                q.insert(p.name.clone(), json!(match rt.block_on(sc.query(&p.key)) {
                    Ok(true) => "t".to_string(),
                    Ok(false) => "f".to_string(),
                    Err(e) => kind(&e),
                }));
            }
            // batch lookup of every payload key plus the all-zero key (last)
            let mut ks: Vec<[u8; 16]> = table.iter().map(|p| p.key).collect();
            ks.push([0; 16]);
            let (mut hd, mut rs) = (Map::new(), Map::new());
            let lk = match sc.state_lookup(&ks) {
                Ok(v) => {
                    for (i, st) in v.iter().enumerate() {
                        let n = if i < table.len() { table[i].name.clone() } else { "zero".to_string() };
                        hd.insert(n.clone(), json!(st.has_data));
                        rs.insert(n, json!(st.is_resident));
                    }
                    if v.len() == ks.len() { "ok".to_string() } else { format!("len:{}", v.len()) }
                }
                Err(e) => kind(&e),
            };
            json!({"q": q, "lk": lk, "hd": hd, "rs": rs, "cnt": sc.entry_count(), "fs": fs_digest(&store)})
        });
        match obs {
            Ok(o) => ev["obs"] = o,
            Err(m) => {
                ev["obs"] = json!({"panic": m});
                out.ev(ev);
                return;
            }
        }
        out.ev(ev);
    }
}

// ---------------------------------------------------------------------------------- comp "hl"
struct HlWorld {
    rt: tokio::runtime::Runtime,
    root: PathBuf,
    base: PathBuf,
    keys: Vec<String>,
    cont: HardLinkContainer,
    obsq: bool,
    next_filler: u32,
}
impl HlWorld {
    fn trie(&self, k: &str) -> PathBuf {
        let k16 = key16(k);
        let mut e = [0u8; 9];
        e.copy_from_slice(&k16[..9]);
        format_content_key_path(&self.base, &e)
    }
    /// symbolic place -> path: "trie" (the key's own trie path), "tk" (the trie path of key `dk`),
    /// "in" (inside the base, not a trie path), "out" (outside the base: a file of somebody else)
    fn place(&self, k: &str, op: &Value, f: &str) -> PathBuf {
        match s(op, f) {
            "trie" => self.trie(k),
            "tk" => self.trie(s(op, "dk")),
            "in" => self.base.join("misc").join("in.bin"),
            "out" => self.root.join("outside").join("victim.bin"),
            other => panic!("driver: unknown place {other}"),
        }
    }
    fn src(&self, n: &str) -> PathBuf {
        self.root.join("srcinst").join(format!("{n}.bin"))
    }
    fn open(&mut self, mode: &str) -> String {
        let mut c = HardLinkContainer::new(mode_of(mode), self.base.clone());
        let r = self.rt.block_on(c.initialize());
        self.cont = c;
        unit(r)
    }
    fn probe(&mut self) -> String {
        let (a, b) = (self.root.join("probe_src"), self.root.join("probe_dst"));
        match self.cont.test_support(&a, &b) {
            Ok(x) => tf(x),
            Err(e) => kind(&e),
        }
    }
    /// which file is at `p`: "none", or a name of its inode ("s1"/"s2" = the source files' content, "v" = the victim's
    /// original content, "x" = a file created by the environment), and its link count
    fn what(&self, p: &Path) -> Value {
        use std::os::unix::fs::MetadataExt;
        match std::fs::symlink_metadata(p) {
            Err(_) => json!(["none", 0]),
            Ok(md) => {
                let c = std::fs::read(p).unwrap_or_default();
                let id = String::from_utf8_lossy(&c).to_string();
                json!([id, md.nlink()])
            }
        }
    }
    fn observe(&mut self) -> Value {
        let mut fs = Map::new();
        for k in &self.keys {
            fs.insert(k.clone(), self.what(&self.trie(k)));
        }
        let mut o = json!({"fs": fs, "in": self.what(&self.base.join("misc").join("in.bin")),
                           "out": self.what(&self.root.join("outside").join("victim.bin")),
                           "s1": self.what(&self.src("s1")), "s2": self.what(&self.src("s2")),
                           "outd": fs_digest(&self.root.join("outside")), "sup": self.cont.is_supported()});
        if self.obsq {
            // in the order the queries are made (each one moves its key to the front of the cache)
            let mut q = vec![];
            for k in &self.keys {
                q.push(json!([k, match self.rt.block_on(self.cont.query(&key16(k))) {
                    Ok(b) => tf(b),
                    Err(e) => kind(&e),
                }]));
            }
            o["q"] = Value::Array(q);
        }
        o
    }
}

fn run_hl(prog: &Value, out: &Emit) {
    let dir = tempfile::tempdir_in(scratch()).expect("tempdir");
    let root = dir.path().to_path_buf();
    let base = root.join("base");
    let keys = names_of(prog, "keys");
    let mode0 = s_or(prog, "mode", "rw").to_string();
    for d in ["srcinst", "outside", "probe_src", "probe_dst"] {
        std::fs::create_dir_all(root.join(d)).expect("driver: mkdir");
    }
    // the container's directory exists (a read-only open presupposes it)
    std::fs::create_dir_all(&base).expect("driver: mkdir");
    std::fs::write(root.join("srcinst/s1.bin"), b"s1").expect("driver: write");
    std::fs::write(root.join("srcinst/s2.bin"), b"s2").expect("driver: write");
    std::fs::write(root.join("outside/victim.bin"), b"v").expect("driver: write");
    let mut w = HlWorld { rt: rt(), cont: HardLinkContainer::new(AccessMode::None, base.clone()), root, base, keys: keys.clone(),
                          obsq: prog.get("obsq").and_then(Value::as_bool).unwrap_or(true), next_filler: 0 };
    let opened = w.open(&mode0);
    let sup = if prog.get("probe").and_then(Value::as_bool).unwrap_or(true) { w.probe() } else { "false".into() };
    out.ev(json!({"op": "new", "comp": "hl", "mode": mode0, "keys": keys, "obsq": w.obsq, "res": opened, "sup": sup, "fcap": 64,
                  "outd": fs_digest(&w.root.join("outside"))}));
    let mut run = Run { out, seq: 0 };
    for op in prog["ops"].as_array().expect("driver: ops") {
        let name_ = s(op, "op").to_string();
        let mut ev = run.step(op, |ev| {
            let k = op.get("k").and_then(Value::as_str).unwrap_or("a").to_string();
            match name_.as_str() {
                "probe" => ev["res"] = json!(w.probe()),
                "create" => {
                    let (src, dst) = (w.src(s(op, "src")), w.place(&k, op, "dst"));
                    ev["res"] = json!(unit(w.cont.create_link(&key16(&k), &src, &dst)));
                }
                "rmfile" => {
                    let p = w.place(&k, op, "path");
                    ev["res"] = json!(unit(w.cont.remove_file(&key16(&k), &p)));
                }
                "cremove" => ev["res"] = json!(unit(w.rt.block_on(w.cont.remove(&key16(&k))))),
                "creserve" => ev["res"] = json!(unit(w.rt.block_on(w.cont.reserve(&key16(&k))))),
                "cwrite" => ev["res"] = json!(unit(w.rt.block_on(w.cont.write(&key16(&k), b"data")))),
                "cread" => {
                    let mut buf = [0u8; 16];
                    ev["res"] = json!(match w.rt.block_on(w.cont.read(&key16(&k), 0, 0, &mut buf)) {
                        Ok(_) => "ok".to_string(),
                        Err(e) => kind(&e),
                    });
                }
                "delete" => {
                    let ks: Vec<[u8; 16]> = names_of(op, "ks").iter().map(|n| key16(n)).collect();
                    ev["res"] = json!(match w.cont.delete_keys(&ks) {
                        Ok(n) => format!("n{n}"),
                        Err(e) => kind(&e),
                    });
                }
                "clean" | "compact" => {
                    let r = if name_ == "clean" { w.cont.clean_directory() } else { w.cont.compact_directory() };
                    ev["res"] = json!(match r {
                        Ok(n) => format!("n{n}"),
                        Err(e) => kind(&e),
                    });
                }
                "query" => {
                    ev["res"] = json!(match w.rt.block_on(w.cont.query(&key16(&k))) {
                        Ok(b) => tf(b),
                        Err(e) => kind(&e),
                    });
                }
                // the environment changes the file system behind the container's back
                "xcreate" => {
                    let p = w.trie(&k);
                    std::fs::create_dir_all(p.parent().unwrap()).expect("driver: mkdir");
                    let _ = std::fs::remove_file(&p); // a new file of its own, never a write through an existing link
                    std::fs::write(&p, b"x").expect("driver: write");
                    ev["res"] = json!("ok");
                }
                "xremove" => {
                    let _ = std::fs::remove_file(w.trie(&k));
                    ev["res"] = json!("ok");
                }
                "xrmsrc" => {
                    let _ = std::fs::remove_file(w.src(s(op, "src")));
                    ev["res"] = json!("ok");
                }
                // query n filler keys nobody has seen before; n is given relative to the cache capacity
                "flood" => {
                    let n = (64 + op["rel"].as_i64().expect("driver: rel")) as u32;
                    let mut all_false = true;
                    for _ in 0..n {
                        let f = format!("k{}", w.next_filler);
                        w.next_filler += 1;
                        all_false &= matches!(w.rt.block_on(w.cont.query(&key16(&f))), Ok(false));
                    }
                    ev["n"] = json!(n);
                    ev["res"] = json!(if all_false { "false" } else { "other" });
                }
                "reopen" => {
                    let m = s(op, "mode").to_string();
                    let r = w.open(&m);
                    ev["sup"] = json!(w.probe());
                    ev["res"] = json!(r);
                }
                other => panic!("driver: unknown hl op {other}"),
            }
        });
        match guarded(|| w.observe()) {
            Ok(o) => ev["obs"] = o,
            Err(m) => {
                ev["obs"] = json!({"panic": m});
                out.ev(ev);
                return;
            }
        }
        out.ev(ev);
    }
}

// ---------------------------------------------------------------------------------- random programs
fn random_dyn(rng: &mut Rng, len: usize) -> Value {
    let np = 3 + rng.below(6) as usize;
    let payloads: Vec<Value> = (0..np).map(|i| json!([format!("p{i}"), 1 + rng.below(400)])).collect();
    let cap = rng.below(np as u64 + 2);
    let resm = *rng.pick(&["rw", "rw", "rw", "ro", "off"]);
    let lru = rng.chance(5, 6);
    let mut mode = "rw";
    let mut written: Vec<usize> = vec![];
    let mut ops = vec![];
    let pn = |i: usize| format!("p{i}");
    for _ in 0..len {
        let x = rng.below(100);
        let any = rng.below(np as u64) as usize;
        let known = if written.is_empty() { any } else { *rng.pick(&written) };
        let op = if x < 28 {
            if mode == "rw" || mode == "excl" {
                if !written.contains(&any) {
                    written.push(any);
                }
            }
            json!({"op": "write", "p": pn(any)})
        } else if x < 54 {
            json!({"op": "read", "p": pn(if rng.chance(1, 8) { any } else { known })})
        } else if x < 58 {
            // a byte range (offset > 0)
            json!({"op": "read", "p": pn(known), "off": 1 + rng.below(420), "len": rng.below(60)})
        } else if x < 66 {
            json!({"op": "remove", "p": pn(known)})
        } else if x < 70 {
            json!({"op": "reserve", "p": pn(any)})
        } else if x < 73 {
            json!({"op": "rmspan", "p": pn(known), "off": rng.below(50), "len": 1 + rng.below(50)})
        } else if x < 77 {
            if rng.chance(1, 2) { json!({"op": "flush"}) } else { json!({"op": "flushb", "p": pn(known)}) }
        } else if x < 84 {
            mode = *rng.pick(&["rw", "rw", "ro", "none", "excl"]);
            json!({"op": "reopen", "mode": mode})
        } else if x < 89 && !written.is_empty() {
            json!({"op": "trunc", "p": pn(known), "mode": mode})
        } else if x < 94 && resm == "rw" {
            json!({"op": if rng.chance(3, 4) { "mark" } else { "unmark" }, "p": pn(known)})
        } else if lru && x < 97 {
            json!({"op": "levict"})
        } else if lru {
            json!({"op": "ltouch", "p": pn(any)})
        } else {
            json!({"op": "read", "p": pn(known)})
        };
        ops.push(op);
    }
    json!({"comp": "dyn", "cap": cap, "lru": lru, "resm": resm, "mode": "rw", "payloads": payloads, "ops": ops})
}

fn random_hl(rng: &mut Rng, len: usize) -> Value {
    let keys = ["a", "b", "c", "z"];
    let obsq = rng.chance(1, 2);
    let ext = !obsq || rng.chance(1, 3);
    let mut mode = "rw";
    let mut ops = vec![];
    for _ in 0..len {
        let k = *rng.pick(&keys[..3]);
        let x = rng.below(100);
        let op = if x < 22 {
            let dst = if rng.chance(3, 4) || !obsq { "trie" } else { *rng.pick(&["in", "out", "tk"]) };
            let kk = if rng.chance(1, 12) { "z" } else if dst == "tk" { "a" } else { k };
            json!({"op": "create", "k": kk, "src": *rng.pick(&["s1", "s1", "s2", "missing"]), "dst": dst, "dk": "b"})
        } else if x < 32 {
            let path = if rng.chance(2, 3) || !obsq { "trie" } else { *rng.pick(&["in", "out", "tk"]) };
            json!({"op": "rmfile", "k": if path == "tk" { "a" } else { k }, "path": path, "dk": "b"})
        } else if x < 40 {
            json!({"op": "cremove", "k": k})
        } else if x < 46 {
            json!({"op": "delete", "ks": if rng.chance(1, 2) { vec![k] } else { vec!["a", "b", "c"] }})
        } else if x < 49 {
            json!({"op": *rng.pick(&["clean", "compact"])})
        } else if x < 70 {
            json!({"op": "query", "k": k})
        } else if x < 76 && ext {
            json!({"op": *rng.pick(&["xcreate", "xremove"]), "k": k})
        } else if x < 80 && ext && !obsq {
            json!({"op": "flood", "rel": *rng.pick(&[-3i64, -2, -1, 0, 1])})
        } else if x < 83 {
            json!({"op": "xrmsrc", "src": *rng.pick(&["s1", "s2"])})
        } else if x < 88 {
            mode = *rng.pick(&["rw", "rw", "ro", "none", "excl"]);
            json!({"op": "reopen", "mode": mode})
        } else if x < 92 {
            json!({"op": *rng.pick(&["creserve", "cread", "cwrite"]), "k": k})
        } else {
            json!({"op": "query", "k": k})
        };
        ops.push(op);
    }
    let _ = mode;
    json!({"comp": "hl", "mode": "rw", "keys": keys, "obsq": obsq, "ops": ops})
}

fn run_program(prog: &Value, out: &Emit) {
    match s(prog, "comp") {
        "dyn" => run_dyn(prog, out),
        "res" => run_res(prog, out),
        "static" => run_static(prog, out),
        "hl" => run_hl(prog, out),
        other => panic!("driver: unknown component {other}"),
    }
}

fn main() {
    quiet_panics();
    let args: Vec<String> = std::env::args().collect();
    let mut out = Out::from_arg(arg(&args, "--out").as_ref());
    let mut programs = vec![];
    if let Some(p) = arg(&args, "--programs") {
        programs = read_programs(&p);
    }
    let nrand = arg_u64(&args, "--random", 0);
    if nrand > 0 {
        let mut rng = Rng::new(seed_from_env());
        let len = arg_u64(&args, "--len", 80) as usize;
        let mut dump = arg(&args, "--dump-programs").map(|p| Out::to_path(Path::new(&p)));
        for i in 0..nrand {
            let prog = if i % 2 == 0 { random_dyn(&mut rng, len) } else { random_hl(&mut rng, len) };
            if let Some(d) = dump.as_mut() {
                d.ev(&prog);
            }
            programs.push(prog);
        }
        if has_flag(&args, "--dump-only") {
            // generation only: the programs are executed by sharded runs of --programs
            eprintln!("{}", json!({"generated": programs.len()}));
            return;
        }
    }
    let timeout = std::time::Duration::from_secs(arg_u64(&args, "--timeout", 60));
    let mut counts: std::collections::BTreeMap<String, u64> = std::collections::BTreeMap::new();
    for p in &programs {
        for op in p["ops"].as_array().expect("ops") {
            *counts.entry(format!("n_{}_{}", p["comp"].as_str().unwrap_or("?"), op["op"].as_str().unwrap_or("?"))).or_insert(0) += 1;
        }
    }
    let st = run_with_watchdog(programs, &mut out, timeout, run_program);
    out.flush();
    let mut summary = json!({"programs": st.programs, "events": out.events, "hangs": st.hangs, "skipped": st.skipped});
    for (k, v) in counts {
        summary[k] = json!(v);
    }
    eprintln!("{summary}");
    if st.skipped > 0 {
        std::process::exit(3);
    }
}
