//! C13 driver: executes fail-over / cache / packet-split / CDN-download rows on the real
//! `RibbitTactClient` and `CdnClient` (cascette-protocol) against loopback mock servers.
//!
//! usage: drv_failover --programs <file> --out <file> [--conc N]
//!        drv_failover --random N --out <file> [--dump-programs <file>] [--conc N]
//!        drv_failover --dump-shapes <cls>             (concretisation table of the TCP response shapes:
//!                                                      one JSON line per shape, read by MC_Failover)
//!
//! Rows (one JSON object per line, produced by TLC from spec/mc/MC_Failover.tla):
//!   {"fam":"chain"|"cache"|"split"|"stall","cache":"mem"|"disk","ttl":"long"|"short","cls":"versions",
//!    "beh":{"https":"H500","http":"OkBpsv","tcp":"OkMime"},"beh2":{...},
//!    "shape":"bpsv_nn","cuts":[12,40],
//!    "ops":[{"op":"query","p":1},{"op":"tick"},{"op":"reopen"},{"op":"flip"},{"op":"query","p":2}]}
//!   {"fam":"cdn","cache":"disk","script":[503,429,200],"ra":"0",
//!    "ops":[{"op":"download","k":1},{"op":"reopen"},{"op":"download","k":1}]}
//!
//! Three loopback mocks per row: two minimal HTTP/1.1 servers ("https", "http" - TactClient accepts plain
//! http:// URLs) and one Ribbit TCP server, scripted by `beh` (switched to `beh2` by the `flip` op).
//! `Refused` = a socket that is bound but does not listen (connect() fails with ECONNREFUSED and nobody else
//! can take the port).  The mocks of a row listen on a loopback address of their own (127.13.a.b), out of
//! reach of other processes' traffic to 127.0.0.1.  Every mock logs each request it reads, in one list per row, so the order of contacts
//! is the order of the log.
//!
//! Events (judged by spec/trace/T_Failover.tla; nothing is decided here):
//!   {"op":"new","fam":..,"cache":..,"ttl":..,"cls":..,"beh":{..},"beh2":{..},
//!    "docs":{"https":[d1,d2],"http":[..],"tcp":[..]},        canonical digests of the documents each mock serves
//!    "resp":{"len":n,"nl":[..],"mime_at":k,"nb512":b,"prefix":[[p,digest],..]}, the TCP response of path 1 as byte classes
//!    "cuts":[..]}
//!   {"op":"query","p":i,"seq":n,"ms":elapsed,"res":{"class":"ok","digest":d,"rows":r}|{"class":"err","kind":k}|
//!                                     {"class":"panic","msg":m}|{"class":"hang"},
//!    "contacted":["https","http"],"log":["https GET /wow/versions", ..]}
//!   {"op":"tick"|"wait"|"reopen"|"flip","seq":n}            t0/t1 of a query: ms since the start of the row (monotonic)
//!   {"op":"download","k":i,"seq":n,"res":{"class":"ok","digest":d}|{"class":"err","kind":k},"reqs":[503,200]}
use cascette_formats::bpsv::{BpsvDocument, BpsvType};
use cascette_protocol::{CacheConfig, CdnClient, CdnConfig, CdnEndpoint, ClientConfig, ContentType, ProtocolError, RibbitTactClient};
use serde_json::{Map, Value, json};
use std::collections::HashMap;
use std::sync::{Arc, Mutex};
use std::time::Duration;
use tokio::io::{AsyncReadExt, AsyncWriteExt};
use tokio::net::{TcpListener, TcpSocket, TcpStream};
use verif_harness::*;

const EPS: [&str; 3] = ["https", "http", "tcp"];
const SHORT_TTL_MS: u64 = 150;
const CLS_CDN_TTL_MS: u64 = 1800; // ttl "cls": ribbit_ttl 600 ms, cdn_ttl 1800 ms, config_ttl 3000 ms
const CLS_CONFIG_TTL_MS: u64 = 3000;
const MID_TTL_MS: u64 = 600; // with `wait` operations of 400 ms: a hit at 0.67 x TTL, a query at 1.33 x TTL
const TICK_MS: u64 = 650; // > 4 x TTL
const LONG_TTL_S: u64 = 3600;
const SEG_PAUSE_MS: u64 = 10;
const QUERY_WATCHDOG_S: u64 = 170; // three 30 s client time-outs + slack; beyond that the call is recorded as a hang

// --------------------------------------------------------------------------- SHA-256 (MIME checksum epilogue)
fn sha256_hex(data: &[u8]) -> String {
    const K: [u32; 64] = [
        0x428a2f98, 0x71374491, 0xb5c0fbcf, 0xe9b5dba5, 0x3956c25b, 0x59f111f1, 0x923f82a4, 0xab1c5ed5, 0xd807aa98, 0x12835b01,
        0x243185be, 0x550c7dc3, 0x72be5d74, 0x80deb1fe, 0x9bdc06a7, 0xc19bf174, 0xe49b69c1, 0xefbe4786, 0x0fc19dc6, 0x240ca1cc,
        0x2de92c6f, 0x4a7484aa, 0x5cb0a9dc, 0x76f988da, 0x983e5152, 0xa831c66d, 0xb00327c8, 0xbf597fc7, 0xc6e00bf3, 0xd5a79147,
        0x06ca6351, 0x14292967, 0x27b70a85, 0x2e1b2138, 0x4d2c6dfc, 0x53380d13, 0x650a7354, 0x766a0abb, 0x81c2c92e, 0x92722c85,
        0xa2bfe8a1, 0xa81a664b, 0xc24b8b70, 0xc76c51a3, 0xd192e819, 0xd6990624, 0xf40e3585, 0x106aa070, 0x19a4c116, 0x1e376c08,
        0x2748774c, 0x34b0bcb5, 0x391c0cb3, 0x4ed8aa4a, 0x5b9cca4f, 0x682e6ff3, 0x748f82ee, 0x78a5636f, 0x84c87814, 0x8cc70208,
        0x90befffa, 0xa4506ceb, 0xbef9a3f7, 0xc67178f2,
    ];
    let mut h: [u32; 8] = [0x6a09e667, 0xbb67ae85, 0x3c6ef372, 0xa54ff53a, 0x510e527f, 0x9b05688c, 0x1f83d9ab, 0x5be0cd19];
    let mut msg = data.to_vec();
    let bitlen = (data.len() as u64) * 8;
    msg.push(0x80);
    while msg.len() % 64 != 56 {
        msg.push(0);
    }
    msg.extend_from_slice(&bitlen.to_be_bytes());
    for chunk in msg.chunks(64) {
        let mut w = [0u32; 64];
        for i in 0..16 {
            w[i] = u32::from_be_bytes([chunk[4 * i], chunk[4 * i + 1], chunk[4 * i + 2], chunk[4 * i + 3]]);
        }
        for i in 16..64 {
            let s0 = w[i - 15].rotate_right(7) ^ w[i - 15].rotate_right(18) ^ (w[i - 15] >> 3);
            let s1 = w[i - 2].rotate_right(17) ^ w[i - 2].rotate_right(19) ^ (w[i - 2] >> 10);
            w[i] = w[i - 16].wrapping_add(s0).wrapping_add(w[i - 7]).wrapping_add(s1);
        }
        let (mut a, mut b, mut c, mut d, mut e, mut f, mut g, mut hh) = (h[0], h[1], h[2], h[3], h[4], h[5], h[6], h[7]);
        for i in 0..64 {
            let s1 = e.rotate_right(6) ^ e.rotate_right(11) ^ e.rotate_right(25);
            let ch = (e & f) ^ ((!e) & g);
            let t1 = hh.wrapping_add(s1).wrapping_add(ch).wrapping_add(K[i]).wrapping_add(w[i]);
            let s0 = a.rotate_right(2) ^ a.rotate_right(13) ^ a.rotate_right(22);
            let maj = (a & b) ^ (a & c) ^ (b & c);
            let t2 = s0.wrapping_add(maj);
            hh = g;
            g = f;
            f = e;
            e = d.wrapping_add(t1);
            d = c;
            c = b;
            b = a;
            a = t1.wrapping_add(t2);
        }
        for (x, y) in h.iter_mut().zip([a, b, c, d, e, f, g, hh]) {
            *x = x.wrapping_add(y);
        }
    }
    h.iter().map(|x| format!("{x:08x}")).collect()
}

// --------------------------------------------------------------------------- documents (the driver's own table)
#[derive(Clone)]
struct Doc {
    fields: Vec<(String, &'static str, usize, &'static str)>, // name, canonical kind, size, spelling used on the wire
    seqn: Option<u32>,
    rows: Vec<Vec<String>>,
}

fn canon(fields: &[(String, String)], seqn: Option<u32>, rows: &[Vec<String>]) -> String {
    let mut s = String::new();
    for (n, t) in fields {
        s.push_str(n);
        s.push('!');
        s.push_str(t);
        s.push('|');
    }
    s.push('\n');
    match seqn {
        Some(n) => s.push_str(&format!("seqn={n}\n")),
        None => s.push_str("seqn=-\n"),
    }
    for r in rows {
        for v in r {
            s.push_str(v);
            s.push('|');
        }
        s.push('\n');
    }
    md5hex(s.as_bytes())
}

impl Doc {
    fn canon_fields(&self) -> Vec<(String, String)> {
        self.fields.iter().map(|(n, k, z, _)| (n.clone(), format!("{k}:{z}"))).collect()
    }
    fn digest(&self) -> String {
        canon(&self.canon_fields(), self.seqn, &self.rows)
    }
    /// digest of the document cut after `nrows` rows, with or without the sequence number
    fn digest_prefix(&self, seqn: bool, nrows: usize) -> String {
        canon(&self.canon_fields(), if seqn { self.seqn } else { None }, &self.rows[..nrows])
    }
    fn header(&self) -> String {
        self.fields.iter().map(|(n, _, z, w)| format!("{n}!{w}:{z}")).collect::<Vec<_>>().join("|")
    }
}

/// digest of what the code under test returned, through the public accessors only
fn digest_parsed(doc: &BpsvDocument) -> String {
    let fields: Vec<(String, String)> = doc
        .schema()
        .fields()
        .iter()
        .map(|f| {
            let t = match f.field_type {
                BpsvType::String(n) => format!("STRING:{n}"),
                BpsvType::Hex(n) => format!("HEX:{n}"),
                BpsvType::Dec(n) => format!("DEC:{n}"),
            };
            (f.name.clone(), t)
        })
        .collect();
    let rows: Vec<Vec<String>> = doc.rows().iter().map(|r| r.values().iter().map(|v| v.to_string()).collect()).collect();
    canon(&fields, doc.sequence_number(), &rows)
}

fn hex16(tag: &str) -> String {
    md5hex(tag.as_bytes())
}

fn make_doc(cls: &str, ep: &str, p: usize) -> Doc {
    let e = EPS.iter().position(|x| *x == ep).unwrap() + 1;
    let seqn = Some(2_000_000 + (e * 10 + p) as u32);
    match cls {
        "cdns" => Doc {
            fields: vec![
                ("Name".into(), "STRING", 0, "STRING"),
                ("Path".into(), "STRING", 0, "STRING"),
                ("Hosts".into(), "STRING", 0, "STRING"),
                ("Servers".into(), "STRING", 0, "STRING"),
                ("ConfigPath".into(), "STRING", 0, "STRING"),
            ],
            seqn,
            rows: ["us", "eu", "kr", "cn"]
                .iter()
                .map(|r| {
                    vec![
                        r.to_string(),
                        format!("tpr/wow{p}"),
                        format!("{ep}{p}.cdn.example.com level3.example.com"),
                        format!("http://{ep}{p}.cdn.example.com/?maxhosts=4 https://level3.example.com/?fallback=1"),
                        "tpr/configs/data".to_string(),
                    ]
                })
                .collect(),
        },
        "summary" | "certs" => Doc {
            fields: vec![("Product".into(), "STRING", 0, "STRING"), ("Seqn".into(), "DEC", 7, "DEC"), ("Flags".into(), "STRING", 0, "STRING")],
            seqn,
            rows: [("agent", ""), ("wow", "cdn"), ("wowt", "bgdl"), ("wow_classic", "")]
                .iter()
                .enumerate()
                .map(|(i, (n, f))| vec![format!("{n}{}", if cls == "certs" { "_c" } else { "" }), format!("{}", 3_000_000 + e * 1000 + p * 100 + i), f.to_string()])
                .collect(),
        },
        _ => Doc {
            // versions / bgdl; KeyRing is empty, VersionsName is spelled "String" on the wire as the real service does
            fields: vec![
                ("Region".into(), "STRING", 0, "STRING"),
                ("BuildConfig".into(), "HEX", 16, "HEX"),
                ("CDNConfig".into(), "HEX", 16, "HEX"),
                ("KeyRing".into(), "HEX", 16, "HEX"),
                ("BuildId".into(), "DEC", 4, "DEC"),
                ("VersionsName".into(), "STRING", 0, "String"),
                ("ProductConfig".into(), "HEX", 16, "HEX"),
            ],
            seqn,
            rows: ["us", "eu", "kr", "cn"]
                .iter()
                .map(|r| {
                    vec![
                        r.to_string(),
                        hex16(&format!("bc{cls}{ep}{p}{r}")),
                        hex16(&format!("cc{cls}{ep}{p}")),
                        String::new(),
                        format!("{}", 50_000 + e * 100 + p * 10),
                        format!("11.0.{e}.{}", 50_000 + e * 100 + p * 10),
                        hex16(&format!("pc{cls}{ep}{p}")),
                    ]
                })
                .collect(),
        },
    }
}

// --------------------------------------------------------------------------- wire shapes
/// One TCP response as the driver built it: the bytes plus what the monitor needs to know about them.
struct Wire {
    bytes: Vec<u8>,
    /// prefix length p (bytes) -> digest of the document that ends there, for every interior blank line of a raw BPSV text
    prefix: Vec<(usize, String)>,
}

struct BpsvOpts {
    nl: &'static str,
    seqn_footer: bool,
    blank_after_seqn: bool,  // an empty line after the "## seqn" line (header position)
    blank_after_row: Option<usize>, // an empty line after this many rows
    trailing_blank: bool,
    pad_to_512: bool, // a comment line sized so that a two-byte character straddles byte offset 512
    straddle: &'static [usize], // comment lines sized so that a two-byte character straddles these byte offsets
}
const PLAIN: BpsvOpts = BpsvOpts { nl: "\n", seqn_footer: false, blank_after_seqn: false, blank_after_row: None, trailing_blank: false, pad_to_512: false, straddle: &[] };

fn bpsv_text(d: &Doc, o: &BpsvOpts) -> Wire {
    let mut s = String::new();
    let mut prefix = vec![];
    s.push_str(&d.header());
    s.push_str(o.nl);
    let mut seqn_seen = false;
    if !o.seqn_footer && let Some(n) = d.seqn {
        s.push_str(&format!("## seqn = {n}"));
        s.push_str(o.nl);
        seqn_seen = true;
    }
    if o.pad_to_512 {
        // "# " + filler + "é": the first byte of 'é' lands on offset 511, the second on 512
        let need = 511 - s.len() - 2;
        s.push_str("# ");
        s.push_str(&"x".repeat(need));
        s.push('é');
        s.push_str(o.nl);
        assert!(!s.is_char_boundary(512));
    }
    if o.blank_after_seqn {
        s.push_str(o.nl);
        if o.nl == "\n" {
            prefix.push((s.len(), d.digest_prefix(seqn_seen, 0)));
        }
    }
    let mut pending: Vec<usize> = o.straddle.to_vec();
    for (i, r) in d.rows.iter().enumerate() {
        let line = r.join("|");
        if let Some(&off) = pending.first()
            && s.len() + line.len() + o.nl.len() > off - 3
        {
            // "# " + filler + "é": the first byte of 'é' lands on offset off-1, the second on off
            let need = off - 1 - s.len() - 2;
            s.push_str("# ");
            s.push_str(&"x".repeat(need));
            s.push('é');
            s.push_str(o.nl);
            assert!(!s.is_char_boundary(off));
            pending.remove(0);
        }
        s.push_str(&line);
        s.push_str(o.nl);
        if o.blank_after_row == Some(i + 1) {
            s.push_str(o.nl);
            if o.nl == "\n" {
                prefix.push((s.len(), d.digest_prefix(seqn_seen, i + 1)));
            }
        }
    }
    if o.seqn_footer && let Some(n) = d.seqn {
        s.push_str(&format!("## seqn = {n}"));
        s.push_str(o.nl);
    }
    if o.trailing_blank {
        s.push_str(o.nl);
    }
    Wire { bytes: s.into_bytes(), prefix }
}

fn disposition(cls: &str) -> &'static str {
    match cls {
        "cdns" => "cdns",
        "bgdl" => "bgdl",
        "summary" => "summary",
        "certs" => "cert",
        _ => "version",
    }
}

fn mime_text(d: &Doc, cls: &str, nl: &str, disp: Option<&str>, signature: bool, checksum: Option<bool>) -> Wire {
    let b = "cascetteVerifBoundary7f3a";
    let body = bpsv_text(d, &PLAIN);
    let mut s = String::new();
    s.push_str(&format!("MIME-Version: 1.0{nl}Content-Type: multipart/alternative; boundary=\"{b}\"{nl}{nl}"));
    s.push_str(&format!("--{b}{nl}Content-Type: text/plain{nl}Content-Disposition: {}{nl}{nl}", disp.unwrap_or(disposition(cls))));
    s.push_str(std::str::from_utf8(&body.bytes).unwrap());
    s.push_str(nl);
    if signature {
        s.push_str(&format!("--{b}{nl}Content-Type: application/octet-stream{nl}Content-Disposition: signature{nl}{nl}"));
        s.push_str("MIIBVerifNotARealSignatureAAAAAAAAAAAAAAAAAAAAAAAAAAAAAAAAAAAAAAAA");
        s.push_str(nl);
    }
    s.push_str(&format!("--{b}--{nl}"));
    match checksum {
        Some(true) => {
            let c = sha256_hex(s.as_bytes());
            s.push_str(&format!("Checksum: {c}{nl}"));
        }
        Some(false) => {
            let mut c = sha256_hex(s.as_bytes()).into_bytes();
            c[0] = if c[0] == b'0' { b'1' } else { b'0' };
            s.push_str(&format!("Checksum: {}{nl}", String::from_utf8(c).unwrap()));
        }
        None => {}
    }
    Wire { bytes: s.into_bytes(), prefix: vec![] }
}

const SHAPES: [&str; 16] = [
    "bpsv_nn", "bpsv", "bpsv_crlf", "bpsv_footer", "bpsv_blank", "bpsv_blank2", "mime", "mime_lf", "mime_srv", "mime_nosum", "bpsv_utf8", "mime_utf8",
    "mime_lf_utf8", "bpsv_big", "bpsv_u512", "bpsv_big_utf8",
];

fn wire(shape: &str, d: &Doc, cls: &str) -> Wire {
    match shape {
        "bpsv_nn" => bpsv_text(d, &BpsvOpts { trailing_blank: true, ..PLAIN }),
        "bpsv" => bpsv_text(d, &PLAIN),
        "bpsv_crlf" => bpsv_text(d, &BpsvOpts { nl: "\r\n", trailing_blank: true, ..PLAIN }),
        "bpsv_footer" => bpsv_text(d, &BpsvOpts { seqn_footer: true, trailing_blank: true, ..PLAIN }),
        "bpsv_blank" => bpsv_text(d, &BpsvOpts { blank_after_seqn: true, trailing_blank: true, ..PLAIN }),
        "bpsv_blank2" => bpsv_text(d, &BpsvOpts { seqn_footer: true, blank_after_row: Some(2), trailing_blank: true, ..PLAIN }),
        "bpsv_u512" => bpsv_text(d, &BpsvOpts { pad_to_512: true, trailing_blank: true, ..PLAIN }),
        "bpsv_big" => bpsv_text(&shape_doc(shape, d), &BpsvOpts { blank_after_row: Some(200), trailing_blank: true, ..PLAIN }),
        // non-ASCII field values (2-, 3- and 4-byte characters)
        "bpsv_utf8" => bpsv_text(&shape_doc(shape, d), &BpsvOpts { trailing_blank: true, ..PLAIN }),
        "mime_utf8" => mime_text(&shape_doc(shape, d), cls, "\r\n", None, true, Some(true)),
        "mime_lf_utf8" => mime_text(&shape_doc(shape, d), cls, "\n", None, true, Some(true)),
        // long, non-ASCII, and a two-byte character across each of the first 8 KiB read-buffer boundaries
        "bpsv_big_utf8" => bpsv_text(&shape_doc(shape, d), &BpsvOpts { trailing_blank: true, straddle: &[8192, 16384], ..PLAIN }),
        "mime" => mime_text(d, cls, "\r\n", None, true, Some(true)),
        "mime_lf" => mime_text(d, cls, "\n", None, true, Some(true)),
        "mime_srv" => mime_text(d, cls, "\r\n", Some("data"), false, Some(true)),
        "mime_nosum" => mime_text(d, cls, "\r\n", None, true, None),
        "mime_badsum" => mime_text(d, cls, "\r\n", None, true, Some(false)),
        other => panic!("driver: unknown shape {other}"),
    }
}

/// the document a shape carries: the long shapes carry more rows than the base document, the non-ASCII shapes
/// have 2-, 3- and 4-byte characters in the values of the last STRING column of the base rows
fn shape_doc(shape: &str, d: &Doc) -> Doc {
    let mut doc = d.clone();
    if shape.ends_with("utf8") {
        let col = d.fields.iter().rposition(|f| f.1 == "STRING").expect("a STRING column");
        let tails = ["-é", "-한", "-😀", "-éß한😀x"];
        for (i, r) in doc.rows.iter_mut().enumerate() {
            r[col].push_str(tails[i % tails.len()]);
        }
    }
    if shape.starts_with("bpsv_big") {
        let reps = if shape == "bpsv_big_utf8" && d.fields.len() <= 3 { 500 } else { 70 };
        let base = d.rows.clone();
        for i in 0..reps {
            for r in &base {
                let mut r = r.clone();
                r[0] = format!("{}{i}", r[0]);
                doc.rows.push(r);
            }
        }
    }
    doc
}

fn find_ci(hay: &[u8], needle: &[u8]) -> Option<usize> {
    if hay.len() < needle.len() {
        return None;
    }
    (0..=hay.len() - needle.len()).find(|&i| hay[i..i + needle.len()].eq_ignore_ascii_case(needle))
}

/// the response as byte classes: length, positions of LF bytes (1-based = length of the prefix ending with it),
/// the prefix length from which the first 512 bytes carry both MIME markers, and whether offset 512 splits a character
fn resp_info(w: &Wire) -> Value {
    let b = &w.bytes;
    let nl: Vec<usize> = b.iter().enumerate().filter(|(_, c)| **c == b'\n').map(|(i, _)| i + 1).collect();
    let head = &b[..b.len().min(512)];
    let e1 = find_ci(head, b"content-type:").map(|i| i + 13);
    let e2 = [find_ci(head, b"multipart/alternative").map(|i| i + 21), find_ci(head, b"multipart/mixed").map(|i| i + 15)]
        .into_iter()
        .flatten()
        .min();
    let mime_at = match (e1, e2) {
        (Some(a), Some(c)) => a.max(c),
        _ => 0,
    };
    let nb512 = b.len() > 512 && (b[512] & 0xC0) == 0x80;
    let prefix: Vec<Value> = w.prefix.iter().map(|(p, d)| json!([p, d])).collect();
    // cut positions that fall inside a multi-byte character
    let mb: Vec<usize> = (1..b.len()).filter(|&p| (b[p] & 0xC0) == 0x80).collect();
    json!({"len": b.len(), "nl": nl, "mime_at": mime_at, "nb512": nb512, "prefix": prefix, "mb": mb})
}

fn empty_resp() -> Value {
    json!({"len": 0, "nl": [], "mime_at": 0, "nb512": false, "prefix": [], "mb": []})
}

// --------------------------------------------------------------------------- rows
fn paths_of(cls: &str) -> Vec<String> {
    match cls {
        "cdns" => vec!["v1/products/wow/cdns".into(), "v1/products/wowt/cdns".into()],
        "bgdl" => vec!["v1/products/wow/bgdl".into(), "v1/products/wowt/bgdl".into()],
        "summary" => vec!["v1/summary".into(), "v1/ocsp/5168ff90af0207753cccd9656462a212b859723b".into()],
        "certs" => vec!["v1/certs/5168ff90af0207753cccd9656462a212b859723b".into(), "v1/certs/0011223344556677889900aabbccddeeff001122".into()],
        _ => vec!["v1/products/wow/versions".into(), "v1/products/wowt/versions".into()],
    }
}

struct RowCtx {
    cls: String,
    paths: Vec<String>,
    shape: Option<String>, // shape of the TCP response for path 1 (split family); default by behaviour
    cuts: Vec<usize>,
    ip: String,
    beh: Mutex<HashMap<String, String>>,
    log: Mutex<Vec<(String, String)>>,
}

impl RowCtx {
    fn beh_of(&self, ep: &str) -> String {
        self.beh.lock().unwrap().get(ep).cloned().unwrap_or_else(|| "Refused".into())
    }
    fn log(&self, ep: &str, line: &str) {
        self.log.lock().unwrap().push((ep.to_string(), format!("{ep} {line}")));
    }
    fn tcp_shape(&self, beh: &str, p: usize) -> String {
        if p == 1 && let Some(s) = &self.shape {
            return s.clone();
        }
        match beh {
            "OkMime" => "mime".into(),
            "OkMimeLf" => "mime_lf".into(),
            "OkMimeSrv" => "mime_srv".into(),
            "OkBpsvEof" => "bpsv".into(),
            _ => "bpsv_nn".into(),
        }
    }
}

fn is_ok_beh(b: &str) -> bool {
    b.starts_with("Ok")
}

fn segments(bytes: &[u8], cuts: &[usize]) -> Vec<Vec<u8>> {
    let mut out = vec![];
    let mut last = 0usize;
    for &c in cuts {
        if c > last && c < bytes.len() {
            out.push(bytes[last..c].to_vec());
            last = c;
        }
    }
    out.push(bytes[last..].to_vec());
    out
}

async fn send_segments(s: &mut TcpStream, segs: &[Vec<u8>]) {
    for (i, seg) in segs.iter().enumerate() {
        if i > 0 {
            tokio::time::sleep(Duration::from_millis(SEG_PAUSE_MS)).await;
        }
        if s.write_all(seg).await.is_err() {
            return; // the client stopped reading: its business
        }
        let _ = s.flush().await;
    }
}

/// Stall: say nothing and keep the connection until the client gives up.  An HTTP client closes when its
/// time-out fires (read returns 0).  The Ribbit client half-closes right after its command, so there the end of
/// its stream means nothing: the socket is simply kept for longer than the client's 30 s read time-out.
async fn hold_until_closed(s: &mut TcpStream, half_closed_peer: bool) {
    let mut buf = [0u8; 256];
    let _ = tokio::time::timeout(Duration::from_secs(120), async {
        loop {
            match s.read(&mut buf).await {
                Ok(0) if half_closed_peer => {
                    tokio::time::sleep(Duration::from_secs(45)).await;
                    break;
                }
                Ok(0) | Err(_) => break,
                Ok(_) => {}
            }
        }
    })
    .await;
}

fn malformed_body(beh: &str) -> Vec<u8> {
    match beh {
        "MalformedEmpty" => vec![],
        "MalformedRow" => b"Region!STRING:0|BuildId!DEC:4\nus|1|extra|fields\n".to_vec(),
        "MalformedBin" => vec![0xff, 0xfe, 0x00, 0x81, b'\n', 0xc3, 0x28, b'\n'],
        "MalformedHtml" => b"<!DOCTYPE html>\n<html><body><h1>It works!</h1></body></html>\n".to_vec(),
        "MalformedDec" => b"Region!STRING:0|BuildId!DEC:4\nus|notanumber\n".to_vec(),
        _ => b"this is not a bpsv document\n".to_vec(),
    }
}

/// status code and, for the 429 family, the bytes of the `Retry-After` value: a class alphabet of what servers and
/// gateways put there (seconds, zero, HTTP-date, fractional, with a unit, negative, empty, non-ASCII)
fn status_of(beh: &str) -> Option<(u16, Option<&'static [u8]>)> {
    let ra: Option<&'static [u8]> = match beh {
        "H429RA" => Some(b"1"),
        "H429RA0" => Some(b"0"),
        "H429RA120" => Some(b"120"),
        "H429RADate" => Some(b"Wed, 21 Oct 2026 07:28:00 GMT"),
        "H429RAFrac" => Some(b"1.5"),
        "H429RAUnit" => Some(b"30s"),
        "H429RANeg" => Some(b"-1"),
        "H429RAEmpty" => Some(b""),
        "H429RABin" => Some(b"\xe9\xff soon"),
        _ => None,
    };
    if ra.is_some() {
        return Some((429, ra));
    }
    beh.strip_prefix('H').and_then(|c| c.parse::<u16>().ok()).map(|c| (c, None))
}

fn reason(code: u16) -> &'static str {
    match code {
        200 => "OK",
        400 => "Bad Request",
        401 => "Unauthorized",
        403 => "Forbidden",
        404 => "Not Found",
        410 => "Gone",
        429 => "Too Many Requests",
        500 => "Internal Server Error",
        502 => "Bad Gateway",
        503 => "Service Unavailable",
        504 => "Gateway Timeout",
        _ => "Status",
    }
}

async fn read_head(s: &mut TcpStream, until: &[u8]) -> Vec<u8> {
    let mut head = vec![];
    let mut buf = [0u8; 2048];
    let _ = tokio::time::timeout(Duration::from_secs(60), async {
        loop {
            match s.read(&mut buf).await {
                Ok(0) | Err(_) => break,
                Ok(n) => {
                    head.extend_from_slice(&buf[..n]);
                    if head.windows(until.len()).any(|w| w == until) || head.len() > 32768 {
                        break;
                    }
                }
            }
        }
    })
    .await;
    head
}

async fn http_conn(mut s: TcpStream, ep: &'static str, row: Arc<RowCtx>) {
    let _ = s.set_nodelay(true);
    let head = read_head(&mut s, b"\r\n\r\n").await;
    if head.is_empty() {
        return; // a connection that never carried a request is not a contact
    }
    let text = String::from_utf8_lossy(&head);
    let line = text.lines().next().unwrap_or("").to_string();
    row.log(ep, &line);
    let path = line.split(' ').nth(1).unwrap_or("").to_string();
    let p = row.paths.iter().position(|full| {
        let t = full.strip_prefix("v1/products").unwrap_or(full);
        path == t || path == format!("/{full}")
    });
    let beh = row.beh_of(ep);
    let Some(p) = p.map(|i| i + 1) else {
        let _ = s.write_all(b"HTTP/1.1 404 Not Found\r\nContent-Length: 12\r\nConnection: close\r\n\r\nunknown path").await;
        let _ = s.shutdown().await;
        return;
    };
    if let Some((code, ra)) = status_of(&beh) {
        let body = format!("status {code}\n");
        let mut h = format!("HTTP/1.1 {code} {}\r\nContent-Type: text/plain\r\nContent-Length: {}\r\nConnection: close\r\n", reason(code), body.len())
            .into_bytes();
        if let Some(ra) = ra {
            h.extend_from_slice(b"Retry-After: ");
            h.extend_from_slice(ra);
            h.extend_from_slice(b"\r\n");
        }
        h.extend_from_slice(b"\r\n");
        let _ = s.write_all(&h).await;
        let _ = s.write_all(body.as_bytes()).await;
        let _ = s.shutdown().await;
        return;
    }
    let ok_head = |n: usize| format!("HTTP/1.1 200 OK\r\nContent-Type: text/plain\r\nContent-Length: {n}\r\nConnection: close\r\n\r\n");
    if is_ok_beh(&beh) {
        let body = bpsv_text(&make_doc(&row.cls, ep, p), &PLAIN).bytes;
        let _ = s.write_all(ok_head(body.len()).as_bytes()).await;
        let _ = s.flush().await;
        send_segments(&mut s, &segments(&body, if p == 1 { &row.cuts } else { &[] })).await;
        let _ = s.shutdown().await;
    } else if beh.starts_with("Malformed") {
        let body = malformed_body(&beh);
        let _ = s.write_all(ok_head(body.len()).as_bytes()).await;
        let _ = s.write_all(&body).await;
        let _ = s.shutdown().await;
    } else if beh == "ClosedMid" {
        let body = bpsv_text(&make_doc(&row.cls, ep, p), &PLAIN).bytes;
        let _ = s.write_all(ok_head(body.len()).as_bytes()).await;
        let _ = s.write_all(&body[..body.len() / 2]).await;
        let _ = s.flush().await;
        let _ = s.shutdown().await;
    } else if beh == "ClosedHead" {
        let _ = s.write_all(b"HTTP/1.1 200 OK\r\nContent-Ty").await;
        let _ = s.shutdown().await;
    } else if beh == "ClosedEmpty" {
        let _ = s.shutdown().await;
    } else if beh == "Stall" {
        hold_until_closed(&mut s, false).await;
    } else {
        panic!("driver: unknown http behaviour {beh}");
    }
}

async fn tcp_conn(mut s: TcpStream, row: Arc<RowCtx>) {
    let _ = s.set_nodelay(true);
    let head = read_head(&mut s, b"\n").await;
    if head.is_empty() {
        return;
    }
    let cmd = String::from_utf8_lossy(&head).trim().to_string();
    row.log("tcp", &cmd);
    let beh = row.beh_of("tcp");
    let p = row.paths.iter().position(|x| *x == cmd).map(|i| i + 1);
    let Some(p) = p else {
        let _ = s.shutdown().await;
        return;
    };
    if is_ok_beh(&beh) {
        let shape = row.tcp_shape(&beh, p);
        let w = wire(&shape, &make_doc(&row.cls, "tcp", p), &row.cls);
        send_segments(&mut s, &segments(&w.bytes, if p == 1 { &row.cuts } else { &[] })).await;
        let _ = s.shutdown().await;
    } else if beh == "MalformedSum" {
        let w = wire("mime_badsum", &make_doc(&row.cls, "tcp", p), &row.cls);
        let _ = s.write_all(&w.bytes).await;
        let _ = s.shutdown().await;
    } else if beh.starts_with("Malformed") {
        let mut body = malformed_body(&beh);
        body.extend_from_slice(b"\n");
        let _ = s.write_all(&body).await;
        let _ = s.shutdown().await;
    } else if beh == "ClosedMid" {
        let w = wire(&row.tcp_shape("OkMime", 2), &make_doc(&row.cls, "tcp", p), &row.cls);
        let _ = s.write_all(&w.bytes[..w.bytes.len() / 2]).await;
        let _ = s.shutdown().await;
    } else if beh == "ClosedMidBpsv" {
        let w = wire("bpsv_nn", &make_doc(&row.cls, "tcp", p), &row.cls);
        let _ = s.write_all(&w.bytes[..w.bytes.len() / 2]).await;
        let _ = s.shutdown().await;
    } else if beh == "ClosedEmpty" {
        let _ = s.shutdown().await;
    } else if beh == "Stall" {
        hold_until_closed(&mut s, true).await;
    } else {
        panic!("driver: unknown tcp behaviour {beh}");
    }
}

enum Endpoint {
    Listening(tokio::task::JoinHandle<()>),
    Refusing(#[allow(dead_code)] TcpSocket),
}
impl Drop for Endpoint {
    fn drop(&mut self) {
        if let Endpoint::Listening(h) = self {
            h.abort();
        }
    }
}

/// start one mock; returns its port
/// Every row gets its own loopback address (all of 127.0.0.0/8 is local): a socket bound to 127.13.a.b cannot be
/// reached through 127.0.0.1, so a stray request of another process on this machine (a late client of a server that
/// used to own the port) never shows up in a mock's request log.
fn row_ip(idx: usize) -> String {
    format!("127.13.{}.{}", 1 + std::process::id() % 250, 1 + idx % 250)
}

async fn start_mock(ep: &'static str, refuse: bool, row: Arc<RowCtx>) -> (u16, Endpoint) {
    if refuse {
        let sock = TcpSocket::new_v4().expect("socket");
        sock.bind(format!("{}:0", row.ip).parse().unwrap()).expect("bind");
        let port = sock.local_addr().expect("addr").port();
        return (port, Endpoint::Refusing(sock));
    }
    let l = TcpListener::bind(format!("{}:0", row.ip)).await.expect("bind mock");
    let port = l.local_addr().expect("addr").port();
    let h = tokio::spawn(async move {
        loop {
            let Ok((s, _)) = l.accept().await else { continue };
            let row = row.clone();
            tokio::spawn(async move {
                if ep == "tcp" {
                    tcp_conn(s, row).await;
                } else {
                    http_conn(s, ep, row).await;
                }
            });
        }
    });
    (port, Endpoint::Listening(h))
}

fn err_kind(e: &ProtocolError) -> &'static str {
    match e {
        ProtocolError::Network(_) => "Network",
        ProtocolError::Http(_) => "Http",
        ProtocolError::Parse(_) => "Parse",
        ProtocolError::Cache(_) => "Cache",
        ProtocolError::AllHostsFailed => "AllHostsFailed",
        ProtocolError::RateLimited { .. } => "RateLimited",
        ProtocolError::ServiceUnavailable => "ServiceUnavailable",
        ProtocolError::HttpStatus(_) => "HttpStatus",
        ProtocolError::ServerError(_) => "ServerError",
        ProtocolError::InvalidKey => "InvalidKey",
        ProtocolError::InvalidEndpoint(_) => "InvalidEndpoint",
        ProtocolError::RangeNotSupported => "RangeNotSupported",
        ProtocolError::Timeout => "Timeout",
        ProtocolError::Other(_) => "Other",
        ProtocolError::Utf8(_) => "Utf8",
        ProtocolError::UnsupportedOnWasm(_) => "UnsupportedOnWasm",
    }
}

fn short(s: String) -> String {
    s.chars().take(160).collect()
}

fn beh_map(v: &Value) -> HashMap<String, String> {
    let mut m = HashMap::new();
    for ep in EPS {
        m.insert(ep.to_string(), v[ep].as_str().unwrap_or("Refused").to_string());
    }
    m
}

fn scratch() -> std::path::PathBuf {
    let p = std::path::Path::new("/dev/shm");
    if p.is_dir() { p.to_path_buf() } else { std::env::temp_dir() }
}

async fn run_query_row(prog: &Value, idx: usize) -> Vec<Value> {
    let mut evs = vec![];
    let cls = prog["cls"].as_str().unwrap_or("versions").to_string();
    let cache_kind = prog["cache"].as_str().unwrap_or("mem").to_string();
    let ttl_kind = prog["ttl"].as_str().unwrap_or("long").to_string();
    let beh1 = beh_map(&prog["beh"]);
    let beh2 = if prog.get("beh2").is_some_and(|b| b.is_object()) { beh_map(&prog["beh2"]) } else { beh1.clone() };
    let cuts: Vec<usize> = prog["cuts"].as_array().map(|a| a.iter().map(|x| x.as_u64().unwrap() as usize).collect()).unwrap_or_default();
    let shape = prog["shape"].as_str().filter(|s| !s.is_empty()).map(|s| s.to_string());
    let row = Arc::new(RowCtx {
        cls: cls.clone(),
        paths: paths_of(&cls),
        shape: shape.clone(),
        cuts: cuts.clone(),
        ip: row_ip(idx),
        beh: Mutex::new(beh1.clone()),
        log: Mutex::new(vec![]),
    });
    // an endpoint refuses for the whole row (a port cannot change between listening and refusing without a gap)
    let mut ports = vec![];
    let mut keep = vec![];
    for ep in EPS {
        let refuse = beh1[ep] == "Refused";
        assert!(refuse == (beh2[ep] == "Refused"), "driver: Refused must not change within a row");
        let (port, e) = start_mock(ep, refuse, row.clone()).await;
        ports.push(port);
        keep.push(e);
    }
    let dir = tempfile::Builder::new().prefix("c13-").tempdir_in(scratch()).expect("tempdir");
    let ttl = match ttl_kind.as_str() {
        "short" => Duration::from_millis(SHORT_TTL_MS),
        "mid" | "cls" => Duration::from_millis(MID_TTL_MS),
        _ => Duration::from_secs(LONG_TTL_S),
    };
    // "cls": the three time-to-live fields differ, so which of them an endpoint class gets is visible
    let (cdn_ttl, config_ttl) = if ttl_kind == "cls" { (Duration::from_millis(CLS_CDN_TTL_MS), Duration::from_millis(CLS_CONFIG_TTL_MS)) } else { (ttl, ttl) };
    let row_start = std::time::Instant::now();
    let cfg = ClientConfig {
        tact_https_url: format!("http://{}:{}", row.ip, ports[0]),
        tact_http_url: format!("http://{}:{}", row.ip, ports[1]),
        ribbit_url: format!("tcp://{}:{}", row.ip, ports[2]),
        cache_config: CacheConfig {
            cache_dir: if cache_kind == "disk" { Some(dir.path().join("cache")) } else { None },
            ribbit_ttl: ttl,
            cdn_ttl,
            config_ttl,
            ..CacheConfig::default()
        },
        ..ClientConfig::default()
    };
    // what each mock serves, as canonical digests from the driver's own table
    let mut docs = Map::new();
    for ep in EPS {
        let mut v = vec![];
        for p in 1..=row.paths.len() {
            let base = make_doc(&cls, ep, p);
            let d = if ep == "tcp" && is_ok_beh(&beh1[ep]) { shape_doc(&row.tcp_shape(&beh1[ep], p), &base) } else { base };
            v.push(json!(d.digest()));
        }
        docs.insert(ep.to_string(), json!(v));
    }
    let mut resp = if is_ok_beh(&beh1["tcp"]) {
        resp_info(&wire(&row.tcp_shape(&beh1["tcp"], 1), &make_doc(&cls, "tcp", 1), &cls))
    } else {
        empty_resp()
    };
    resp["mb"] = json!([]); // only the row generator needs these positions
    evs.push(json!({"op": "new", "fam": prog["fam"], "cache": cache_kind, "ttl": ttl_kind, "cls": cls, "beh": beh1, "beh2": beh2,
                    "docs": docs, "resp": resp, "cuts": cuts, "shape": shape.clone().unwrap_or_default()}));
    let mut client = match RibbitTactClient::new(cfg.clone()) {
        Ok(c) => Arc::new(c),
        Err(e) => {
            evs.push(json!({"op": "client_failed", "seq": 1, "msg": short(e.to_string())}));
            return evs;
        }
    };
    let mut seq = 0u64;
    for op in prog["ops"].as_array().unwrap() {
        seq += 1;
        let mut ev = op.clone();
        ev["seq"] = json!(seq);
        match op["op"].as_str().unwrap() {
            "query" => {
                let p = op["p"].as_u64().unwrap() as usize;
                let path = row.paths[p - 1].clone();
                let mark = row.log.lock().unwrap().len();
                let c = client.clone();
                let t0 = std::time::Instant::now();
                ev["t0"] = json!(row_start.elapsed().as_millis() as u64);
                let h = tokio::spawn(async move { c.query(&path).await });
                let res = match tokio::time::timeout(Duration::from_secs(QUERY_WATCHDOG_S), h).await {
                    Ok(Ok(Ok(doc))) => json!({"class": "ok", "digest": digest_parsed(&doc), "rows": doc.rows().len()}),
                    Ok(Ok(Err(e))) => json!({"class": "err", "kind": err_kind(&e), "msg": short(e.to_string())}),
                    Ok(Err(j)) => {
                        let msg = if j.is_panic() {
                            let pl = j.into_panic();
                            pl.downcast_ref::<String>().cloned().or_else(|| pl.downcast_ref::<&str>().map(|s| (*s).to_string())).unwrap_or_else(|| "panic".into())
                        } else {
                            "cancelled".into()
                        };
                        json!({"class": "panic", "msg": short(msg)})
                    }
                    Err(_) => json!({"class": "hang"}),
                };
                let log: Vec<(String, String)> = row.log.lock().unwrap()[mark..].to_vec();
                ev["res"] = res;
                ev["ms"] = json!(t0.elapsed().as_millis() as u64);
                ev["t1"] = json!(row_start.elapsed().as_millis() as u64 + 1); // rounded up
                ev["contacted"] = json!(log.iter().map(|(e, _)| e.clone()).collect::<Vec<_>>());
                ev["log"] = json!(log.iter().map(|(_, l)| l.clone()).collect::<Vec<_>>());
            }
            "tick" => tokio::time::sleep(Duration::from_millis(TICK_MS)).await,
            "wait" => tokio::time::sleep(Duration::from_millis(op["ms"].as_u64().unwrap())).await,
            "reopen" => match RibbitTactClient::new(cfg.clone()) {
                Ok(c) => client = Arc::new(c),
                Err(e) => {
                    ev["op"] = json!("client_failed");
                    ev["msg"] = json!(short(e.to_string()));
                    evs.push(ev);
                    return evs;
                }
            },
            "flip" => *row.beh.lock().unwrap() = beh2.clone(),
            other => panic!("driver: unknown op {other}"),
        }
        evs.push(ev);
    }
    drop(keep);
    evs
}

// --------------------------------------------------------------------------- CDN download rows
struct CdnCtx {
    script: Vec<u16>,
    ra: Option<String>,
    seen: Mutex<HashMap<String, usize>>, // requests per URL path
    reqs: Mutex<Vec<(String, u16)>>,
}

fn cdn_key(k: usize) -> Vec<u8> {
    md5::compute(format!("c13-cdn-key-{k}")).0.to_vec()
}
fn cdn_body(k: usize) -> Vec<u8> {
    let mut r = Rng::new(0xC13 + k as u64);
    r.bytes(300 + 37 * k)
}

async fn cdn_conn(mut s: TcpStream, ctx: Arc<CdnCtx>) {
    let _ = s.set_nodelay(true);
    let head = read_head(&mut s, b"\r\n\r\n").await;
    if head.is_empty() {
        return;
    }
    let text = String::from_utf8_lossy(&head);
    let path = text.lines().next().unwrap_or("").split(' ').nth(1).unwrap_or("").to_string();
    let i = {
        let mut seen = ctx.seen.lock().unwrap();
        let c = seen.entry(path.clone()).or_insert(0);
        *c += 1;
        *c
    };
    let code = ctx.script[(i - 1).min(ctx.script.len() - 1)];
    ctx.reqs.lock().unwrap().push((path.clone(), code));
    let k = (1..=3).find(|k| path.ends_with(&hex::encode(cdn_key(*k))));
    let body = if code == 200 { k.map(cdn_body).unwrap_or_default() } else { format!("status {code}\n").into_bytes() };
    let mut h = format!("HTTP/1.1 {code} {}\r\nContent-Type: application/octet-stream\r\nContent-Length: {}\r\nConnection: close\r\n", reason(code), body.len());
    if code == 429 && let Some(ra) = &ctx.ra {
        h.push_str(&format!("Retry-After: {ra}\r\n"));
    }
    h.push_str("\r\n");
    let _ = s.write_all(h.as_bytes()).await;
    let _ = s.write_all(&body).await;
    let _ = s.shutdown().await;
}

async fn run_cdn_row(prog: &Value, idx: usize) -> Vec<Value> {
    let ip = row_ip(idx);
    let mut evs = vec![];
    let script: Vec<u16> = prog["script"].as_array().unwrap().iter().map(|x| x.as_u64().unwrap() as u16).collect();
    let ra = prog["ra"].as_str().filter(|s| *s != "none").map(|s| s.to_string());
    let cache_kind = prog["cache"].as_str().unwrap_or("disk").to_string();
    let ctx = Arc::new(CdnCtx { script: script.clone(), ra: ra.clone(), seen: Mutex::new(HashMap::new()), reqs: Mutex::new(vec![]) });
    let l = TcpListener::bind(format!("{ip}:0")).await.expect("bind cdn mock");
    let port = l.local_addr().unwrap().port();
    let c2 = ctx.clone();
    let acc = tokio::spawn(async move {
        loop {
            let Ok((s, _)) = l.accept().await else { continue };
            tokio::spawn(cdn_conn(s, c2.clone()));
        }
    });
    let dir = tempfile::Builder::new().prefix("c13-").tempdir_in(scratch()).expect("tempdir");
    let long = Duration::from_secs(LONG_TTL_S);
    let ccfg = CacheConfig {
        cache_dir: if cache_kind == "disk" { Some(dir.path().join("cache")) } else { None },
        ribbit_ttl: long,
        cdn_ttl: long,
        config_ttl: long,
        ..CacheConfig::default()
    };
    let bodies: Vec<String> = (1..=3).map(|k| md5hex(&cdn_body(k))).collect();
    evs.push(json!({"op": "new", "fam": "cdn", "cache": cache_kind, "script": script, "ra": ra.clone().unwrap_or_else(|| "none".into()), "bodies": bodies}));
    let mk = |cfg: &CacheConfig| -> Result<Arc<CdnClient>, String> {
        let cache = cascette_protocol::cache::ProtocolCache::new(cfg).map_err(|e| e.to_string())?;
        CdnClient::new(Arc::new(cache), CdnConfig::default()).map(Arc::new).map_err(|e| e.to_string())
    };
    let mut client = match mk(&ccfg) {
        Ok(c) => c,
        Err(e) => {
            evs.push(json!({"op": "client_failed", "seq": 1, "msg": short(e)}));
            acc.abort();
            return evs;
        }
    };
    let endpoint = CdnEndpoint {
        host: format!("{ip}:{port}"),
        path: "tpr/wow".into(),
        product_path: None,
        scheme: Some("http".into()),
        is_fallback: false,
        strict: false,
        max_hosts: None,
    };
    let mut seq = 0u64;
    for op in prog["ops"].as_array().unwrap() {
        seq += 1;
        let mut ev = op.clone();
        ev["seq"] = json!(seq);
        match op["op"].as_str().unwrap() {
            "download" => {
                let k = op["k"].as_u64().unwrap() as usize;
                let mark = ctx.reqs.lock().unwrap().len();
                let c = client.clone();
                let ep = endpoint.clone();
                let h = tokio::spawn(async move { c.download(&ep, ContentType::Data, &cdn_key(k)).await });
                let res = match tokio::time::timeout(Duration::from_secs(QUERY_WATCHDOG_S), h).await {
                    Ok(Ok(Ok(b))) => json!({"class": "ok", "digest": md5hex(&b), "len": b.len()}),
                    Ok(Ok(Err(e))) => json!({"class": "err", "kind": err_kind(&e), "msg": short(e.to_string())}),
                    Ok(Err(_)) => json!({"class": "panic", "msg": "panic in download"}),
                    Err(_) => json!({"class": "hang"}),
                };
                ev["res"] = res;
                let reqs: Vec<(String, u16)> = ctx.reqs.lock().unwrap()[mark..].to_vec();
                let keyhex = hex::encode(cdn_key(k));
                ev["reqs"] = json!(reqs.iter().filter(|(p, _)| p.ends_with(&keyhex)).map(|(_, c)| *c).collect::<Vec<_>>());
                ev["other_reqs"] = json!(reqs.iter().filter(|(p, _)| !p.ends_with(&keyhex)).count());
            }
            "reopen" => match mk(&ccfg) {
                Ok(c) => client = c,
                Err(e) => {
                    ev["op"] = json!("client_failed");
                    ev["msg"] = json!(short(e));
                    evs.push(ev);
                    acc.abort();
                    return evs;
                }
            },
            other => panic!("driver: unknown cdn op {other}"),
        }
        evs.push(ev);
    }
    acc.abort();
    evs
}

// --------------------------------------------------------------------------- random rows (seeded)
fn random_row(rng: &mut Rng) -> Value {
    if rng.chance(1, 8) {
        let n = 1 + rng.below(4) as usize;
        let mut script = vec![];
        for i in 0..n {
            let last = i + 1 == n;
            let c = if last { *rng.pick(&[200u16, 200, 404, 403, 410, 503, 429]) } else { *rng.pick(&[500u16, 502, 503, 504, 429]) };
            script.push(c);
        }
        let mut ops = vec![];
        for _ in 0..(2 + rng.below(3)) {
            if rng.chance(1, 5) {
                ops.push(json!({"op": "reopen"}));
            }
            ops.push(json!({"op": "download", "k": 1 + rng.below(2)}));
        }
        let cache = if ops.iter().any(|o| o["op"] == "reopen") || rng.chance(1, 2) { "disk" } else { "mem" };
        return json!({"fam": "cdn", "cache": cache, "script": script, "ra": "0", "ops": ops});
    }
    let http = [
        "OkBpsv", "OkBpsv", "H500", "H502", "H503", "H504", "H429", "H429RA", "H429RA0", "H429RA120", "H429RADate", "H429RAFrac", "H429RAUnit", "H429RANeg", "H429RAEmpty", "H429RABin", "H400", "H401", "H403", "H404", "H410", "Malformed", "MalformedEmpty",
        "MalformedRow", "MalformedBin", "MalformedHtml", "MalformedDec", "Refused", "ClosedMid", "ClosedHead", "ClosedEmpty",
    ];
    let tcp = ["OkBpsv", "OkBpsvEof", "OkMime", "OkMimeLf", "OkMimeSrv", "Malformed", "MalformedSum", "MalformedRow", "MalformedBin", "Refused", "ClosedMid", "ClosedMidBpsv", "ClosedEmpty"];
    let cls = *rng.pick(&["versions", "versions", "cdns", "bgdl", "summary", "certs"]);
    let mut beh = Map::new();
    beh.insert("https".into(), json!(*rng.pick(&http)));
    beh.insert("http".into(), json!(*rng.pick(&http)));
    beh.insert("tcp".into(), json!(*rng.pick(&tcp)));
    let mut beh2 = Map::new();
    for ep in EPS {
        let b = beh[ep].as_str().unwrap();
        let pool: &[&str] = if ep == "tcp" { &tcp } else { &http };
        let nb = if b == "Refused" {
            "Refused".to_string()
        } else {
            loop {
                let c = *rng.pick(pool);
                if c != "Refused" {
                    break c.to_string();
                }
            }
        };
        beh2.insert(ep.into(), json!(nb));
    }
    let disk = rng.chance(1, 2);
    let ttl_kind = *rng.pick(&["long", "long", "short", "short", "mid", "cls"]);
    let short = ttl_kind == "short";
    let mid = ttl_kind == "mid" || ttl_kind == "cls";
    let mut ops = vec![json!({"op": "query", "p": 1})];
    let n = 2 + rng.below(5);
    let mut last = "query";
    for _ in 0..n {
        let c = rng.below(10);
        let op = if c < 5 {
            json!({"op": "query", "p": 1 + rng.below(2)})
        } else if c < 7 && short && last != "tick" {
            json!({"op": "tick"})
        } else if c < 8 && mid {
            json!({"op": "wait", "ms": if ttl_kind == "cls" && rng.chance(1, 2) { 1000 } else { 400 }})
        } else if c < 8 && disk && last != "reopen" {
            json!({"op": "reopen"})
        } else if c < 9 && last != "flip" {
            json!({"op": "flip"})
        } else {
            json!({"op": "query", "p": 1})
        };
        last = match op["op"].as_str().unwrap() {
            "query" => "query",
            "tick" => "tick",
            "wait" => "wait",
            "reopen" => "reopen",
            _ => "flip",
        };
        ops.push(op);
    }
    ops.push(json!({"op": "query", "p": 1}));
    let mut row = json!({"fam": "random", "cache": if disk { "disk" } else { "mem" }, "ttl": ttl_kind, "cls": cls,
                         "beh": beh, "beh2": beh2, "ops": ops});
    if is_ok_beh(row["beh"]["tcp"].as_str().unwrap()) && rng.chance(1, 3) {
        let shape = *rng.pick(&SHAPES[..13]);
        let len = wire(shape, &make_doc(cls, "tcp", 1), cls).bytes.len() as u64;
        let mut cuts: Vec<u64> = (0..1 + rng.below(3)).map(|_| 1 + rng.below(len - 1)).collect();
        cuts.sort_unstable();
        cuts.dedup();
        row["shape"] = json!(shape);
        row["cuts"] = json!(cuts);
    }
    row
}

// --------------------------------------------------------------------------- main
fn main() {
    // the mocks are on loopback: no proxy may be consulted
    for v in ["http_proxy", "https_proxy", "HTTP_PROXY", "HTTPS_PROXY", "all_proxy", "ALL_PROXY"] {
        // SAFETY: single-threaded at this point
        #[allow(unsafe_code)]
        unsafe {
            std::env::remove_var(v);
        }
    }
    let args: Vec<String> = std::env::args().collect();
    assert_eq!(sha256_hex(b"abc"), "ba7816bf8f01cfea414140de5dae2223b00361a396177a9cb410ff61f20015ad");
    if let Some(cls) = arg(&args, "--dump-shapes") {
        let mut out = Out::stdout();
        for s in SHAPES {
            let w = wire(s, &make_doc(&cls, "tcp", 1), &cls);
            let mut v = resp_info(&w);
            v["shape"] = json!(s);
            // prefix digests are not needed by the model; keep the positions only
            v["blank"] = json!(w.prefix.iter().map(|(p, _)| *p).collect::<Vec<_>>());
            v.as_object_mut().unwrap().remove("prefix");
            out.ev(&v);
        }
        out.flush();
        return;
    }
    // injectivity of the concretisation: all documents distinguishable
    {
        let mut seen = std::collections::HashSet::new();
        for cls in ["versions", "cdns", "bgdl", "summary", "certs"] {
            for ep in EPS {
                for p in 1..=2 {
                    assert!(seen.insert(make_doc(cls, ep, p).digest()), "driver: two documents collide");
                }
            }
        }
    }
    quiet_panics();
    let mut out = Out::from_arg(arg(&args, "--out").as_ref());
    let mut programs = vec![];
    if let Some(p) = arg(&args, "--programs") {
        programs = read_programs(&p);
    }
    let nrand = arg_u64(&args, "--random", 0);
    if nrand > 0 {
        let mut rng = Rng::new(seed_from_env() ^ 0xC13);
        let mut dump = arg(&args, "--dump-programs").map(|p| Out::to_path(std::path::Path::new(&p)));
        for _ in 0..nrand {
            let prog = random_row(&mut rng);
            if let Some(d) = dump.as_mut() {
                d.ev(&prog);
            }
            programs.push(prog);
        }
    }
    let workers = std::env::var("VERIF_WORKERS").ok().and_then(|s| s.parse::<usize>().ok()).filter(|n| *n > 0).unwrap_or(8).min(16);
    let conc = arg_u64(&args, "--conc", (workers * 6) as u64) as usize;
    let rt = tokio::runtime::Builder::new_multi_thread().worker_threads(workers).enable_all().build().expect("tokio runtime");
    let n = programs.len();
    let programs = Arc::new(programs);
    let results: Arc<Mutex<Vec<Option<Vec<Value>>>>> = Arc::new(Mutex::new(vec![None; n]));
    let next = Arc::new(std::sync::atomic::AtomicUsize::new(0));
    rt.block_on(async {
        let mut hs = vec![];
        for _ in 0..conc.max(1) {
            let (programs, results, next) = (programs.clone(), results.clone(), next.clone());
            hs.push(tokio::spawn(async move {
                loop {
                    let i = next.fetch_add(1, std::sync::atomic::Ordering::SeqCst);
                    if i >= programs.len() {
                        break;
                    }
                    let prog = programs[i].clone();
                    let evs = if prog["fam"] == "cdn" { run_cdn_row(&prog, i).await } else { run_query_row(&prog, i).await };
                    results.lock().unwrap()[i] = Some(evs);
                }
            }));
        }
        for h in hs {
            h.await.expect("driver: worker task failed");
        }
    });
    let mut hangs = 0u64;
    let mut done = 0u64;
    for r in results.lock().unwrap().iter() {
        if let Some(evs) = r {
            done += 1;
            for e in evs {
                if e["res"]["class"] == "hang" {
                    hangs += 1;
                }
                out.ev(e);
            }
        }
    }
    out.flush();
    eprintln!("{}", json!({"programs": done, "events": out.events, "hangs": hangs, "skipped": (n as u64) - done}));
    // mocks and reqwest pools are torn down with the process
    std::process::exit(if done as usize == n { 0 } else { 3 });
}
