//! X12 driver: CDN path cache / URL builder (cdn/streaming/path.rs), CDN bootstrap (cdn/streaming/bootstrap.rs) and the
//! configuration structures (cdn/streaming/config.rs, config.rs) of cascette-protocol (feature `streaming`).
//!
//! usage: drv_pathcache --programs <file> --out <file>
//!        drv_pathcache --random N --out <file> [--dump-programs <file>]     (seeded by VERIF_SEED)
//!
//! A program is {"fam":F,..}; families:
//!
//!  cache {cfg:{ctor:"direct"|"runtime"|"setters", ttl:T, val:B}, U:[product..], ops:[..]}
//!        T (microseconds): -1 = no TTL, -2 = Duration::MAX, otherwise the TTL itself (0 allowed).
//!        One CdnUrlBuilder owns the CdnPathCache; the cache is reached through cache()/cache_mut().
//!        ops  set {p,path,via:"c"|"b"}       CdnPathCache::set / CdnUrlBuilder::cache_path
//!             rm {p} | clear | cleanup {via} | clone (continue on a clone of the builder)
//!             bulk {pairs:[{p,path}..],rep}  bulk_update(map, replace_all)
//!             boot {pairs:[{p,path}..],force,via}   update_from_bootstrap(CdnBootstrap{paths}, force)
//!             ttl {ttl:T} | val {b} | sleep {ms}
//!        Every event carries [t0,t1] (microseconds on the driver's monotonic clock, floor / floor+1) around the call
//!        and an observation block obs {o0,o1, get, gb, exp, url, ents, vlen, stats, hasv, gnc, len, empty} read through
//!        the public API right after the call (per product of U: get, get_cached_path, is_expired,
//!        build_url_for_product, get_without_ttl_check; Option<String> is [] / [s]; url is [] for Err(Configuration),
//!        [url] for Ok, ["!.."] for anything else).
//!  url   {calls:[{f:"build"|"pcfg"|"dirs"|"prod", server, path, ct, hash | hsym, https, cached}..]}
//!        hsym names a non-ASCII hash the model checker cannot print (expanded here); every string the judge has to look
//!        into is also logged as an array of characters (pc, hc) with the UTF-8 length of each character (hn).
//!  boot  {src:{parse:{hdr:[col..],rows:[[field..]..],filter:[]|[s],seqn:B}} | {mk:{servers:[[host,https,prio]..],paths:[[k,v]..],official:B}}
//!             | {fallback:true} | {raw:"text"}, qs:[{q:"getpath",p} | {q:"primary"} | {q:"stats"} | {q:"validate"}
//!             | {q:"merge",fbk:"fallback"|"custom",fb:{servers,paths}} | {q:"runtime"} | {q:"cfgupd",base} | {q:"cfgfrom",base}
//!             | {q:"cfgrm",base,hosts:[..]} | {q:"cfgmerge",base,servers:[..]} | {q:"cfgprio",base,upd:[[host,prio]..]}]}
//!        priorities: u32::MAX travels as -1 in programs and is logged as 2^30 ("huge"); anything >= 2^30 is logged as 2^30.
//!        The source is built REPS times (HashMap iteration order differs between instances); getpath logs every answer.
//!  cfg   {base:preset, set:[[field,sym]..]}        StreamingConfig / CdnConfig presets with public fields overwritten;
//!        logs the fields validate() looks at (u64 as its eight bytes, least significant first), validate(),
//!        CdnConfig::validate(), estimated_memory_usage().
//!  env   {vars:[[name,value]..]}                   ClientConfig::from_env() with exactly these CASCETTE_* variables set
//!
//! Events: {"op":"new","fam":F,..} then one event per operation / call / query.  Nothing is decided here; the events are
//! judged by spec/trace/T_PathCache.tla.
use cascette_protocol::cdn::streaming::{
    CdnBootstrap, CdnConfig, CdnPathCache, CdnServer, CdnUrlBuilder, ConnectionPoolConfig, ContentType, RetryConfig,
    StreamingConfig, StreamingError,
};
use cascette_protocol::config::ClientConfig;
use serde_json::{Map, Value, json};
use std::collections::HashMap;
use std::time::{Duration, Instant};
use verif_harness::*;

const HUGE: i64 = 1 << 30;
const REPS: usize = 8;

fn s<'a>(v: &'a Value, k: &str) -> &'a str {
    v[k].as_str().unwrap_or_else(|| panic!("driver: field {k} missing in {v}"))
}
fn i(v: &Value, k: &str) -> i64 {
    v[k].as_i64().unwrap_or_else(|| panic!("driver: field {k} missing in {v}"))
}
fn b(v: &Value, k: &str) -> bool {
    v[k].as_bool().unwrap_or_else(|| panic!("driver: field {k} missing in {v}"))
}
fn arr<'a>(v: &'a Value, k: &str) -> &'a Vec<Value> {
    v[k].as_array().unwrap_or_else(|| panic!("driver: field {k} missing in {v}"))
}
fn panic_res(m: &str) -> Value {
    json!({"k": "panic", "msg": m.chars().take(200).collect::<String>()})
}
fn err_name(e: &StreamingError) -> String {
    let d = format!("{e:?}");
    d.split(|c: char| !c.is_alphanumeric()).next().unwrap_or("?").to_string()
}
fn chars(x: &str) -> Value {
    Value::Array(x.chars().map(|c| Value::String(c.to_string())).collect())
}
fn blens(x: &str) -> Value {
    Value::Array(x.chars().map(|c| json!(c.len_utf8())).collect())
}
fn opt(x: Option<&str>) -> Value {
    match x {
        Some(v) => json!([v]),
        None => json!([]),
    }
}
fn l3(x: u64) -> Value {
    // a u64 as its eight bytes, least significant first (TLC integers are 32-bit)
    Value::Array(x.to_le_bytes().iter().map(|b| json!(*b)).collect())
}
fn prio_in(x: i64) -> u32 {
    if x < 0 { u32::MAX } else { x as u32 }
}
fn prio_out(x: u32) -> i64 {
    (i64::from(x)).min(HUGE)
}
fn ct_of(x: &str) -> ContentType {
    match x {
        "config" => ContentType::Config,
        "data" => ContentType::Data,
        "patch" => ContentType::Patch,
        o => panic!("driver: content type {o}"),
    }
}
fn ttl_of(code: i64) -> Option<Duration> {
    match code {
        -1 => None,
        -2 => Some(Duration::MAX),
        n if n >= 0 => Some(Duration::from_micros(n as u64)),
        o => panic!("driver: ttl code {o}"),
    }
}

// ------------------------------------------------------------------------------------------------
// cache
// ------------------------------------------------------------------------------------------------
struct Uq {
    server: String,
    ct: String,
    hash: String,
    https: bool,
}
fn us0(base: Instant) -> i64 {
    base.elapsed().as_micros() as i64
}
fn observe(bld: &CdnUrlBuilder, u: &[String], uq: &Uq, base: Instant) -> Value {
    let o0 = us0(base);
    let c = bld.cache();
    let get: Vec<Value> = u.iter().map(|p| opt(c.get(p))).collect();
    let gb: Vec<Value> = u.iter().map(|p| opt(bld.get_cached_path(p))).collect();
    let exp: Vec<Value> = u.iter().map(|p| json!(c.is_expired(p))).collect();
    let url: Vec<Value> = u
        .iter()
        .map(|p| match bld.build_url_for_product(&uq.server, p, ct_of(&uq.ct), &uq.hash, uq.https) {
            Ok(x) => json!([x]),
            Err(StreamingError::Configuration { .. }) => json!([]),
            Err(e) => json!([format!("!{}", err_name(&e))]),
        })
        .collect();
    let mut ents: Vec<(String, String, bool)> = c.entries();
    ents.sort();
    let ents: Vec<Value> = ents.into_iter().map(|(p, q, v)| json!([p, q, i32::from(v)])).collect();
    let vlen = c.valid_len();
    let st = c.stats();
    let hasv = c.has_valid_entries();
    let gnc: Vec<Value> = u.iter().map(|p| opt(c.get_without_ttl_check(p))).collect();
    let len = c.len();
    let empty = c.is_empty();
    let o1 = us0(base) + 1;
    json!({"o0": o0, "o1": o1, "get": get, "gb": gb, "exp": exp, "url": url, "ents": ents, "vlen": vlen,
           "stats": [st.total_entries, st.valid_entries, st.expired_entries, i32::from(st.ttl_configured), i32::from(st.validation_enabled)],
           "hasv": hasv, "gnc": gnc, "len": len, "empty": empty})
}
fn pairs_of(op: &Value) -> Vec<(String, String)> {
    arr(op, "pairs").iter().map(|x| (s(x, "p").to_string(), s(x, "path").to_string())).collect()
}
fn with_chars(op: &Value) -> Map<String, Value> {
    // the operation as logged: every path the judge has to classify also as characters
    let mut ev = op.as_object().expect("op object").clone();
    if let Some(p) = op.get("path").and_then(Value::as_str) {
        ev.insert("pc".into(), chars(p));
    }
    if let Some(ps) = op.get("pairs").and_then(Value::as_array) {
        let v: Vec<Value> = ps.iter().map(|x| json!({"p": s(x, "p"), "path": s(x, "path"), "pc": chars(s(x, "path"))})).collect();
        ev.insert("pairs".into(), Value::Array(v));
    }
    ev
}
fn run_cache(p: &Value, em: &Emit) {
    let cfg = &p["cfg"];
    let ttl = ttl_of(i(cfg, "ttl"));
    let val = b(cfg, "val");
    let u: Vec<String> = arr(p, "U").iter().map(|x| x.as_str().expect("product").to_string()).collect();
    let uq = Uq { server: "cdn.example.net".into(), ct: "data".into(), hash: "0123456789abcdefABCDEF0123456789".into(), https: true };
    let base = Instant::now();
    let t0 = us0(base);
    let built = guarded(|| match s(cfg, "ctor") {
        "direct" => CdnUrlBuilder::with_cache(match (ttl, val) {
            (None, false) => CdnPathCache::new(),
            (None, true) => CdnPathCache::with_validation(true),
            (Some(t), false) => CdnPathCache::with_ttl(t),
            (Some(t), true) => CdnPathCache::with_ttl_and_validation(t, true),
        }),
        "runtime" => CdnUrlBuilder::with_runtime_config(ttl, val),
        "setters" => {
            let mut x = CdnUrlBuilder::default();
            x.cache_mut().set_ttl(ttl);
            x.cache_mut().set_validation(val);
            x
        }
        o => panic!("driver: ctor {o}"),
    });
    let t1 = us0(base) + 1;
    let mut bld = match built {
        Ok(x) => x,
        Err(m) => {
            em.ev(json!({"op": "new", "fam": "cache", "cfg": cfg, "U": u, "t0": t0, "t1": t1, "res": panic_res(&m)}));
            return;
        }
    };
    let uqv = json!({"server": uq.server, "ct": uq.ct, "hash": uq.hash, "hc": chars(&uq.hash), "hn": blens(&uq.hash), "https": uq.https});
    em.ev(json!({"op": "new", "fam": "cache", "cfg": cfg, "U": u, "uq": uqv, "t0": t0, "t1": t1, "res": {"k": "unit"},
                 "obs": observe(&bld, &u, &uq, base)}));
    let mut seq = 0u64;
    for op in arr(p, "ops") {
        em.begin(op);
        seq += 1;
        let mut ev = with_chars(op);
        ev.insert("seq".into(), json!(seq));
        let name = s(op, "op");
        let via_b = op.get("via").and_then(Value::as_str) == Some("b");
        let t0 = us0(base);
        let r = guarded(|| match name {
            "set" => {
                if via_b {
                    bld.cache_path(s(op, "p").to_string(), s(op, "path").to_string());
                } else {
                    bld.cache_mut().set(s(op, "p").to_string(), s(op, "path").to_string());
                }
                json!({"k": "unit"})
            }
            "rm" => json!({"k": "opt", "v": opt(bld.cache_mut().remove(s(op, "p")).as_deref())}),
            "clear" => {
                bld.cache_mut().clear();
                json!({"k": "unit"})
            }
            "cleanup" => {
                let n = if via_b { bld.cleanup_expired() } else { bld.cache_mut().cleanup_expired() };
                json!({"k": "n", "v": n})
            }
            "clone" => {
                bld = bld.clone();
                json!({"k": "unit"})
            }
            "bulk" => {
                let m: HashMap<String, String> = pairs_of(op).into_iter().collect();
                bld.cache_mut().bulk_update(m, b(op, "rep"));
                json!({"k": "unit"})
            }
            "boot" => {
                let mut bs = CdnBootstrap::new();
                bs.paths = pairs_of(op).into_iter().collect();
                if via_b {
                    bld.update_from_bootstrap(&bs, b(op, "force"));
                } else {
                    bld.cache_mut().update_from_bootstrap(&bs, b(op, "force"));
                }
                json!({"k": "unit"})
            }
            "ttl" => {
                bld.cache_mut().set_ttl(ttl_of(i(op, "ttl")));
                json!({"k": "unit"})
            }
            "val" => {
                bld.cache_mut().set_validation(b(op, "b"));
                json!({"k": "unit"})
            }
            "sleep" => {
                std::thread::sleep(Duration::from_millis(i(op, "ms") as u64));
                json!({"k": "unit"})
            }
            o => panic!("driver: cache op {o}"),
        });
        let t1 = us0(base) + 1;
        ev.insert("t0".into(), json!(t0));
        ev.insert("t1".into(), json!(t1));
        ev.insert("res".into(), r.unwrap_or_else(|m| panic_res(&m)));
        match guarded(|| observe(&bld, &u, &uq, base)) {
            Ok(o) => {
                ev.insert("obs".into(), o);
            }
            Err(m) => {
                ev.insert("obs".into(), json!({"panic": m.chars().take(200).collect::<String>()}));
            }
        }
        em.ev(Value::Object(ev));
    }
}

// ------------------------------------------------------------------------------------------------
// url
// ------------------------------------------------------------------------------------------------
fn hash_of(call: &Value) -> String {
    if let Some(h) = call.get("hash").and_then(Value::as_str) {
        return h.to_string();
    }
    match s(call, "hsym") {
        "e16" => "\u{e9}".repeat(16),                                  // 16 chars, 32 bytes
        "e_at2" => format!("ab\u{e9}{}", "0".repeat(28)),              // 32 bytes, a 2-byte char across byte 2..4
        "e_at1" => format!("a\u{e9}b{}", "0".repeat(28)),              // 32 bytes, a boundary inside the first directory
        "e_at3" => format!("abc\u{e9}{}", "0".repeat(27)),             // 32 bytes, a boundary inside the second directory
        "e_tail" => format!("{}\u{e9}", "0".repeat(30)),               // 32 bytes, non-ASCII at the end
        "I16" => "\u{130}".repeat(16),                                 // lower-casing changes the byte length
        "fw32" => "\u{ff41}".repeat(32),                               // 32 fullwidth 'a' (96 bytes)
        "fw_b32" => format!("{}ab", "\u{ff41}".repeat(10)),            // 32 bytes
        "ar16" => "\u{663}".repeat(16),                                // 16 Arabic-Indic digits, 32 bytes
        "e2" => "\u{e9}\u{e9}".to_string(),                            // 4 bytes, 2 chars
        "ae12" => "a\u{e9}12".to_string(),                             // F20h's witness
        o => panic!("driver: hash symbol {o}"),
    }
}
fn sres(r: Result<String, StreamingError>) -> Value {
    match r {
        Ok(v) => json!({"k": "ok", "v": v}),
        Err(e) => json!({"k": "err", "kind": err_name(&e)}),
    }
}
fn run_url(p: &Value, em: &Emit) {
    em.ev(json!({"op": "new", "fam": "url"}));
    let mut seq = 0u64;
    for call in arr(p, "calls") {
        em.begin(call);
        seq += 1;
        let f = s(call, "f");
        let hash = hash_of(call);
        let server = call.get("server").and_then(Value::as_str).unwrap_or("").to_string();
        let path = call.get("path").and_then(Value::as_str).unwrap_or("").to_string();
        let https = call.get("https").and_then(Value::as_bool).unwrap_or(true);
        let ct = call.get("ct").and_then(Value::as_str).unwrap_or("data").to_string();
        let cached = call.get("cached").and_then(Value::as_bool).unwrap_or(true);
        let r = guarded(|| {
            let mut bld = CdnUrlBuilder::new();
            match f {
                "build" => sres(bld.build_url(&server, &path, ct_of(&ct), &hash, https)),
                "pcfg" => sres(bld.build_product_config_url(&server, &hash, https)),
                "dirs" => match CdnUrlBuilder::hash_directories(&hash) {
                    Ok((a, c)) => json!({"k": "ok2", "v": [a, c]}),
                    Err(e) => json!({"k": "err", "kind": err_name(&e)}),
                },
                "prod" => {
                    if cached {
                        bld.cache_path("prod".to_string(), path.clone());
                    }
                    sres(bld.build_url_for_product(&server, "prod", ct_of(&ct), &hash, https))
                }
                o => panic!("driver: url call {o}"),
            }
        });
        em.ev(json!({"op": f, "seq": seq, "server": server, "path": path, "pc": chars(&path), "ct": ct, "hash": hash,
                     "hc": chars(&hash), "hn": blens(&hash), "https": https, "cached": cached,
                     "res": r.unwrap_or_else(|m| panic_res(&m))}));
    }
}

// ------------------------------------------------------------------------------------------------
// boot
// ------------------------------------------------------------------------------------------------
fn servers_in(v: &Value) -> Vec<CdnServer> {
    v.as_array()
        .expect("servers")
        .iter()
        .map(|x| CdnServer::new(x[0].as_str().expect("host").to_string(), x[1].as_bool().expect("https"), prio_in(x[2].as_i64().expect("prio"))))
        .collect()
}
fn servers_out(v: &[CdnServer]) -> Value {
    Value::Array(v.iter().map(|x| json!([x.host, i32::from(x.supports_https), prio_out(x.priority)])).collect())
}
fn paths_out(m: &HashMap<String, String>) -> Value {
    let mut v: Vec<(&String, &String)> = m.iter().collect();
    v.sort();
    Value::Array(v.into_iter().map(|(k, x)| json!([k, x])).collect())
}
fn boot_out(x: &CdnBootstrap) -> Value {
    json!({"servers": servers_out(&x.servers), "paths": paths_out(&x.paths), "pref": x.preferred_hosts, "official": x.is_official})
}
fn mk_boot(v: &Value) -> CdnBootstrap {
    let mut x = CdnBootstrap::new();
    x.servers = servers_in(&v["servers"]);
    x.paths = arr(v, "paths").iter().map(|kv| (kv[0].as_str().expect("k").to_string(), kv[1].as_str().expect("v").to_string())).collect();
    x.preferred_hosts = x.servers.iter().map(|z| z.host.clone()).collect();
    x.is_official = v.get("official").and_then(Value::as_bool).unwrap_or(false);
    x
}
fn bpsv_text(pv: &Value) -> String {
    let mut t = String::new();
    let hdr: Vec<String> = arr(pv, "hdr").iter().map(|c| format!("{}!STRING:0", c.as_str().expect("col"))).collect();
    t.push_str(&hdr.join("|"));
    t.push('\n');
    if pv.get("seqn").and_then(Value::as_bool).unwrap_or(false) {
        t.push_str("## seqn = 12345\n");
    }
    for r in arr(pv, "rows") {
        let f: Vec<&str> = r.as_array().expect("row").iter().map(|x| x.as_str().expect("field")).collect();
        t.push_str(&f.join("|"));
        t.push('\n');
    }
    t
}
fn base_cdn(name: &str) -> CdnConfig {
    match name {
        "default" => CdnConfig::default(),
        "blizzard_only" => CdnConfig::blizzard_only(),
        "community_only" => CdnConfig::community_only(),
        "high_availability" => CdnConfig::high_availability(),
        "development" => CdnConfig::development(),
        o => panic!("driver: cdn preset {o}"),
    }
}
fn cdn_out(c: &CdnConfig) -> Value {
    json!({"servers": servers_out(&c.servers), "mfa": i64::from(c.max_failover_attempts).min(HUGE), "https": c.prefer_https, "rot": c.enable_rotation,
           "hct": c.health_check_timeout.as_millis().min(HUGE as u128) as i64, "hci": c.health_check_interval.as_millis().min(HUGE as u128) as i64,
           "ttl": c.path_cache_ttl.as_millis().min(HUGE as u128) as i64, "vp": c.validate_paths,
           "valid": match c.validate() { Ok(()) => "ok".to_string(), Err(m) => m }})
}
fn run_boot(p: &Value, em: &Emit) {
    let src = &p["src"];
    // the source is built REPS times: HashMap iteration order is per instance
    let build = |_: usize| -> Result<Result<CdnBootstrap, StreamingError>, String> {
        guarded(|| {
            if let Some(pv) = src.get("parse") {
                let f = arr(pv, "filter").first().and_then(Value::as_str);
                CdnBootstrap::from_ribbit_response(bpsv_text(pv).as_bytes(), f)
            } else if let Some(raw) = src.get("raw").and_then(Value::as_str) {
                CdnBootstrap::from_ribbit_response(raw.as_bytes(), None)
            } else if let Some(hx) = src.get("rawhex").and_then(Value::as_str) {
                CdnBootstrap::from_ribbit_response(&hex::decode(hx).expect("rawhex"), None)
            } else if let Some(m) = src.get("mk") {
                Ok(mk_boot(m))
            } else if src.get("fallback").is_some() {
                Ok(CdnBootstrap::fallback_configuration())
            } else {
                Ok(CdnBootstrap::default())
            }
        })
    };
    let mut insts: Vec<CdnBootstrap> = Vec::new();
    let mut first: Option<Value> = None;
    let mut same = true;
    for k in 0..REPS {
        let (v, inst) = match build(k) {
            Err(m) => (panic_res(&m), None),
            Ok(Err(e)) => (json!({"k": "err", "kind": err_name(&e)}), None),
            Ok(Ok(x)) => {
                let mut o = boot_out(&x);
                o["k"] = json!("ok");
                (o, Some(x))
            }
        };
        if let Some(f) = &first {
            same &= *f == v;
        } else {
            first = Some(v);
        }
        if let Some(x) = inst {
            insts.push(x);
        }
    }
    let mut ev = json!({"op": "new", "fam": "boot", "src": src, "res": first.expect("at least one build"), "same": same});
    if let Some(pv) = src.get("parse") {
        // the table as characters: header names, every field, the filter
        let rows: Vec<Value> = arr(pv, "rows").iter().map(|r| Value::Array(r.as_array().expect("row").iter().map(|x| chars(x.as_str().expect("field"))).collect())).collect();
        ev["rc"] = Value::Array(rows);
        ev["fc"] = Value::Array(arr(pv, "filter").iter().map(|x| chars(x.as_str().expect("filter"))).collect());
    }
    em.ev(ev);
    if insts.len() != REPS {
        return;
    }
    let mut seq = 0u64;
    for q in arr(p, "qs") {
        em.begin(q);
        seq += 1;
        let mut ev = q.as_object().expect("query object").clone();
        ev.insert("op".into(), json!(s(q, "q")));
        ev.insert("seq".into(), json!(seq));
        let b0 = &insts[0];
        let r = guarded(|| match s(q, "q") {
            "getpath" => {
                let prod = s(q, "p");
                let rs: Vec<Value> = insts.iter().map(|x| opt(x.get_path(prod).map(String::as_str))).collect();
                json!({"k": "ok", "rs": rs, "qc": chars(prod), "kc": paths_out(&b0.paths).as_array().expect("paths").iter().map(|kv| chars(kv[0].as_str().expect("k"))).collect::<Vec<Value>>()})
            }
            "primary" => match b0.primary_server() {
                Some(x) => json!({"k": "ok", "v": [[x.host, prio_out(x.priority)]]}),
                None => json!({"k": "ok", "v": []}),
            },
            "stats" => {
                let st = b0.stats();
                json!({"k": "ok", "v": [st.total_servers, st.https_servers, st.http_servers, st.total_paths, i32::from(st.is_official)]})
            }
            "validate" => json!({"k": "ok", "v": b0.validate().is_ok()}),
            "merge" => {
                let fb = if s(q, "fbk") == "fallback" { CdnBootstrap::fallback_configuration() } else { mk_boot(&q["fb"]) };
                let fbv = boot_out(&fb);
                let fb_valid = fb.validate().is_ok();
                let m = b0.clone().merge_with_fallback(fb);
                json!({"k": "ok", "fbv": fbv, "fb_valid": fb_valid, "out": boot_out(&m)})
            }
            "runtime" => match StreamingConfig::for_runtime_updates(b0) {
                Ok(c) => json!({"k": "ok", "cdn": cdn_out(&c.cdn), "valid": match c.validate() { Ok(()) => "ok".to_string(), Err(m) => m }}),
                Err(m) => json!({"k": "err", "msg": m}),
            },
            "cfgupd" => {
                let mut c = base_cdn(s(q, "base"));
                let before = cdn_out(&c);
                c.update_from_bootstrap(b0);
                json!({"k": "ok", "before": before, "after": cdn_out(&c)})
            }
            "cfgfrom" => {
                let base = base_cdn(s(q, "base"));
                let c = CdnConfig::from_bootstrap(b0, Some(&base));
                let d = CdnConfig::from_bootstrap(b0, None);
                json!({"k": "ok", "before": cdn_out(&base), "after": cdn_out(&c), "dflt": cdn_out(&CdnConfig::default()), "after_none": cdn_out(&d)})
            }
            "cfgrm" => {
                let mut c = base_cdn(s(q, "base"));
                let before = cdn_out(&c);
                let hs: Vec<String> = arr(q, "hosts").iter().map(|x| x.as_str().expect("host").to_string()).collect();
                c.remove_servers(&hs);
                json!({"k": "ok", "before": before, "after": cdn_out(&c)})
            }
            "cfgmerge" => {
                let mut c = base_cdn(s(q, "base"));
                let before = cdn_out(&c);
                let add = servers_in(&q["servers"]);
                let addv = servers_out(&add);
                c.merge_servers(add);
                json!({"k": "ok", "before": before, "add": addv, "after": cdn_out(&c)})
            }
            "cfgprio" => {
                let mut c = base_cdn(s(q, "base"));
                let before = cdn_out(&c);
                let upd: HashMap<String, u32> = arr(q, "upd").iter().map(|x| (x[0].as_str().expect("host").to_string(), prio_in(x[1].as_i64().expect("prio")))).collect();
                c.update_server_priorities(&upd);
                json!({"k": "ok", "before": before, "after": cdn_out(&c)})
            }
            o => panic!("driver: boot query {o}"),
        });
        ev.insert("res".into(), r.unwrap_or_else(|m| panic_res(&m)));
        em.ev(Value::Object(ev));
    }
}

// ------------------------------------------------------------------------------------------------
// cfg
// ------------------------------------------------------------------------------------------------
fn symval(x: &str) -> u64 {
    match x {
        "64k" => 65536,
        "1m" => 1 << 20,
        "2p32" => 1 << 32,
        "big" => 1 << 40,
        "2p62" => 1 << 62,
        "max32" => u64::from(u32::MAX),
        "max" => u64::MAX,
        d => d.parse().unwrap_or_else(|_| panic!("driver: value symbol {d}")),
    }
}
fn symdur(x: &str) -> Duration {
    match x {
        "max" => Duration::MAX,
        "0" => Duration::ZERO,
        "1ns" => Duration::from_nanos(1),
        d => Duration::from_millis(symval(d)),
    }
}
fn symf(x: &str) -> f64 {
    match x {
        "nan" => f64::NAN,
        "inf" => f64::INFINITY,
        "-inf" => f64::NEG_INFINITY,
        "-0" => -0.0,
        "eps-" => -f64::MIN_POSITIVE,
        "1+" => 1.0 + f64::EPSILON,
        d => d.parse().unwrap_or_else(|_| panic!("driver: float symbol {d}")),
    }
}
fn base_streaming(name: &str) -> StreamingConfig {
    match name {
        "default" => StreamingConfig::default(),
        "high_throughput" => StreamingConfig::high_throughput(),
        "low_memory" => StreamingConfig::low_memory(),
        "unreliable_network" => StreamingConfig::unreliable_network(),
        x if x.starts_with("cdn:") => StreamingConfig { cdn: base_cdn(&x[4..]), ..StreamingConfig::default() },
        "parts" => StreamingConfig {
            retry: RetryConfig::default(),
            connection_pool: ConnectionPoolConfig::default(),
            cdn: CdnConfig::default(),
            ..StreamingConfig::default()
        },
        o => panic!("driver: preset {o}"),
    }
}
fn run_cfg(p: &Value, em: &Emit) {
    em.ev(json!({"op": "new", "fam": "cfg"}));
    em.begin(p);
    let base = s(p, "base");
    let built = guarded(|| {
        let mut c = base_streaming(base);
        for kv in arr(p, "set") {
            let (f, v) = (kv[0].as_str().expect("field"), kv[1].as_str().expect("sym"));
            match f {
                "mcph" => c.max_connections_per_host = symval(v) as usize,
                "sbs" => c.stream_buffer_size = symval(v) as usize,
                "mrs" => c.max_range_size = symval(v),
                "rct" => c.range_coalesce_threshold = symval(v),
                "mrpr" => c.max_ranges_per_request = symval(v) as usize,
                "mred" => c.max_redirects = symval(v) as usize,
                "rmax" => c.retry.max_attempts = symval(v) as u32,
                "jit" => c.retry.jitter_factor = symf(v),
                "rbase" => c.retry.base_delay = symdur(v),
                "rmaxd" => c.retry.max_delay = symdur(v),
                "mtc" => c.connection_pool.max_total_connections = symval(v) as usize,
                "pmph" => c.connection_pool.max_connections_per_host = symval(v) as usize,
                "rto" => c.request_timeout = symdur(v),
                "cto" => c.connect_timeout = symdur(v),
                "ttl" => c.cdn.path_cache_ttl = symdur(v),
                "mfa" => c.cdn.max_failover_attempts = symval(v) as u32,
                "srv" => {
                    c.cdn.servers = match v {
                        "none" => vec![],
                        "one" => vec![CdnServer::https("one.example.net".to_string())],
                        "emptyhost" => vec![CdnServer::https("one.example.net".to_string()), CdnServer::http(String::new())],
                        "three" => CdnConfig::community_mirrors(),
                        o => panic!("driver: srv {o}"),
                    }
                }
                o => panic!("driver: cfg field {o}"),
            }
        }
        c
    });
    let c = match built {
        Ok(c) => c,
        Err(m) => {
            em.ev(json!({"op": "cfg", "seq": 1, "base": base, "set": p["set"], "res": panic_res(&m)}));
            return;
        }
    };
    let j = c.retry.jitter_factor;
    let (jk, jm) = if j.is_nan() {
        ("nan", 0i64)
    } else if j.is_infinite() {
        (if j > 0.0 { "inf" } else { "-inf" }, 0)
    } else if j.abs() > 1000.0 {
        (if j > 0.0 { "inf" } else { "-inf" }, 0)
    } else {
        // millionths, rounded away from the interval [0, 1]: a value just outside stays outside
        let m = j * 1_000_000.0;
        ("fin", if j < 0.0 { m.floor().min(-1.0) as i64 } else if j > 1.0 { (m.ceil() as i64).max(1_000_001) } else { m as i64 })
    };
    let fields = json!({
        "mcph": l3(c.max_connections_per_host as u64), "sbs": l3(c.stream_buffer_size as u64), "mrs": l3(c.max_range_size),
        "rct": l3(c.range_coalesce_threshold), "mrpr": l3(c.max_ranges_per_request as u64), "rmax": l3(u64::from(c.retry.max_attempts)),
        "jk": jk, "jm": jm, "mtc": l3(c.connection_pool.max_total_connections as u64), "mfa": l3(u64::from(c.cdn.max_failover_attempts)),
        "nsrv": c.cdn.servers.len(), "emptyhost": c.cdn.servers.iter().any(|x| x.host.is_empty()),
    });
    let valid = guarded(|| match c.validate() {
        Ok(()) => json!({"k": "ok"}),
        Err(m) => json!({"k": "err", "msg": m}),
    })
    .unwrap_or_else(|m| panic_res(&m));
    let cvalid = guarded(|| match c.cdn.validate() {
        Ok(()) => json!({"k": "ok"}),
        Err(m) => json!({"k": "err", "msg": m}),
    })
    .unwrap_or_else(|m| panic_res(&m));
    let mem = guarded(|| json!({"k": "ok", "v": l3(c.estimated_memory_usage() as u64)})).unwrap_or_else(|m| panic_res(&m));
    // a second call on a clone: validate() is a function of the fields
    let again = guarded(|| c.clone().validate().is_ok()).unwrap_or(false);
    em.ev(json!({"op": "cfg", "seq": 1, "base": base, "set": p["set"], "f": fields, "res": valid, "cres": cvalid, "mem": mem,
                 "again": again, "updatable": c.cdn.allows_runtime_updates()}));
}

// ------------------------------------------------------------------------------------------------
// env
// ------------------------------------------------------------------------------------------------
const ENV_VARS: [&str; 16] = [
    "CASCETTE_TACT_HTTPS_URL", "CASCETTE_TACT_HTTP_URL", "CASCETTE_RIBBIT_URL", "CASCETTE_CONNECT_TIMEOUT", "CASCETTE_REQUEST_TIMEOUT",
    "CASCETTE_CACHE_DIR", "CASCETTE_MEMORY_MAX_ITEMS", "CASCETTE_MEMORY_MAX_SIZE", "CASCETTE_DISK_MAX_SIZE", "CASCETTE_DISK_MAX_FILE_SIZE",
    "CASCETTE_RIBBIT_TTL", "CASCETTE_CDN_TTL", "CASCETTE_CONFIG_TTL", "CASCETTE_MAX_RETRIES", "CASCETTE_RETRY_BACKOFF", "CASCETTE_MAX_BACKOFF",
];
#[allow(unsafe_code)]
fn run_env(p: &Value, em: &Emit) {
    em.ev(json!({"op": "new", "fam": "env"}));
    em.begin(p);
    // the worker thread is the only thread that touches the environment
    for v in ENV_VARS {
        unsafe { std::env::remove_var(v) };
    }
    let mut vars = Vec::new();
    for kv in arr(p, "vars") {
        let (k, v) = (kv[0].as_str().expect("name"), kv[1].as_str().expect("value"));
        assert!(ENV_VARS.contains(&k), "driver: variable {k}");
        unsafe { std::env::set_var(k, v) };
        vars.push(json!([k, v, chars(v)]));
    }
    let r = guarded(|| match ClientConfig::from_env() {
        Ok(c) => json!({"k": "ok", "f": {
            "CASCETTE_TACT_HTTPS_URL": [c.tact_https_url], "CASCETTE_TACT_HTTP_URL": [c.tact_http_url], "CASCETTE_RIBBIT_URL": [c.ribbit_url],
            "CASCETTE_CACHE_DIR": [c.cache_config.cache_dir.map(|d| d.to_string_lossy().to_string()).unwrap_or_default()],
            "CASCETTE_CONNECT_TIMEOUT": l3(c.connect_timeout.as_secs()), "CASCETTE_REQUEST_TIMEOUT": l3(c.request_timeout.as_secs()),
            "CASCETTE_MEMORY_MAX_ITEMS": l3(c.cache_config.memory_max_items as u64), "CASCETTE_MEMORY_MAX_SIZE": l3(c.cache_config.memory_max_size_bytes as u64),
            "CASCETTE_DISK_MAX_SIZE": l3(c.cache_config.disk_max_size_bytes as u64), "CASCETTE_DISK_MAX_FILE_SIZE": l3(c.cache_config.disk_max_file_size as u64),
            "CASCETTE_RIBBIT_TTL": l3(c.cache_config.ribbit_ttl.as_secs()), "CASCETTE_CDN_TTL": l3(c.cache_config.cdn_ttl.as_secs()),
            "CASCETTE_CONFIG_TTL": l3(c.cache_config.config_ttl.as_secs()), "CASCETTE_MAX_RETRIES": l3(u64::from(c.retry_policy.max_attempts)),
            "CASCETTE_RETRY_BACKOFF": l3(c.retry_policy.initial_backoff.as_millis().min(u128::from(u64::MAX)) as u64),
            "CASCETTE_MAX_BACKOFF": l3(c.retry_policy.max_backoff.as_secs()),
        }}),
        Err(e) => json!({"k": "err", "msg": e.to_string().chars().take(120).collect::<String>()}),
    });
    for v in ENV_VARS {
        unsafe { std::env::remove_var(v) };
    }
    em.ev(json!({"op": "env", "seq": 1, "vars": vars, "res": r.unwrap_or_else(|m| panic_res(&m))}));
}

// ------------------------------------------------------------------------------------------------
// seeded random programs
// ------------------------------------------------------------------------------------------------
const PRODUCTS: [&str; 3] = ["wow", "wowt", "wow_classic"];
const BAD_PATHS: [&str; 14] = [
    "", "/", "//", "..", "tpr/../wow", "../tpr", "tpr wow", " tpr/wow", "tpr/wow\t", "tpr/wow\n", "tpr/\u{a0}wow", "/tpr/wow", "tpr//wow", "./tpr",
];
const HOSTS: [&str; 7] = [
    "level3.blizzard.com", "us.cdn.blizzard.com", "cdn.arctium.tools", "casc.wago.tools", "blzddist1-a.akamaihd.net", "eu.version.battle.net", "mirror.example.org",
];
const NAMES: [&str; 8] = ["wow", "wowt", "wow_classic", "wow_classic_era", "us", "eu", "", "ow"];

fn random_cache(r: &mut Rng) -> Value {
    let timed = r.chance(2, 3);
    let ttl0: i64 = if timed { *r.pick(&[20_000, 20_000, 0, 35_000]) } else { *r.pick(&[-1, -2, 1_000_000_000]) };
    let val0 = !timed && r.chance(1, 2);
    let n = 3 + r.below(9);
    let mut ops = Vec::new();
    let mut k = 0u32;
    let mut sleeps = 0;
    let mut fresh = |r: &mut Rng, bad: bool| -> String {
        if bad && r.chance(1, 2) {
            (*r.pick(&BAD_PATHS)).to_string()
        } else {
            k += 1;
            format!("tpr/x{k}{}", if r.chance(1, 6) { "/" } else { "" })
        }
    };
    for _ in 0..n {
        let p = (*r.pick(&PRODUCTS)).to_string();
        let via = if r.chance(1, 2) { "b" } else { "c" };
        let pairs = |r: &mut Rng, fresh: &mut dyn FnMut(&mut Rng, bool) -> String| -> Vec<Value> {
            let mut v = Vec::new();
            for q in PRODUCTS {
                if r.chance(1, 2) {
                    v.push(json!({"p": q, "path": fresh(r, !timed)}));
                }
            }
            v
        };
        let op = match r.below(if timed { 12 } else { 10 }) {
            0 | 1 | 2 => json!({"op": "set", "p": p, "path": fresh(r, !timed), "via": via}),
            3 => json!({"op": "rm", "p": p}),
            4 => json!({"op": "cleanup", "via": via}),
            5 => json!({"op": "bulk", "pairs": pairs(r, &mut fresh), "rep": r.chance(1, 3)}),
            6 => json!({"op": "boot", "pairs": pairs(r, &mut fresh), "force": r.chance(1, 3), "via": via}),
            7 => {
                if r.chance(1, 4) {
                    json!({"op": "clear"})
                } else {
                    json!({"op": "clone"})
                }
            }
            8 => {
                if timed {
                    json!({"op": "ttl", "ttl": *r.pick(&[-1i64, 20_000, 0, 35_000, -2])})
                } else {
                    json!({"op": "ttl", "ttl": *r.pick(&[-1i64, -2, 1_000_000_000])})
                }
            }
            9 => json!({"op": "val", "b": !timed && r.chance(2, 3)}),
            _ => {
                if sleeps < 3 {
                    sleeps += 1;
                    json!({"op": "sleep", "ms": *r.pick(&[8i64, 8, 30, 15])})
                } else {
                    json!({"op": "cleanup", "via": via})
                }
            }
        };
        ops.push(op);
    }
    json!({"fam": "cache", "cfg": {"ctor": *r.pick(&["direct", "runtime", "setters"]), "ttl": ttl0, "val": val0}, "U": PRODUCTS, "ops": ops})
}
fn random_hash(r: &mut Rng) -> Value {
    let hexd = b"0123456789abcdefABCDEF";
    let mut h: String = (0..32).map(|_| *r.pick(hexd) as char).collect();
    match r.below(12) {
        0 => {
            h.truncate(r.below(32) as usize);
        }
        1 => {
            for _ in 0..=r.below(3) {
                h.push(*r.pick(hexd) as char);
            }
        }
        2 => {
            let at = r.below(32) as usize;
            h.replace_range(at..=at, *r.pick(&["g", "G", " ", "/", ".", "x", "-", "%", "\n"]));
        }
        3 => return json!({"hsym": *r.pick(&["e16", "e_at2", "e_at1", "e_at3", "e_tail", "I16", "fw32", "fw_b32", "ar16", "e2", "ae12"])}),
        4 => {
            // a multi-byte character somewhere, total byte length kept at 32
            let at = r.below(31) as usize;
            h.replace_range(at..at + 2, "\u{e9}");
        }
        _ => {}
    }
    json!({"hash": h})
}
fn random_url(r: &mut Rng) -> Value {
    let mut calls = Vec::new();
    for _ in 0..(4 + r.below(8)) {
        let mut c = random_hash(r);
        let base = *r.pick(&["tpr/wow", "tpr/wow_classic", "tpr/configs/data", "a", "tpr/wow/", "tpr/wow//", "", "/", "/tpr/wow", "tpr wow"]);
        c["f"] = json!(*r.pick(&["build", "build", "build", "pcfg", "dirs", "prod"]));
        c["server"] = json!(*r.pick(&["level3.blizzard.com", "cdn.arctium.tools", "127.0.0.1:8080", "h", ""]));
        c["path"] = json!(base);
        c["ct"] = json!(*r.pick(&["config", "data", "patch"]));
        c["https"] = json!(r.chance(1, 2));
        c["cached"] = json!(!r.chance(1, 5));
        calls.push(c);
    }
    json!({"fam": "url", "calls": calls})
}
fn random_servers(r: &mut Rng, n: u64, top: bool) -> Vec<Value> {
    (0..n)
        .map(|_| {
            let pr: i64 = if top && r.chance(1, 5) { -1 } else { *r.pick(&[0i64, 10, 10, 20, 30, 100, 110, 200, 1000, 1010]) };
            json!([*r.pick(&HOSTS), r.chance(2, 3), pr])
        })
        .collect()
}
fn random_boot(r: &mut Rng) -> Value {
    let src = match r.below(10) {
        0 => {
            let raw = match r.below(5) {
                0 => String::new(),
                1 => "Name!STRING:0|Path!STRING:0|Hosts!STRING:0".to_string(),
                2 => "no header at all\nwow|tpr/wow|h".to_string(),
                3 => "Name!STRING:0|Path!STRING:0|Hosts!STRING:0\nwow|tpr/wow".to_string(),
                _ => "Name!HEX:16|Path!DEC:4|Hosts!STRING:0\n00|12|h h".to_string(),
            };
            json!({"raw": raw})
        }
        1 => {
            let n = r.below(60) as usize;
            json!({"rawhex": hex::encode(r.bytes(n))})
        }
        2 | 3 => {
            let ns = r.below(5);
            let mut paths = Vec::new();
            for n in NAMES {
                if r.chance(1, 3) {
                    paths.push(json!([n, format!("tpr/{n}")]));
                }
            }
            json!({"mk": {"servers": random_servers(r, ns, true), "paths": paths, "official": r.chance(1, 2)}})
        }
        4 => json!({"fallback": true}),
        _ => {
            let hdr: Vec<&str> = match r.below(6) {
                0 => vec!["Region", "Path", "Server"],
                1 => vec!["Name", "Path", "Hosts", "ConfigPath"],
                2 => vec!["Name", "Path", "Hosts", "Servers", "ConfigPath"],
                3 => vec!["Name", "Hosts"],
                4 => vec!["Hosts", "Path", "Name"],
                _ => vec!["Name", "Path", "Hosts"],
            };
            let mut rows = Vec::new();
            for _ in 0..r.below(5) {
                let nh = if r.chance(1, 10) { 0 } else { 1 + r.below(3) };
                let mut hosts: Vec<&str> = (0..nh).map(|_| *r.pick(&HOSTS)).collect();
                if r.chance(1, 8) && !hosts.is_empty() {
                    hosts.push(hosts[0]);
                }
                let sep = if r.chance(1, 6) { "  " } else { " " };
                let name = *r.pick(&NAMES);
                let row: Vec<String> = hdr
                    .iter()
                    .map(|c| match *c {
                        "Name" | "Region" => name.to_string(),
                        "Path" => {
                            if r.chance(1, 6) {
                                String::new()
                            } else {
                                format!("tpr/{name}")
                            }
                        }
                        "Hosts" | "Server" => hosts.join(sep),
                        "Servers" => "http://x/?maxhosts=4".to_string(),
                        _ => "tpr/configs/data".to_string(),
                    })
                    .collect();
                rows.push(json!(row));
            }
            let filter = if r.chance(1, 2) { json!([]) } else { json!([*r.pick(&["wow", "wowt", "classic", "us", "zz", "wow_classic"])]) };
            json!({"parse": {"hdr": hdr, "rows": rows, "filter": filter, "seqn": r.chance(1, 2)}})
        }
    };
    let mut qs = vec![json!({"q": "stats"}), json!({"q": "validate"}), json!({"q": "primary"})];
    for _ in 0..(1 + r.below(3)) {
        qs.push(json!({"q": "getpath", "p": *r.pick(&["wow", "wowt", "wow_classic", "wow_classic_ptr", "wow_classic_era", "us", "w", "zz", "ow", ""])}));
    }
    let presets = ["default", "blizzard_only", "community_only", "high_availability", "development"];
    match r.below(7) {
        0 => qs.push(json!({"q": "merge", "fbk": "fallback"})),
        1 => {
            let ns = r.below(4);
            qs.push(json!({"q": "merge", "fbk": "custom", "fb": {"servers": random_servers(r, ns, true), "paths": [["wow", "fb/wow"], ["zz", "fb/zz"]]}}));
        }
        2 => qs.push(json!({"q": "runtime"})),
        3 => qs.push(json!({"q": "cfgupd", "base": *r.pick(&presets)})),
        4 => qs.push(json!({"q": "cfgfrom", "base": *r.pick(&presets)})),
        5 => {
            let hs: Vec<&str> = (0..r.below(5)).map(|_| *r.pick(&HOSTS)).collect();
            qs.push(json!({"q": "cfgrm", "base": *r.pick(&presets), "hosts": hs}));
        }
        _ => {
            let ns = r.below(4);
            qs.push(json!({"q": "cfgmerge", "base": *r.pick(&presets), "servers": random_servers(r, ns, false)}));
        }
    }
    json!({"fam": "boot", "src": src, "qs": qs})
}
fn random_cfg(r: &mut Rng) -> Value {
    let ints = ["0", "1", "2", "8", "64k", "1m", "2p32", "big", "2p62", "max"];
    let mut set = Vec::new();
    for _ in 0..(1 + r.below(4)) {
        let f = *r.pick(&["mcph", "sbs", "mrs", "rct", "mrpr", "mred", "rmax", "jit", "rbase", "rmaxd", "mtc", "pmph", "rto", "cto", "ttl", "mfa", "srv"]);
        let v = match f {
            "jit" => *r.pick(&["0", "0.5", "1", "-0.001", "1.001", "2", "nan", "inf", "-inf", "-0", "eps-", "1+"]),
            "srv" => *r.pick(&["none", "one", "emptyhost", "three"]),
            "rbase" | "rmaxd" | "rto" | "cto" | "ttl" => *r.pick(&["0", "1ns", "1", "max", "64k"]),
            "rmax" | "mfa" => *r.pick(&["0", "1", "2", "8", "max32"]),
            _ => *r.pick(&ints),
        };
        set.push(json!([f, v]));
    }
    let base = *r.pick(&["default", "high_throughput", "low_memory", "unreliable_network", "cdn:blizzard_only", "cdn:community_only", "cdn:high_availability", "cdn:development", "parts"]);
    json!({"fam": "cfg", "base": base, "set": set})
}
fn random_env(r: &mut Rng) -> Value {
    let mut vars = Vec::new();
    for v in &ENV_VARS[3..] {
        if *v == "CASCETTE_CACHE_DIR" {
            continue;
        }
        if r.chance(1, 3) {
            vars.push(json!([v, *r.pick(&["0", "7", "300", "4294967295", "4294967296", "18446744073709551615", "18446744073709551616", "-1", "abc", "", "1.5", "0x10"])]));
        }
    }
    if r.chance(1, 3) {
        vars.push(json!(["CASCETTE_RIBBIT_URL", "tcp://eu.version.battle.net:1119"]));
    }
    if r.chance(1, 3) {
        vars.push(json!(["CASCETTE_CACHE_DIR", "/tmp/x12-cache"]));
    }
    json!({"fam": "env", "vars": vars})
}
fn random_program(r: &mut Rng) -> Value {
    match r.below(20) {
        0..=6 => random_cache(r),
        7..=10 => random_url(r),
        11..=15 => random_boot(r),
        16..=18 => random_cfg(r),
        _ => random_env(r),
    }
}

fn main() {
    quiet_panics();
    let args: Vec<String> = std::env::args().collect();
    let mut out = Out::from_arg(arg(&args, "--out").as_ref());
    let programs = if let Some(p) = arg(&args, "--programs") {
        read_programs(&p)
    } else {
        let n = arg_u64(&args, "--random", 100);
        let mut r = Rng::new(seed_from_env());
        let ps: Vec<Value> = (0..n).map(|_| random_program(&mut r)).collect();
        if let Some(d) = arg(&args, "--dump-programs") {
            let mut f = std::fs::File::create(d).expect("dump");
            for p in &ps {
                use std::io::Write;
                writeln!(f, "{p}").expect("dump");
            }
        }
        ps
    };
    let patience = Duration::from_secs(arg_u64(&args, "--patience", 60));
    let stats = run_with_watchdog(programs, &mut out, patience, |p, em| match s(p, "fam") {
        "cache" => run_cache(p, em),
        "url" => run_url(p, em),
        "boot" => run_boot(p, em),
        "cfg" => run_cfg(p, em),
        "env" => run_env(p, em),
        other => panic!("driver: unknown family {other}"),
    });
    out.flush();
    eprintln!("{}", json!({"programs": stats.programs, "events": out.events, "hangs": stats.hangs, "skipped": stats.skipped}));
    if stats.skipped > 0 {
        std::process::exit(3);
    }
}
