//! drv_signature - driver of check X07 (V1 MIME signature / certificate verification, request formatting,
//! archive-index downloads).
//!
//! Programs (ndjson, one object per line; produced by spec/mc/MC_Signature.tla or by checks/x07.py) are executed
//! on the real cascette-protocol code and one event per call is recorded.  The driver never decides a property:
//! it builds the concrete bytes that an *abstract description* (who signed what with which key, which
//! certificates are embedded, what the MIME envelope looks like) denotes, calls the code, and records the
//! description next to the observed result; spec/trace/T_Signature.tla computes the expected result class from
//! the description with the operators of spec/Signature.tla.
//!
//! No network: signatures are made here (own SHA-2, own modular exponentiation, fixed test keys generated once
//! with `openssl genrsa`), DER / X.509 / CMS / MIME are encoded by hand (so the material does not come from the
//! libraries the code under test parses it with), servers are loopback mocks.
//!
//!   kind "verify" : CMS description + data         -> parse_and_verify_signature
//!   kind "mime"   : envelope description           -> v1_mime::parse_v1_mime_response / mime_parser::parse_v1_mime_response
//!   kind "fault"  : base description + fault class  -> every bit flip / truncation / extension of blob, data or response
//!   kind "raw"    : literal bytes (hex)             -> the parsers and detectors (totality)
//!   kind "pem"    : identifier + scripted answer    -> CertificateFetcher::fetch_by_ski / fetch_by_hash on a loopback Ribbit mock
//!   kind "req"    : endpoint                        -> RibbitClient::query_raw / TactClient::query / RibbitTactClient::query on loopback mocks
//!   kind "cdn"    : operation sequence              -> CdnClient::download_archive_index / download on a loopback HTTP mock
use cascette_protocol::v1_mime::certificate::{CertificateFetcher, validate_certificate_chain};
use cascette_protocol::v1_mime::signature::parse_and_verify_signature;
use cascette_protocol::{CdnClient, CdnEndpoint, ContentType, RibbitClient, TactClient};
use serde_json::{Value, json};
use std::collections::HashMap;
use std::sync::{Arc, Mutex};
use std::time::Duration;
use tokio::io::{AsyncReadExt, AsyncWriteExt};
use tokio::net::{TcpListener, TcpStream};
use verif_harness::*;

// =========================================================================== SHA-2 (FIPS 180-4)
const K256: [u32; 64] = [
    0x428a2f98, 0x71374491, 0xb5c0fbcf, 0xe9b5dba5, 0x3956c25b, 0x59f111f1, 0x923f82a4, 0xab1c5ed5,
    0xd807aa98, 0x12835b01, 0x243185be, 0x550c7dc3, 0x72be5d74, 0x80deb1fe, 0x9bdc06a7, 0xc19bf174,
    0xe49b69c1, 0xefbe4786, 0x0fc19dc6, 0x240ca1cc, 0x2de92c6f, 0x4a7484aa, 0x5cb0a9dc, 0x76f988da,
    0x983e5152, 0xa831c66d, 0xb00327c8, 0xbf597fc7, 0xc6e00bf3, 0xd5a79147, 0x06ca6351, 0x14292967,
    0x27b70a85, 0x2e1b2138, 0x4d2c6dfc, 0x53380d13, 0x650a7354, 0x766a0abb, 0x81c2c92e, 0x92722c85,
    0xa2bfe8a1, 0xa81a664b, 0xc24b8b70, 0xc76c51a3, 0xd192e819, 0xd6990624, 0xf40e3585, 0x106aa070,
    0x19a4c116, 0x1e376c08, 0x2748774c, 0x34b0bcb5, 0x391c0cb3, 0x4ed8aa4a, 0x5b9cca4f, 0x682e6ff3,
    0x748f82ee, 0x78a5636f, 0x84c87814, 0x8cc70208, 0x90befffa, 0xa4506ceb, 0xbef9a3f7, 0xc67178f2,
];
const H256: [u32; 8] = [0x6a09e667, 0xbb67ae85, 0x3c6ef372, 0xa54ff53a, 0x510e527f, 0x9b05688c, 0x1f83d9ab, 0x5be0cd19];
const K512: [u64; 80] = [
    0x428a2f98d728ae22, 0x7137449123ef65cd, 0xb5c0fbcfec4d3b2f, 0xe9b5dba58189dbbc,
    0x3956c25bf348b538, 0x59f111f1b605d019, 0x923f82a4af194f9b, 0xab1c5ed5da6d8118,
    0xd807aa98a3030242, 0x12835b0145706fbe, 0x243185be4ee4b28c, 0x550c7dc3d5ffb4e2,
    0x72be5d74f27b896f, 0x80deb1fe3b1696b1, 0x9bdc06a725c71235, 0xc19bf174cf692694,
    0xe49b69c19ef14ad2, 0xefbe4786384f25e3, 0x0fc19dc68b8cd5b5, 0x240ca1cc77ac9c65,
    0x2de92c6f592b0275, 0x4a7484aa6ea6e483, 0x5cb0a9dcbd41fbd4, 0x76f988da831153b5,
    0x983e5152ee66dfab, 0xa831c66d2db43210, 0xb00327c898fb213f, 0xbf597fc7beef0ee4,
    0xc6e00bf33da88fc2, 0xd5a79147930aa725, 0x06ca6351e003826f, 0x142929670a0e6e70,
    0x27b70a8546d22ffc, 0x2e1b21385c26c926, 0x4d2c6dfc5ac42aed, 0x53380d139d95b3df,
    0x650a73548baf63de, 0x766a0abb3c77b2a8, 0x81c2c92e47edaee6, 0x92722c851482353b,
    0xa2bfe8a14cf10364, 0xa81a664bbc423001, 0xc24b8b70d0f89791, 0xc76c51a30654be30,
    0xd192e819d6ef5218, 0xd69906245565a910, 0xf40e35855771202a, 0x106aa07032bbd1b8,
    0x19a4c116b8d2d0c8, 0x1e376c085141ab53, 0x2748774cdf8eeb99, 0x34b0bcb5e19b48a8,
    0x391c0cb3c5c95a63, 0x4ed8aa4ae3418acb, 0x5b9cca4f7763e373, 0x682e6ff3d6b2b8a3,
    0x748f82ee5defb2fc, 0x78a5636f43172f60, 0x84c87814a1f0ab72, 0x8cc702081a6439ec,
    0x90befffa23631e28, 0xa4506cebde82bde9, 0xbef9a3f7b2c67915, 0xc67178f2e372532b,
    0xca273eceea26619c, 0xd186b8c721c0c207, 0xeada7dd6cde0eb1e, 0xf57d4f7fee6ed178,
    0x06f067aa72176fba, 0x0a637dc5a2c898a6, 0x113f9804bef90dae, 0x1b710b35131c471b,
    0x28db77f523047d84, 0x32caab7b40c72493, 0x3c9ebe0a15c9bebc, 0x431d67c49c100d4c,
    0x4cc5d4becb3e42b6, 0x597f299cfc657e2a, 0x5fcb6fab3ad6faec, 0x6c44198c4a475817,
];
const H512: [u64; 8] = [
    0x6a09e667f3bcc908, 0xbb67ae8584caa73b, 0x3c6ef372fe94f82b, 0xa54ff53a5f1d36f1,
    0x510e527fade682d1, 0x9b05688c2b3e6c1f, 0x1f83d9abfb41bd6b, 0x5be0cd19137e2179,
];
const H384: [u64; 8] = [
    0xcbbb9d5dc1059ed8, 0x629a292a367cd507, 0x9159015a3070dd17, 0x152fecd8f70e5939,
    0x67332667ffc00b31, 0x8eb44a8768581511, 0xdb0c2e0d64f98fa7, 0x47b5481dbefa4fa4,
];

fn sha256(data: &[u8]) -> Vec<u8> {
    let mut h = H256;
    let mut m = data.to_vec();
    m.push(0x80);
    while m.len() % 64 != 56 {
        m.push(0);
    }
    m.extend_from_slice(&((data.len() as u64) * 8).to_be_bytes());
    for blk in m.chunks(64) {
        let mut w = [0u32; 64];
        for i in 0..16 {
            w[i] = u32::from_be_bytes([blk[4 * i], blk[4 * i + 1], blk[4 * i + 2], blk[4 * i + 3]]);
        }
        for i in 16..64 {
            let s0 = w[i - 15].rotate_right(7) ^ w[i - 15].rotate_right(18) ^ (w[i - 15] >> 3);
            let s1 = w[i - 2].rotate_right(17) ^ w[i - 2].rotate_right(19) ^ (w[i - 2] >> 10);
            w[i] = w[i - 16].wrapping_add(s0).wrapping_add(w[i - 7]).wrapping_add(s1);
        }
        let [mut a, mut b, mut c, mut d, mut e, mut f, mut g, mut hh] = h;
        for i in 0..64 {
            let s1 = e.rotate_right(6) ^ e.rotate_right(11) ^ e.rotate_right(25);
            let ch = (e & f) ^ (!e & g);
            let t1 = hh.wrapping_add(s1).wrapping_add(ch).wrapping_add(K256[i]).wrapping_add(w[i]);
            let s0 = a.rotate_right(2) ^ a.rotate_right(13) ^ a.rotate_right(22);
            let maj = (a & b) ^ (a & c) ^ (b & c);
            let t2 = s0.wrapping_add(maj);
            hh = g;
            g = f;
            f = e;
            e = d.wrapping_add(t1);
            d = c;
            c = b;
            b = a;
            a = t1.wrapping_add(t2);
        }
        for (x, y) in h.iter_mut().zip([a, b, c, d, e, f, g, hh]) {
            *x = x.wrapping_add(y);
        }
    }
    h.iter().flat_map(|x| x.to_be_bytes()).collect()
}

fn sha512_core(data: &[u8], iv: [u64; 8], out_len: usize) -> Vec<u8> {
    let mut h = iv;
    let mut m = data.to_vec();
    m.push(0x80);
    while m.len() % 128 != 112 {
        m.push(0);
    }
    m.extend_from_slice(&((data.len() as u128) * 8).to_be_bytes());
    for blk in m.chunks(128) {
        let mut w = [0u64; 80];
        for i in 0..16 {
            let mut b8 = [0u8; 8];
            b8.copy_from_slice(&blk[8 * i..8 * i + 8]);
            w[i] = u64::from_be_bytes(b8);
        }
        for i in 16..80 {
            let s0 = w[i - 15].rotate_right(1) ^ w[i - 15].rotate_right(8) ^ (w[i - 15] >> 7);
            let s1 = w[i - 2].rotate_right(19) ^ w[i - 2].rotate_right(61) ^ (w[i - 2] >> 6);
            w[i] = w[i - 16].wrapping_add(s0).wrapping_add(w[i - 7]).wrapping_add(s1);
        }
        let [mut a, mut b, mut c, mut d, mut e, mut f, mut g, mut hh] = h;
        for i in 0..80 {
            let s1 = e.rotate_right(14) ^ e.rotate_right(18) ^ e.rotate_right(41);
            let ch = (e & f) ^ (!e & g);
            let t1 = hh.wrapping_add(s1).wrapping_add(ch).wrapping_add(K512[i]).wrapping_add(w[i]);
            let s0 = a.rotate_right(28) ^ a.rotate_right(34) ^ a.rotate_right(39);
            let maj = (a & b) ^ (a & c) ^ (b & c);
            let t2 = s0.wrapping_add(maj);
            hh = g;
            g = f;
            f = e;
            e = d.wrapping_add(t1);
            d = c;
            c = b;
            b = a;
            a = t1.wrapping_add(t2);
        }
        for (x, y) in h.iter_mut().zip([a, b, c, d, e, f, g, hh]) {
            *x = x.wrapping_add(y);
        }
    }
    let mut o: Vec<u8> = h.iter().flat_map(|x| x.to_be_bytes()).collect();
    o.truncate(out_len);
    o
}
fn sha384(d: &[u8]) -> Vec<u8> {
    sha512_core(d, H384, 48)
}
fn sha512(d: &[u8]) -> Vec<u8> {
    sha512_core(d, H512, 64)
}

// =========================================================================== modular exponentiation (Montgomery, u32 limbs)
fn be_to_limbs(b: &[u8], k: usize) -> Vec<u32> {
    let mut v = vec![0u32; k];
    for (i, byte) in b.iter().rev().enumerate() {
        if i / 4 < k {
            v[i / 4] |= (*byte as u32) << (8 * (i % 4));
        } else {
            assert_eq!(*byte, 0, "operand longer than the modulus");
        }
    }
    v
}
fn limbs_to_be(v: &[u32], len: usize) -> Vec<u8> {
    let mut o = vec![0u8; len];
    for i in 0..len {
        let limb = v.get(i / 4).copied().unwrap_or(0);
        o[len - 1 - i] = (limb >> (8 * (i % 4))) as u8;
    }
    o
}
fn ge(a: &[u32], b: &[u32]) -> bool {
    for i in (0..a.len().max(b.len())).rev() {
        let x = a.get(i).copied().unwrap_or(0);
        let y = b.get(i).copied().unwrap_or(0);
        if x != y {
            return x > y;
        }
    }
    true
}
fn sub_in_place(a: &mut [u32], b: &[u32]) {
    let mut borrow = 0i64;
    for i in 0..a.len() {
        let y = b.get(i).copied().unwrap_or(0) as i64;
        let mut x = a[i] as i64 - y - borrow;
        if x < 0 {
            x += 1 << 32;
            borrow = 1;
        } else {
            borrow = 0;
        }
        a[i] = x as u32;
    }
}
fn mont_mul(a: &[u32], b: &[u32], n: &[u32], n0inv: u32) -> Vec<u32> {
    let k = n.len();
    let mut t = vec![0u32; k + 2];
    for i in 0..k {
        let mut c: u64 = 0;
        for j in 0..k {
            let s = t[j] as u64 + (a[i] as u64) * (b[j] as u64) + c;
            t[j] = s as u32;
            c = s >> 32;
        }
        let s = t[k] as u64 + c;
        t[k] = s as u32;
        t[k + 1] = (s >> 32) as u32;
        let m = t[0].wrapping_mul(n0inv);
        let mut c: u64 = (t[0] as u64 + (m as u64) * (n[0] as u64)) >> 32;
        for j in 1..k {
            let s = t[j] as u64 + (m as u64) * (n[j] as u64) + c;
            t[j - 1] = s as u32;
            c = s >> 32;
        }
        let s = t[k] as u64 + c;
        t[k - 1] = s as u32;
        t[k] = t[k + 1] + ((s >> 32) as u32);
        t[k + 1] = 0;
    }
    if ge(&t, n) {
        sub_in_place(&mut t, n);
    }
    t.truncate(k);
    t
}
/// base^exp mod n; all big-endian; n odd; base < n.  Result has n's length.
fn modpow(base: &[u8], exp: &[u8], n_be: &[u8]) -> Vec<u8> {
    let nb: Vec<u8> = n_be.iter().copied().skip_while(|b| *b == 0).collect();
    let k = nb.len().div_ceil(4);
    let n = be_to_limbs(&nb, k);
    assert!(n[0] & 1 == 1, "modulus must be odd");
    let mut inv: u32 = 1;
    for _ in 0..6 {
        inv = inv.wrapping_mul(2u32.wrapping_sub(n[0].wrapping_mul(inv)));
    }
    let n0inv = inv.wrapping_neg();
    // R^2 mod n by doubling
    let mut x = vec![0u32; k + 1];
    x[0] = 1;
    for _ in 0..(2 * 32 * k) {
        let mut carry = 0u32;
        for limb in x.iter_mut() {
            let nc = *limb >> 31;
            *limb = (*limb << 1) | carry;
            carry = nc;
        }
        if ge(&x, &n) {
            sub_in_place(&mut x, &n);
        }
    }
    x.truncate(k);
    let rr = x;
    let b = be_to_limbs(base, k);
    assert!(!ge(&b, &n), "base must be below the modulus");
    let bm = mont_mul(&b, &rr, &n, n0inv);
    let mut one = vec![0u32; k];
    one[0] = 1;
    let mut r = mont_mul(&one, &rr, &n, n0inv);
    let mut started = false;
    for byte in exp {
        for bit in (0..8).rev() {
            let set = (byte >> bit) & 1 == 1;
            if started {
                r = mont_mul(&r, &r, &n, n0inv);
            }
            if set {
                r = mont_mul(&r, &bm, &n, n0inv);
                started = true;
            }
        }
    }
    let r = mont_mul(&r, &one, &n, n0inv);
    limbs_to_be(&r, nb.len())
}

// =========================================================================== DER
fn der_len(n: usize) -> Vec<u8> {
    if n < 0x80 {
        vec![n as u8]
    } else {
        let b: Vec<u8> = n.to_be_bytes().iter().copied().skip_while(|x| *x == 0).collect();
        let mut v = vec![0x80 | b.len() as u8];
        v.extend(b);
        v
    }
}
fn tlv(tag: u8, content: &[u8]) -> Vec<u8> {
    let mut v = vec![tag];
    v.extend(der_len(content.len()));
    v.extend_from_slice(content);
    v
}
fn cat(parts: &[Vec<u8>]) -> Vec<u8> {
    parts.concat()
}
fn seq(parts: &[Vec<u8>]) -> Vec<u8> {
    tlv(0x30, &cat(parts))
}
/// DER SET OF: elements sorted by their encodings
fn set_of(parts: &[Vec<u8>]) -> Vec<u8> {
    let mut p = parts.to_vec();
    p.sort();
    tlv(0x31, &cat(&p))
}
/// INTEGER from an unsigned big-endian magnitude
fn int_be(mag: &[u8]) -> Vec<u8> {
    let mut m: Vec<u8> = mag.iter().copied().skip_while(|b| *b == 0).collect();
    if m.is_empty() {
        m.push(0);
    }
    if m[0] & 0x80 != 0 {
        m.insert(0, 0);
    }
    tlv(0x02, &m)
}
fn int_u(n: u64) -> Vec<u8> {
    int_be(&n.to_be_bytes())
}
fn oid(s: &str) -> Vec<u8> {
    let a: Vec<u64> = s.split('.').map(|x| x.parse().unwrap()).collect();
    let mut c = vec![(a[0] * 40 + a[1]) as u8];
    for &x in &a[2..] {
        let mut tmp = vec![(x & 0x7f) as u8];
        let mut y = x >> 7;
        while y > 0 {
            tmp.push(((y & 0x7f) as u8) | 0x80);
            y >>= 7;
        }
        tmp.reverse();
        c.extend(tmp);
    }
    tlv(0x06, &c)
}
fn null() -> Vec<u8> {
    vec![0x05, 0x00]
}
fn octets(b: &[u8]) -> Vec<u8> {
    tlv(0x04, b)
}
fn bitstring(b: &[u8]) -> Vec<u8> {
    let mut c = vec![0u8];
    c.extend_from_slice(b);
    tlv(0x03, &c)
}
fn utf8(s: &str) -> Vec<u8> {
    tlv(0x0c, s.as_bytes())
}
fn utctime(s: &str) -> Vec<u8> {
    tlv(0x17, s.as_bytes())
}
fn ctx_explicit(n: u8, inner: &[u8]) -> Vec<u8> {
    tlv(0xa0 | n, inner)
}
fn alg_id(o: &str, with_null: bool) -> Vec<u8> {
    if with_null { seq(&[oid(o), null()]) } else { seq(&[oid(o)]) }
}
/// minimal reader: children (tag, content) of a constructed value
fn der_children(mut b: &[u8]) -> Vec<(u8, Vec<u8>)> {
    let mut out = vec![];
    while !b.is_empty() {
        let tag = b[0];
        let (len, hl) = if b[1] < 0x80 {
            (b[1] as usize, 2)
        } else {
            let nb = (b[1] & 0x7f) as usize;
            let mut l = 0usize;
            for i in 0..nb {
                l = (l << 8) | b[2 + i] as usize;
            }
            (l, 2 + nb)
        };
        out.push((tag, b[hl..hl + len].to_vec()));
        b = &b[hl + len..];
    }
    out
}

const OID_SIGNED_DATA: &str = "1.2.840.113549.1.7.2";
const OID_DATA: &str = "1.2.840.113549.1.7.1";
const OID_RSA: &str = "1.2.840.113549.1.1.1";
const OID_EC: &str = "1.2.840.10045.2.1";
const OID_SHA256_RSA: &str = "1.2.840.113549.1.1.11";
const OID_CT_ATTR: &str = "1.2.840.113549.1.9.3";
const OID_MD_ATTR: &str = "1.2.840.113549.1.9.4";
const OID_SKI_EXT: &str = "2.5.29.14";
const OID_CN: &str = "2.5.4.3";

fn dalg_oid(d: &str) -> &'static str {
    match d {
        "sha256" => "2.16.840.1.101.3.4.2.1",
        "sha384" => "2.16.840.1.101.3.4.2.2",
        "sha512" => "2.16.840.1.101.3.4.2.3",
        "md5" => "1.2.840.113549.2.5",
        other => panic!("driver: unknown digest {other}"),
    }
}
fn digest(d: &str, data: &[u8]) -> Vec<u8> {
    match d {
        "sha256" => sha256(data),
        "sha384" => sha384(data),
        "sha512" => sha512(data),
        "md5" => md5::compute(data).0.to_vec(),
        other => panic!("driver: unknown digest {other}"),
    }
}

// =========================================================================== fixed test keys (openssl genrsa; PKCS#1 DER)
const KEY_DER_HEX: [&str; 3] = [
    "3082025e02010002818100e2dff2ca3777411b0209adf07f49c1222f4037d01ba229ef19acda045a8a7018ba9b5cd921773eef3049e73dc436716c59786d11d0a0204e06a53fcd365f857338885d4d62cb278af7a2bee129db5b2a936d174bef3e7427a1316d0b1ca8094c9df753ed4b60438b109df19a695bbad1230665f03df2fc6fef7c68c347d44dfb020301000102818100b607049fa65cf2499f1af109f2b6d4547f20c12721e4bc4c708734ed254fc99cadac1594c8bb0a2d92cad8d3bfe8069cee34271e920ac7a092c867265927cec31ea6ff6e9cbf8285be96b9dc57023b92fc54f7611faadbfe4183059fde8145158a7263ee24925f984a3076dc6854a0dbff74d94bde99f01c9e7fd12e22e17b21024100f486974a5d21911fc5fa2c71457a5ce0d7a9d053dd714cdf59e2a86cee6181c0b8a01b3dd6a9f3155c8b75e12b627740d7dbe687bfaed91ad54a1f2b820524f3024100ed8552806aa2e6d4f92442d99838bf2a6dcc28af9c32262839e732ac3d98a5223ff4860b6bca57c4e81820309fae6117ebd0c41737b12be10345e3d4745714d9024100b1e26795158321cbf77e336e8398ac9074d378564a35ee325d7562093cb17a6ef4e0a470ac051e6d5fd1a48395c81ff0f0176cf13c24ba93a6ae3156b9537cb902410082eeaea709a1993ba7c77c6e74c23b67493574ec315f57b76f0beadc15ec728369dc0294832bfcac18014ca561310066ee609be7ec94670ad8020bf08edd7e290240451eff1baaab2b3356f6314527f0138904fc8ffaafa520e3644744021319446efaf83950c7532f0b499a2f84fa99a43b7552e29077d224b34a324c63f8000d32",
    "3082025c02010002818100a59c2dba5445faafa338b36b3109e6ab165b6e3213ccb1482bfb24c009f83682647ed1f6e7c615f3121d00e5b341ed2c9c1077772f4ce03cd3596702a5a951dcd813a7eddf009c1656e08863923dd62808c7b65c214464e07dbde9ea83b4bc925ba5e3f7d3e8e06466f6e38d5e4fd28d39114548a0c858defbe1aeb6b2e18c5502030100010281810083002cc7e49bca761ed5de4f1f666699d54093c5771606f24120136cf935e7e0732042745dd8ba4a217ce1d5d15b88022e9d73f2ca6eb43e492cc2283ce4d8046499ac6ce835bc38c8d375a3a2b2ccf7f25613a71d94aff9202b3b2df944daeb40d3d6c8da1e6539dc376bdd0a0f9e0b96a3be3952bcf5dc20e230021ac7f80d024100d88b1bcc9ab3d0e4db0ec4ef1dab583fb0e8e555717b470a337d775cfa43d9bca372affb374398bd8302f08c4b3052006b25f355a5ece5b52a7a7623edb0a9e7024100c3c93b8060bc5ad8e33a813e4d39023f3d23d154d28080bc1f37fdd912ee360c2a078aa8815ef055752da94b71aa87f2468c1f644a9f47b8c646a3b21be6686302402ec44c6ab1f6a7e4e5529941b33cb040812aab6cfaa74f3e6ac46c250e7fdce49ac048358f47f012edda92ad1a08038dc79658a964be7715db68bb5f2314867d02404f519c7893385bf9d87d20555445cf623d6be067e3ec49bb6d4e6ada61effe1789838aaa5fd74db8e183413e1e6bbf2de964e566e5508867147513e699a50c0f02402d23228c252f6a66dbcb91c973dd6e2d3a40400f043611549bd2084e0a691ecd4f3abc72d9e87efcb44848adfdcf2e1079b1fec78fe643038054e79f838f8f8c",
    "308204a40201000282010100bfd8fa62f88e3a22d63b56261aae063de5b8abf41d2b6c3ef2fe88af4d7636035b4a8edf7c199a46dcd41bdedea9637165a41a74f7bb2e03fb676f47fc50d87e3219b3ae43894ee244981aca181d6babca395ad57c3efc48fa870bef56d88cc24ae69feb036a1fab20c96def27bcf3c8b9d79722b2c4f307599d8ce282b38b2c3eba521fcdb912d36f0e2ca76d66db8d9f20a00b1b96a183ea2f86fd125d18280d16ab5453d313e8651afe59b8cb46503e2a358fe101e91440d6807600a96ec630e98e419642ca04193d1da5d60b94779155706f8fd41a6eb539e2348732f62a11bc5e35b3992fed47b7a0b1c9a9c76e5000d058f8514b4b761e0432150b32790203010001028201001e52f6a8e42edf0398a74263bd7dda60b849eb6c279c307cf6bdc2ef2aa84fbb5217c3e391631e9eaad32020a7435103a09442d6503e16f4ec2d1a4adf980bd04eacff58c13617f0edf4b8ef4ec67fb964ba92200286962c16e577be7a14ba930f71cabf4407e73f8e6c28634ffdaeef0069126b9aa444e1d9896cb675005a33fa7b4aaba36ecfa4ac63a1bd9581e1fb8700b945766468081e7d62f2c70b728f9505709b34a2779cd670932a667f612060a92d90f77de3687a2fce0ee9249aafb793bb4833cd0bc046a144797a147cba3fc44deb2c78ac81b4b232ea534c10ece646821b1c84a482efcca6945b0e2f1a90d4842d683da52b3a5c046ee0ab2d7d02818100fd3d48b5da8f4411f5207542de9cfad64881bb8dc921de436dd5f51d1302ebf29423aed66dfd2834e582b2e47fd9a1379d9b3f6a4eb0e6676b8fb2f74b7bee6165f774e1f7529ab16dc58bd55e3bb8b281d681b3b024c66d2d2e77aa2dd84d4d6a6960b442764bf119a266c72604c93c17255f76dad18d08dbcba19eb57b0f9b02818100c1f05e21904064ad295b767787f4d109c185a76b69e3184ce7450c200da174454c8a29ec35b72bff11a32d9afdef67c3d7c0cd380180c2111a5dda8ce34dc7daf02d43db41ca1d0d5d9bb8caf17fab8fc47a90efdc21478a956aa4ec80c93e730d01df967b5948610026e9474bece73e81891901a370ee1b7829a386069ec97b02818100bbb9605b1ea7b16836745738b8d959c0db83004bbcdbd46ddbd00da1fde3de90b66c354153cba4b081aa7f7e8f9ffeb8c1a6c23dc613b0d8dd8d6ab793474d90fa0b94a3a5b9a05f02e6bc1ff17908139bd82dd1cc3396bc7c0fc4396d3eb91f3850e194fee7bea7fdbebbbdc95b26e9daa6a3bbf1be01749daab8267495c31d0281802a5bbf9381182f650ac569488e2f5080dafdc0255bc9380383f7b6c04179e41546b45e97b2dbc10642e9eb0a11307aef716e30e46c9f9cc37388d035396841a07618ccdb54b13a4b3308d201b1617b2d3972b3b94fd10cf91dcd5f1c30bcc3a10954416b72a17b87842afb8490f6bb4311b3c9fc6ba03cc14f2b7905cae85f8502818100f2180902663c1ce5cdcbcc6a5bd03d46e3a7b15fab8da9a0e0493c37426a2c6ae0e7c52b0da529e44f3088d2a6cb8f5d3b3910f9e84c1432306b5735694565510cb0e4805d62dd09734193d0abdb631138667369c6d05dc5b02f0625d168150190c30f9a7e8d5e4bd58bfd04af207e4d71781b0ee0c3ddb349298fadb1ec01c9",
];

#[derive(Clone)]
struct Key {
    n: Vec<u8>,
    e: Vec<u8>,
    d: Vec<u8>,
}
impl Key {
    fn pkcs1_public(&self) -> Vec<u8> {
        seq(&[int_be(&self.n), int_be(&self.e)])
    }
    fn klen(&self) -> usize {
        self.n.len()
    }
    /// RSASSA-PKCS1-v1_5 over an already computed digest
    fn sign_digest(&self, dalg: &str, dig: &[u8]) -> Vec<u8> {
        let di = seq(&[alg_id(dalg_oid(dalg), true), octets(dig)]);
        let k = self.klen();
        let mut em = vec![0x00, 0x01];
        em.extend(std::iter::repeat_n(0xff, k - 3 - di.len()));
        em.push(0);
        em.extend(di);
        modpow(&em, &self.d, &self.n)
    }
    fn sign(&self, dalg: &str, msg: &[u8]) -> Vec<u8> {
        self.sign_digest(dalg, &digest(dalg, msg))
    }
    /// the driver's own reference check (used for the start-up self check only)
    fn verifies(&self, dalg: &str, msg: &[u8], sig: &[u8]) -> bool {
        if sig.len() != self.klen() || ge(&be_to_limbs(sig, self.klen().div_ceil(4)), &be_to_limbs(&self.n, self.klen().div_ceil(4))) {
            return false;
        }
        modpow(sig, &self.e, &self.n) == {
            let di = seq(&[alg_id(dalg_oid(dalg), true), octets(&digest(dalg, msg))]);
            let mut em = vec![0x00, 0x01];
            em.extend(std::iter::repeat_n(0xff, self.klen() - 3 - di.len()));
            em.push(0);
            em.extend(di);
            em
        }
    }
}
fn keys() -> &'static Vec<Key> {
    static K: std::sync::OnceLock<Vec<Key>> = std::sync::OnceLock::new();
    K.get_or_init(|| {
        KEY_DER_HEX
            .iter()
            .map(|h| {
                let der = hex::decode(h).unwrap();
                let outer = der_children(&der);
                let f = der_children(&outer[0].1);
                let strip = |b: &Vec<u8>| -> Vec<u8> { b.iter().copied().skip_while(|x| *x == 0).collect() };
                Key { n: strip(&f[1].1), e: strip(&f[2].1), d: strip(&f[3].1) }
            })
            .collect()
    })
}
fn key(i: u64) -> &'static Key {
    &keys()[(i - 1) as usize]
}

fn b64(data: &[u8]) -> String {
    const T: &[u8; 64] = b"ABCDEFGHIJKLMNOPQRSTUVWXYZabcdefghijklmnopqrstuvwxyz0123456789+/";
    let mut s = String::new();
    for c in data.chunks(3) {
        let n = (c[0] as u32) << 16 | (*c.get(1).unwrap_or(&0) as u32) << 8 | *c.get(2).unwrap_or(&0) as u32;
        s.push(T[(n >> 18) as usize & 63] as char);
        s.push(T[(n >> 12) as usize & 63] as char);
        s.push(if c.len() > 1 { T[(n >> 6) as usize & 63] as char } else { '=' });
        s.push(if c.len() > 2 { T[n as usize & 63] as char } else { '=' });
    }
    s
}

fn find_sub(hay: &[u8], needle: &[u8]) -> Option<usize> {
    if needle.is_empty() || needle.len() > hay.len() {
        return None;
    }
    hay.windows(needle.len()).position(|w| w == needle)
}

/// start-up self check of the driver's own primitives (a wrong primitive is a tool failure, not data)
fn self_check() {
    assert_eq!(hex::encode(sha256(b"abc")), "ba7816bf8f01cfea414140de5dae2223b00361a396177a9cb410ff61f20015ad");
    assert_eq!(
        hex::encode(sha384(b"abc")),
        "cb00753f45a35e8bb5a03d699ac65007272c32ab0eded1631a8b605a43ff5bed8086072ba1e7cc2358baeca134c825a7"
    );
    assert_eq!(
        hex::encode(sha512(b"abc")),
        "ddaf35a193617abacc417349ae20413112e6fa4e89a97ea20a9eeee64b55d39a2192992a274fc1a836ba3c23a3feebbd454d4423643ce80e2a9ac94fa54ca49f"
    );
    let long = vec![b'a'; 1000];
    assert_eq!(hex::encode(sha256(&long)), "41edece42d63e8d9bf515a9ba6932e1c20cbc9f5a5d134645adb5db1b9737ea3");
    for k in keys() {
        let s = k.sign("sha256", b"x07 self check");
        assert!(k.verifies("sha256", b"x07 self check", &s));
        assert!(!k.verifies("sha256", b"x07 self check.", &s));
    }
    assert_eq!(b64(b"any carnal pleas"), "YW55IGNhcm5hbCBwbGVhcw==");
    // second opinion: the RustCrypto crates agree with the driver's own SHA-2 and PKCS#1 v1.5 signatures
    {
        use rsa::pkcs1::DecodeRsaPrivateKey;
        use rsa::signature::{SignatureEncoding, Signer};
        use sha2::Digest;
        let msg = content(3);
        assert_eq!(sha2::Sha256::digest(&msg).to_vec(), sha256(&msg));
        assert_eq!(sha2::Sha384::digest(&msg).to_vec(), sha384(&msg));
        assert_eq!(sha2::Sha512::digest(&msg).to_vec(), sha512(&msg));
        for (i, h) in KEY_DER_HEX.iter().enumerate() {
            let sk = rsa::RsaPrivateKey::from_pkcs1_der(&hex::decode(h).unwrap()).expect("test key");
            let theirs = rsa::pkcs1v15::SigningKey::<sha2::Sha256>::new(sk.clone()).sign(&msg).to_vec();
            assert_eq!(theirs, key(i as u64 + 1).sign("sha256", &msg), "signature of key {}", i + 1);
            let theirs = rsa::pkcs1v15::SigningKey::<sha2::Sha512>::new(sk).sign(&msg).to_vec();
            assert_eq!(theirs, key(i as u64 + 1).sign("sha512", &msg), "signature of key {}", i + 1);
        }
    }
}


// =========================================================================== abstract descriptions -> bytes
/// content ids of the abstract model -> the bytes they denote (BPSV texts, LF line ends, final LF)
fn content(c: u64) -> Vec<u8> {
    let head = "Region!STRING:0|BuildConfig!HEX:16|CDNConfig!HEX:16|BuildId!DEC:4|VersionsName!String:0\n## seqn = 2241282\n";
    match c {
        1 => format!("{head}us|be2bb98dc28aee05bbee519393696cdb|fac77b9ca52c84ac28ad83a7dbe1c829|61491|11.1.0.61491\n").into_bytes(),
        2 => format!("{head}eu|0123456789abcdef0123456789abcdef|fedcba9876543210fedcba9876543210|61492|11.1.0.61492\n").into_bytes(),
        3 => {
            let mut s = head.to_string();
            for i in 0..40 {
                s.push_str(&format!("r{i}|{:032x}|{:032x}|{}|11.1.0.{}\n", 0x1111 * (i + 1), 0x2222 * (i + 1), 60000 + i, 60000 + i));
            }
            s.into_bytes()
        }
        other => panic!("driver: unknown content id {other}"),
    }
}

fn name_der(cn: &str) -> Vec<u8> {
    seq(&[set_of(&[seq(&[oid(OID_CN), utf8(cn)])])])
}
fn ski_bytes(s: &str) -> Vec<u8> {
    hex::decode(s).unwrap_or_else(|_| panic!("driver: ski must be hex: {s}"))
}

/// X.509 v3 certificate, self-signed with its own key (sha256WithRSAEncryption).
/// {"key":k,"name":"A","serial":n,"ski":"hex"|null,"alg":"rsa"|"ec","exp":bool}
fn build_cert(c: &Value) -> Vec<u8> {
    static CACHE: std::sync::OnceLock<Mutex<HashMap<String, Vec<u8>>>> = std::sync::OnceLock::new();
    let cache = CACHE.get_or_init(|| Mutex::new(HashMap::new()));
    let id = c.to_string();
    if let Some(v) = cache.lock().unwrap().get(&id) {
        return v.clone();
    }
    let k = key(c["key"].as_u64().expect("cert.key"));
    let name = name_der(c["name"].as_str().expect("cert.name"));
    let spki = if c["alg"].as_str().unwrap_or("rsa") == "rsa" {
        seq(&[alg_id(OID_RSA, true), bitstring(&k.pkcs1_public())])
    } else {
        // an EC key (P-256 point made from the RSA modulus bytes: never used to verify anything)
        let mut pt = vec![0x04];
        pt.extend_from_slice(&k.n[..64]);
        seq(&[seq(&[oid(OID_EC), oid("1.2.840.10045.3.1.7")]), bitstring(&pt)])
    };
    let validity = if c["exp"].as_bool().unwrap_or(false) {
        seq(&[utctime("000101000000Z"), utctime("010101000000Z")])
    } else {
        seq(&[utctime("200101000000Z"), utctime("491231235959Z")])
    };
    let mut tbs = vec![
        ctx_explicit(0, &int_u(2)),
        int_u(c["serial"].as_u64().expect("cert.serial")),
        alg_id(OID_SHA256_RSA, true),
        name.clone(),
        validity,
        name,
        spki,
    ];
    if let Some(s) = c["ski"].as_str().filter(|s| !s.is_empty()) {
        tbs.push(ctx_explicit(3, &seq(&[seq(&[oid(OID_SKI_EXT), octets(&octets(&ski_bytes(s)))])])));
    }
    let tbs = seq(&tbs);
    let sig = k.sign("sha256", &tbs);
    let cert = seq(&[tbs, alg_id(OID_SHA256_RSA, true), bitstring(&sig)]);
    cache.lock().unwrap().insert(id, cert.clone());
    cert
}

fn signed_attrs(dalg: &str, md: u64) -> Vec<Vec<u8>> {
    let md = if md > 0 { digest(dalg, &content(md)) } else { vec![0x5a; digest(dalg, b"").len()] };
    vec![seq(&[oid(OID_CT_ATTR), set_of(&[oid(OID_DATA)])]), seq(&[oid(OID_MD_ATTR), set_of(&[octets(&md)])])]
}

struct Built {
    der: Vec<u8>,
    /// signature values of the signers, in description order
    sigs: Vec<Vec<u8>>,
}

/// signing is deterministic: remember (key, digest, message digest) -> signature
fn sign_cached(kid: u64, dalg: &str, msg: &[u8]) -> Vec<u8> {
    static CACHE: std::sync::OnceLock<Mutex<HashMap<(u64, String, Vec<u8>), Vec<u8>>>> = std::sync::OnceLock::new();
    let cache = CACHE.get_or_init(|| Mutex::new(HashMap::new()));
    let dig = digest(dalg, msg);
    let id = (kid, dalg.to_string(), dig.clone());
    if let Some(v) = cache.lock().unwrap().get(&id) {
        return v.clone();
    }
    let sig = key(kid).sign_digest(dalg, &dig);
    cache.lock().unwrap().insert(id, sig.clone());
    sig
}

/// CMS ContentInfo(SignedData) from the abstract description (records of spec/Signature.tla):
/// {"certs":[cert..],"signers":[{"sidt":"isn"|"ski","sname":..,"sserial":..,"sski":hex,"dalg":..,"by":k,
///   "over":"content"|"attrs"|"junk","oc":n,"attrs":bool,"md":n}..],"econtent":n (0 = detached),"wrap":"signed"|"data"}
fn build_cms(d: &Value) -> Built {
    let empty = vec![];
    let mut sigs = vec![];
    let mut sinfos = vec![];
    let mut dalgs: Vec<Vec<u8>> = vec![];
    for s in d["signers"].as_array().unwrap_or(&empty) {
        let dalg = s["dalg"].as_str().unwrap_or("sha256");
        let kid = s["by"].as_u64().expect("signer.by");
        let (ver, sid) = match s["sidt"].as_str().expect("signer.sidt") {
            "isn" => (1, seq(&[name_der(s["sname"].as_str().unwrap()), int_u(s["sserial"].as_u64().unwrap())])),
            "ski" => (3, tlv(0x80, &ski_bytes(s["sski"].as_str().unwrap()))),
            other => panic!("driver: unknown sid type {other}"),
        };
        let attrs = if s["attrs"].as_bool().unwrap_or(false) { Some(signed_attrs(dalg, s["md"].as_u64().unwrap_or(0))) } else { None };
        let sig = match s["over"].as_str().expect("signer.over") {
            "content" => sign_cached(kid, dalg, &content(s["oc"].as_u64().unwrap())),
            "attrs" => sign_cached(kid, dalg, &set_of(attrs.as_ref().expect("driver: over = attrs needs attrs"))),
            "junk" => {
                // a well-formed number below the modulus that nobody signed
                let mut r = Rng::new(0x5167 + kid);
                let mut v = r.bytes(key(kid).klen());
                v[0] &= 0x3f;
                v
            }
            other => panic!("driver: unknown over type {other}"),
        };
        let da = alg_id(dalg_oid(dalg), true);
        if !dalgs.contains(&da) {
            dalgs.push(da.clone());
        }
        let mut f = vec![int_u(ver), sid, da];
        if let Some(a) = &attrs {
            let mut sorted = a.clone();
            sorted.sort();
            f.push(tlv(0xa0, &cat(&sorted)));
        }
        f.push(alg_id(OID_RSA, true));
        f.push(octets(&sig));
        sigs.push(sig);
        sinfos.push(seq(&f));
    }
    let eci = match d["econtent"].as_u64().unwrap_or(0) {
        0 => seq(&[oid(OID_DATA)]),
        c => seq(&[oid(OID_DATA), ctx_explicit(0, &octets(&content(c)))]),
    };
    let mut sd = vec![int_u(if sinfos.is_empty() { 1 } else { 3 }), set_of(&dalgs), eci];
    let certs: Vec<Vec<u8>> = d["certs"].as_array().unwrap_or(&empty).iter().map(build_cert).collect();
    if !certs.is_empty() {
        let mut sorted = certs.clone();
        sorted.sort();
        sd.push(tlv(0xa0, &cat(&sorted)));
    }
    sd.push(set_of(&sinfos));
    let ct = if d["wrap"].as_str().unwrap_or("signed") == "signed" { OID_SIGNED_DATA } else { OID_DATA };
    Built { der: seq(&[oid(ct), ctx_explicit(0, &seq(&sd))]), sigs }
}

/// byte regions [lo, hi) of the blob: signature values ("sig"), modulus / public exponent of the embedded RSA keys that
/// made one of the signature values ("mod", "exp") and of the other embedded keys ("mod_other", "exp_other")
fn blob_regions(d: &Value, b: &Built) -> Value {
    let mut r = serde_json::Map::new();
    let mut sig = vec![];
    for s in &b.sigs {
        if let Some(p) = find_sub(&b.der, s) {
            sig.push(json!([p, p + s.len()]));
        }
    }
    r.insert("sig".into(), json!(sig));
    let empty = vec![];
    let signing: Vec<u64> = d["signers"].as_array().unwrap_or(&empty).iter().filter_map(|s| s["by"].as_u64()).collect();
    let (mut modulus, mut exp, mut modulus_o, mut exp_o) = (vec![], vec![], vec![], vec![]);
    for c in d["certs"].as_array().unwrap_or(&empty) {
        if c["alg"].as_str().unwrap_or("rsa") != "rsa" {
            continue;
        }
        let kid = c["key"].as_u64().unwrap();
        let k = key(kid);
        let pk = k.pkcs1_public();
        if let Some(p) = find_sub(&b.der, &pk) {
            let m = p + find_sub(&pk, &k.n).unwrap();
            let e = p + pk.len() - k.e.len();
            if signing.contains(&kid) {
                modulus.push(json!([m, m + k.n.len()]));
                exp.push(json!([e, e + k.e.len()]));
            } else {
                modulus_o.push(json!([m, m + k.n.len()]));
                exp_o.push(json!([e, e + k.e.len()]));
            }
        }
    }
    r.insert("mod".into(), json!(modulus));
    r.insert("exp".into(), json!(exp));
    r.insert("mod_other".into(), json!(modulus_o));
    r.insert("exp_other".into(), json!(exp_o));
    Value::Object(r)
}

// =========================================================================== the calls under test
fn short(s: impl AsRef<str>) -> String {
    s.as_ref().chars().take(160).collect()
}

/// result of parse_and_verify_signature as a record
fn call_verify(blob: &[u8], data: Option<&[u8]>) -> Value {
    match guarded(|| parse_and_verify_signature(blob, data)) {
        Err(p) => json!({"class": "panic", "msg": short(p)}),
        Ok(Err(e)) => json!({"class": "err", "msg": short(e.to_string())}),
        Ok(Ok(si)) => json!({"class": "ok", "valid": si.verification.is_valid, "chain": si.verification.certificate_chain_valid,
            "signers": si.signer_count, "certs": si.certificate_count, "dalg": si.digest_algorithm, "salg": si.signature_algorithm,
            "size": si.size, "chain_fn": validate_certificate_chain(&si.certificates),
            "details": si.verification.details.iter().map(short).collect::<Vec<_>>()}),
    }
}
fn verify_code(r: &Value) -> u8 {
    match r["class"].as_str().unwrap() {
        "err" => 0,
        "panic" => 3,
        _ => {
            if r["valid"] == true { 2 } else { 1 }
        }
    }
}

fn trimmed_md5(s: &[u8]) -> String {
    let t = String::from_utf8_lossy(s);
    md5hex(t.trim().as_bytes())
}

fn call_mime_v1(raw: &[u8], sd: Option<&[u8]>) -> Value {
    match guarded(|| cascette_protocol::v1_mime::parse_v1_mime_response(raw, sd)) {
        Err(p) => json!({"class": "panic", "msg": short(p)}),
        Ok(Err(e)) => json!({"class": "err", "msg": short(e.to_string())}),
        Ok(Ok(r)) => {
            let sig = match &r.signature_info {
                None => json!("none"),
                Some(si) => json!(if si.verification.is_valid { "valid" } else { "invalid" }),
            };
            json!({"class": "ok", "data_md5": trimmed_md5(r.data.as_bytes()), "data_len": r.data.len(), "sig": sig,
                "cks": r.checksum.clone().unwrap_or_else(|| "none".into()), "raw_kept": r.raw == raw,
                "nsig": r.signature_info.as_ref().map(|s| s.signer_count as i64).unwrap_or(-1)})
        }
    }
}
fn call_mime_legacy(raw: &[u8]) -> Value {
    match guarded(|| cascette_protocol::mime_parser::parse_v1_mime_response(raw)) {
        Err(p) => json!({"class": "panic", "msg": short(p)}),
        Ok(Err(e)) => json!({"class": "err", "msg": short(e.to_string())}),
        Ok(Ok(r)) => json!({"class": "ok", "data_md5": trimmed_md5(r.data.as_bytes()), "data_len": r.data.len(),
            "sig": if r.signature.is_some() { "some" } else { "none" },
            "sig_md5": r.signature.as_ref().map(|s| md5hex(s)).unwrap_or_else(|| "none".into()),
            "cks": r.checksum.clone().unwrap_or_else(|| "none".into())}),
    }
}
fn mime_code(r: &Value) -> u8 {
    match r["class"].as_str().unwrap() {
        "err" => 0,
        "panic" => 3,
        _ => match r["sig"].as_str().unwrap() {
            "none" => 1,
            "invalid" => 4,
            "valid" => 2,
            _ => 1,
        },
    }
}

// =========================================================================== MIME envelope
struct Envelope {
    raw: Vec<u8>,
    /// the digits written after "Checksum: " ("none" without epilogue)
    cks_text: String,
    /// offset in `raw` of byte i of the signature blob (binary body), or of base64 character j (text bodies)
    sig_pos: Vec<usize>,
    b64: bool,
}

/// {"c":n,"disp":"version","sig":"none"|"cms"|"junk_text"|"junk_der"|"cut","cms":{..},"enc":"cte"|"bin"|"tline",
///  "order":"ds"|"sd","cks":"none"|"sha256"|"sha256uc"|"md5"|"bad64"|"bad32","mp":bool}
fn build_envelope(m: &Value) -> (Envelope, Option<Built>) {
    let b = "X07Boundary";
    let body = content(m["c"].as_u64().unwrap_or(1));
    let mut built = None;
    let sig_bytes: Option<Vec<u8>> = match m["sig"].as_str().unwrap_or("none") {
        "none" => None,
        "cms" => {
            let bb = build_cms(&m["cms"]);
            let d = bb.der.clone();
            built = Some(bb);
            Some(d)
        }
        "junk_der" => Some(seq(&[oid(OID_DATA), ctx_explicit(0, &octets(b"well-formed DER, not a signature"))])),
        "cut" => {
            let mut v = build_cms(&json!({"certs": [], "signers": [], "econtent": 0})).der;
            v.truncate(v.len() - 3);
            Some(v)
        }
        "junk_text" => Some(b"this is not a signature at all".to_vec()),
        other => panic!("driver: unknown signature kind {other}"),
    };
    let mut raw: Vec<u8> = vec![];
    let mut sig_pos = vec![];
    let mut is_b64 = false;
    if !m["mp"].as_bool().unwrap_or(true) {
        raw.extend_from_slice(b"MIME-Version: 1.0\r\nContent-Type: text/plain\r\n\r\n");
        raw.extend_from_slice(&body);
    } else {
        raw.extend_from_slice(format!("MIME-Version: 1.0\r\nContent-Type: multipart/alternative; boundary=\"{b}\"\r\n\r\n").as_bytes());
        let disp = m["disp"].as_str().unwrap_or("version").to_string();
        let enc = m["enc"].as_str().unwrap_or("cte").to_string();
        let put_data = |raw: &mut Vec<u8>| {
            raw.extend_from_slice(format!("--{b}\r\nContent-Type: text/plain\r\nContent-Disposition: {disp}\r\n\r\n").as_bytes());
            raw.extend_from_slice(&body);
            raw.extend_from_slice(b"\r\n");
        };
        let mut put_sig = |raw: &mut Vec<u8>| {
            let Some(sb) = &sig_bytes else { return };
            let ctype = if enc == "tline" { "text/plain" } else { "application/octet-stream" };
            raw.extend_from_slice(format!("--{b}\r\nContent-Type: {ctype}\r\nContent-Disposition: signature\r\n").as_bytes());
            match enc.as_str() {
                "cte" => {
                    // announced base64 in lines of 64 characters
                    raw.extend_from_slice(b"Content-Transfer-Encoding: base64\r\n\r\n");
                    for (i, ch) in b64(sb).bytes().enumerate() {
                        if i > 0 && i % 64 == 0 {
                            raw.extend_from_slice(b"\r\n");
                        }
                        sig_pos.push(raw.len());
                        raw.push(ch);
                    }
                    is_b64 = true;
                }
                "tline" => {
                    // a text part holding one line of base64, not announced
                    raw.extend_from_slice(b"\r\n");
                    for ch in b64(sb).bytes() {
                        sig_pos.push(raw.len());
                        raw.push(ch);
                    }
                    is_b64 = true;
                }
                "bin" => {
                    raw.extend_from_slice(b"Content-Transfer-Encoding: binary\r\n\r\n");
                    for byte in sb {
                        sig_pos.push(raw.len());
                        raw.push(*byte);
                    }
                }
                other => panic!("driver: unknown encoding {other}"),
            }
            raw.extend_from_slice(b"\r\n");
        };
        if m["order"].as_str().unwrap_or("ds") == "ds" {
            put_data(&mut raw);
            put_sig(&mut raw);
        } else {
            put_sig(&mut raw);
            put_data(&mut raw);
        }
        raw.extend_from_slice(format!("--{b}--\r\n").as_bytes());
    }
    let cks_text = match m["cks"].as_str().unwrap_or("none") {
        "none" => "none".to_string(),
        "sha256" => hex::encode(sha256(&raw)),
        "sha256uc" => hex::encode(sha256(&raw)).to_uppercase(),
        "md5" => md5hex(&raw),
        "bad64" => hex::encode(sha256(b"something else")),
        "bad32" => md5hex(b"something else"),
        other => panic!("driver: unknown checksum kind {other}"),
    };
    if cks_text != "none" {
        raw.extend_from_slice(format!("Checksum: {cks_text}\r\n").as_bytes());
    }
    (Envelope { raw, cks_text, sig_pos, b64: is_b64 }, built)
}

/// the bytes a caller hands in as "the data that was signed"
fn signed_data_arg(sd: &str, c: u64) -> Option<Vec<u8>> {
    match sd {
        "none" => None,
        "part" => Some(content(c)),
        "other" => Some(content(if c == 1 { 2 } else { 1 })),
        other => panic!("driver: unknown sd {other}"),
    }
}

fn coalesce(mut pos: Vec<usize>) -> Vec<Value> {
    pos.sort_unstable();
    let mut out: Vec<(usize, usize)> = vec![];
    for p in pos {
        match out.last_mut() {
            Some(l) if l.1 == p => l.1 = p + 1,
            _ => out.push((p, p + 1)),
        }
    }
    out.into_iter().map(|(a, b)| json!([a, b])).collect()
}

/// regions of the blob mapped into the response: positions whose every bit lies inside the region
fn map_regions(regs: &Value, env: &Envelope) -> Value {
    let mut out = serde_json::Map::new();
    for (name, list) in regs.as_object().unwrap() {
        let mut pos = vec![];
        for r in list.as_array().unwrap() {
            let (lo, hi) = (r[0].as_u64().unwrap() as usize, r[1].as_u64().unwrap() as usize);
            if env.b64 {
                let first = (8 * lo).div_ceil(6);
                let end = 8 * hi / 6;
                for j in first..end {
                    pos.push(env.sig_pos[j]);
                }
            } else {
                for i in lo..hi {
                    pos.push(env.sig_pos[i]);
                }
            }
        }
        out.insert(name.clone(), json!(coalesce(pos)));
    }
    Value::Object(out)
}

// =========================================================================== synchronous programs
fn run_verify(p: &Value, em: &Emit) {
    let blob = match p["blob"].as_str() {
        Some(h) => hex::decode(h).expect("driver: blob hex"),
        None => build_cms(&p["cms"]).der,
    };
    let d = p["data"].as_u64().unwrap_or(0);
    let data = if d > 0 { Some(content(d)) } else { None };
    let mut ev = p.clone();
    ev.as_object_mut().unwrap().remove("blob");
    ev["op"] = json!("verify");
    ev["src"] = json!(if p["blob"].is_string() { p["src"].as_str().unwrap_or("fixture") } else { "driver" });
    ev["len"] = json!(blob.len());
    ev["res"] = call_verify(&blob, data.as_deref());
    em.ev(ev);
}

fn run_mime(p: &Value, em: &Emit) {
    let (env, _) = build_envelope(&p["env"]);
    let c = p["env"]["c"].as_u64().unwrap_or(1);
    let want = trimmed_md5(&content(c));
    let sd = p["sd"].as_str().unwrap_or("part");
    let sda = signed_data_arg(sd, c);
    let mut ev = p.clone();
    ev["op"] = json!("mime_v1");
    ev["want_md5"] = json!(want);
    ev["want_cks"] = json!(env.cks_text);
    ev["len"] = json!(env.raw.len());
    ev["res"] = call_mime_v1(&env.raw, sda.as_deref());
    em.ev(ev);
    if p["legacy"].as_bool().unwrap_or(false) {
        let mut ev = p.clone();
        ev["op"] = json!("mime_legacy");
        ev["want_md5"] = json!(want);
        ev["want_cks"] = json!(env.cks_text);
        ev["want_sig_md5"] = match p["env"]["sig"].as_str().unwrap_or("none") {
            "none" => json!("none"),
            // the decoded body of the signature part
            _ => json!(md5hex(&sig_part_bytes(&p["env"]))),
        };
        ev["res"] = call_mime_legacy(&env.raw);
        em.ev(ev);
        em.ev(detect_event(&env.raw, json!(if p["env"]["mp"].as_bool().unwrap_or(true) { "true" } else { "false" })));
    }
}
/// both detectors on one input (answers and expectation as "true" | "false" | "panic" | "any"); `straddle`: byte 512 of the lossily decoded text lies inside a character
fn detect_event(raw: &[u8], expect: Value) -> Value {
    let v1d = guarded(|| cascette_protocol::v1_mime::is_v1_mime_response(raw));
    let lgd = guarded(|| cascette_protocol::mime_parser::is_v1_mime_response(raw));
    let text = String::from_utf8_lossy(raw);
    json!({"op": "detect", "expect": expect, "len": raw.len(), "straddle": text.len() > 512 && !text.is_char_boundary(512),
        "res": {"v1": v1d.map(|b| b.to_string()).unwrap_or("panic".into()), "legacy": lgd.map(|b| b.to_string()).unwrap_or("panic".into())}})
}
fn sig_part_bytes(m: &Value) -> Vec<u8> {
    match m["sig"].as_str().unwrap_or("none") {
        "cms" => build_cms(&m["cms"]).der,
        "junk_der" => seq(&[oid(OID_DATA), ctx_explicit(0, &octets(b"well-formed DER, not a signature"))]),
        "cut" => {
            let mut v = build_cms(&json!({"certs": [], "signers": [], "econtent": 0})).der;
            v.truncate(v.len() - 3);
            v
        }
        _ => b"this is not a signature at all".to_vec(),
    }
}

/// every bit flip / every proper prefix / a few extensions of one input of one valid base case
fn run_fault(p: &Value, em: &Emit) {
    let level = p["level"].as_str().unwrap_or("verify");
    let target = p["target"].as_str().expect("fault.target");
    let fault = p["fault"].as_str().expect("fault.fault");
    let mut ev = p.clone();
    ev["op"] = json!("fault");
    // the input that is damaged, the fixed other argument, and the call
    let (subject, regions, call): (Vec<u8>, Value, Box<dyn Fn(&[u8]) -> u8>) = if level == "verify" {
        let b = build_cms(&p["cms"]);
        let d = p["data"].as_u64().unwrap_or(1);
        let data = content(d);
        let regs = blob_regions(&p["cms"], &b);
        if target == "blob" {
            (b.der.clone(), regs, Box::new(move |x: &[u8]| verify_code(&call_verify(x, Some(&data)))))
        } else {
            let blob = b.der.clone();
            let n = data.len();
            (data, json!({"data": [[0, n]]}), Box::new(move |x: &[u8]| verify_code(&call_verify(&blob, Some(x)))))
        }
    } else {
        let (env, built) = build_envelope(&p["env"]);
        let c = p["env"]["c"].as_u64().unwrap_or(1);
        let sda = signed_data_arg(p["sd"].as_str().unwrap_or("part"), c);
        let regs = match &built {
            Some(b) => map_regions(&blob_regions(&p["env"]["cms"], b), &env),
            None => json!({}),
        };
        (env.raw.clone(), regs, Box::new(move |x: &[u8]| mime_code(&call_mime_v1(x, sda.as_deref()))))
    };
    ev["n"] = json!(subject.len());
    ev["regions"] = regions;
    ev["base"] = json!(call(&subject));
    let mut codes: Vec<u8> = vec![];
    match fault {
        "flip" => {
            let mut x = subject.clone();
            for i in 0..x.len() {
                for bit in 0..8 {
                    x[i] ^= 1 << bit;
                    codes.push(call(&x));
                    x[i] ^= 1 << bit;
                }
            }
        }
        "trunc" => {
            for m in 0..subject.len() {
                codes.push(call(&subject[..m]));
            }
        }
        "ext" => {
            let tail: Vec<u8> = subject[subject.len().saturating_sub(16)..].to_vec();
            for extra in [vec![0u8], vec![0xffu8], tail, vec![0u8; 1000], b"\r\n".to_vec()] {
                let mut x = subject.clone();
                x.extend(extra);
                codes.push(call(&x));
            }
        }
        other => panic!("driver: unknown fault {other}"),
    }
    ev["codes"] = json!(codes);
    em.ev(ev);
}

/// literal or damaged bytes: totality of the verifier, the two parsers and the two detectors.
/// {"hex":..} | {"cms":{..}} | {"env":{..}}, then "edits":[[pos,byte]..] (positions modulo the length), "cut":n, "append":hex
fn run_raw(p: &Value, em: &Emit) {
    let mut bytes = if let Some(h) = p["hex"].as_str() {
        hex::decode(h).expect("driver: raw hex")
    } else if p["cms"].is_object() {
        build_cms(&p["cms"]).der
    } else {
        build_envelope(&p["env"]).0.raw
    };
    let empty = vec![];
    for e in p["edits"].as_array().unwrap_or(&empty) {
        if !bytes.is_empty() {
            let i = e[0].as_u64().unwrap() as usize % bytes.len();
            bytes[i] = e[1].as_u64().unwrap() as u8;
        }
    }
    if let Some(n) = p["cut"].as_u64() {
        bytes.truncate(n as usize % (bytes.len() + 1));
    }
    if let Some(h) = p["append"].as_str() {
        bytes.extend(hex::decode(h).expect("driver: append hex"));
    }
    let c1 = content(1);
    let d = detect_event(&bytes, p["expect"].clone());
    em.ev(json!({"op": "raw", "what": p["what"], "len": bytes.len(), "expect": p["expect"], "straddle": d["straddle"],
        "novalid": p["novalid"].as_bool().unwrap_or(false),
        "verify": verify_code(&call_verify(&bytes, Some(&c1))),
        "v1": mime_code(&call_mime_v1(&bytes, Some(&c1))),
        "v1_none": mime_code(&call_mime_v1(&bytes, None)),
        "legacy": match call_mime_legacy(&bytes)["class"].as_str().unwrap() { "err" => 0, "panic" => 3, _ => 1 },
        "detect": d["res"]}));
}

// =========================================================================== loopback mocks
fn runtime() -> &'static tokio::runtime::Runtime {
    static RT: std::sync::OnceLock<tokio::runtime::Runtime> = std::sync::OnceLock::new();
    RT.get_or_init(|| tokio::runtime::Builder::new_multi_thread().worker_threads(3).enable_all().build().expect("tokio runtime"))
}
fn prog_ip(idx: usize) -> String {
    format!("127.7.{}.{}", 1 + std::process::id() % 250, 1 + idx % 250)
}
fn scratch() -> std::path::PathBuf {
    let p = std::path::Path::new("/dev/shm");
    if p.is_dir() { p.to_path_buf() } else { std::env::temp_dir() }
}
fn text_of(b: &[u8]) -> Value {
    match std::str::from_utf8(b) {
        Ok(s) => json!(s),
        Err(_) => json!(format!("hex:{}", hex::encode(b))),
    }
}

/// Ribbit mock: per connection reads the whole command (until the client's half-close), logs it, answers `resp`
async fn ribbit_mock(ip: &str, resp: Option<Vec<u8>>) -> (u16, Arc<Mutex<Vec<Vec<u8>>>>, tokio::task::JoinHandle<()>) {
    let l = TcpListener::bind(format!("{ip}:0")).await.expect("bind ribbit mock");
    let port = l.local_addr().unwrap().port();
    let log: Arc<Mutex<Vec<Vec<u8>>>> = Arc::new(Mutex::new(vec![]));
    let lg = log.clone();
    let h = tokio::spawn(async move {
        loop {
            let Ok((mut s, _)) = l.accept().await else { continue };
            let (lg, resp) = (lg.clone(), resp.clone());
            tokio::spawn(async move {
                let mut cmd = vec![];
                let mut buf = [0u8; 4096];
                let _ = tokio::time::timeout(Duration::from_secs(20), async {
                    loop {
                        match s.read(&mut buf).await {
                            Ok(0) | Err(_) => break,
                            Ok(n) => cmd.extend_from_slice(&buf[..n]),
                        }
                    }
                })
                .await;
                lg.lock().unwrap().push(cmd);
                if let Some(r) = resp {
                    let _ = s.write_all(&r).await;
                }
                let _ = s.shutdown().await;
            });
        }
    });
    (port, log, h)
}

fn reason(code: u16) -> &'static str {
    match code {
        200 => "OK",
        206 => "Partial Content",
        400 => "Bad Request",
        403 => "Forbidden",
        404 => "Not Found",
        429 => "Too Many Requests",
        500 => "Internal Server Error",
        502 => "Bad Gateway",
        503 => "Service Unavailable",
        _ => "Status",
    }
}

struct HttpCtx {
    /// the i-th request for a path is answered with script[min(i, len) - 1]
    script: Vec<u16>,
    body: Box<dyn Fn(&str) -> Vec<u8> + Send + Sync>,
    seen: Mutex<HashMap<String, usize>>,
    /// (method, path, code)
    reqs: Mutex<Vec<(String, String, u16)>>,
}
async fn http_mock(ip: &str, ctx: Arc<HttpCtx>) -> (u16, tokio::task::JoinHandle<()>) {
    let l = TcpListener::bind(format!("{ip}:0")).await.expect("bind http mock");
    let port = l.local_addr().unwrap().port();
    let h = tokio::spawn(async move {
        loop {
            let Ok((s, _)) = l.accept().await else { continue };
            tokio::spawn(http_conn(s, ctx.clone()));
        }
    });
    (port, h)
}
async fn http_conn(mut s: TcpStream, ctx: Arc<HttpCtx>) {
    let _ = s.set_nodelay(true);
    let mut head = vec![];
    let mut buf = [0u8; 2048];
    let _ = tokio::time::timeout(Duration::from_secs(20), async {
        loop {
            match s.read(&mut buf).await {
                Ok(0) | Err(_) => break,
                Ok(n) => {
                    head.extend_from_slice(&buf[..n]);
                    if head.windows(4).any(|w| w == b"\r\n\r\n") || head.len() > 32768 {
                        break;
                    }
                }
            }
        }
    })
    .await;
    if head.is_empty() {
        return;
    }
    let text = String::from_utf8_lossy(&head).to_string();
    let mut it = text.lines().next().unwrap_or("").split(' ');
    let method = it.next().unwrap_or("").to_string();
    let path = it.next().unwrap_or("").to_string();
    let i = {
        let mut seen = ctx.seen.lock().unwrap();
        let c = seen.entry(path.clone()).or_insert(0);
        *c += 1;
        *c
    };
    let code = ctx.script[(i - 1).min(ctx.script.len() - 1)];
    ctx.reqs.lock().unwrap().push((method.clone(), path.clone(), code));
    let body = if (200..300).contains(&code) { (ctx.body)(&path) } else { format!("status {code}\n").into_bytes() };
    let h = format!(
        "HTTP/1.1 {code} {}\r\nContent-Type: application/octet-stream\r\nContent-Length: {}\r\nConnection: close\r\n\r\n",
        reason(code),
        body.len()
    );
    let _ = s.write_all(h.as_bytes()).await;
    if method != "HEAD" {
        let _ = s.write_all(&body).await;
    }
    let _ = s.shutdown().await;
}

fn err_kind(e: &cascette_protocol::ProtocolError) -> String {
    let d = format!("{e:?}");
    d.split(|c: char| !c.is_alphanumeric()).next().unwrap_or("").to_string()
}

/// a future of the code under test, polled inside `guarded`: a panic is an outcome (and stays quiet)
struct GuardedFut<F>(std::pin::Pin<Box<F>>);
impl<F: std::future::Future> std::future::Future for GuardedFut<F> {
    type Output = Result<F::Output, String>;
    fn poll(mut self: std::pin::Pin<&mut Self>, cx: &mut std::task::Context<'_>) -> std::task::Poll<Self::Output> {
        match guarded(|| self.0.as_mut().poll(cx)) {
            Ok(std::task::Poll::Ready(v)) => std::task::Poll::Ready(Ok(v)),
            Ok(std::task::Poll::Pending) => std::task::Poll::Pending,
            Err(msg) => std::task::Poll::Ready(Err(msg)),
        }
    }
}
async fn guarded_async<T: Send + 'static>(f: impl std::future::Future<Output = T> + Send + 'static) -> Result<T, Value> {
    match tokio::time::timeout(Duration::from_secs(100), tokio::spawn(GuardedFut(Box::pin(f)))).await {
        Ok(Ok(Ok(v))) => Ok(v),
        Ok(Ok(Err(msg))) => Err(json!({"class": "panic", "msg": short(msg)})),
        Ok(Err(e)) => Err(json!({"class": "panic", "msg": short(e.to_string())})),
        Err(_) => Err(json!({"class": "hang"})),
    }
}

// =========================================================================== certificate fetcher
fn pem_of(der: &[u8]) -> String {
    let t = b64(der);
    let mut s = String::from("-----BEGIN CERTIFICATE-----\n");
    for ch in t.as_bytes().chunks(64) {
        s.push_str(std::str::from_utf8(ch).unwrap());
        s.push('\n');
    }
    s.push_str("-----END CERTIFICATE-----\n");
    s
}

/// the scripted answer of the certificate endpoint
fn pem_response(r: &Value) -> Option<Vec<u8>> {
    let t = r["t"].as_str().expect("resp.t");
    let cert = || pem_of(&build_cert(&r["cert"]));
    Some(match t {
        "pem" => cert().into_bytes(),
        "pem_text" => format!("Certificate for you:\r\n\r\n{}\r\nregards\r\n", cert()).into_bytes(),
        "mime" => {
            // the shape of a Ribbit V1 answer: the PEM text is the data part
            let mut raw = format!(
                "MIME-Version: 1.0\r\nContent-Type: multipart/alternative; boundary=\"X07B\"\r\n\r\n--X07B\r\nContent-Type: text/plain\r\nContent-Disposition: cert\r\n\r\n{}\r\n--X07B--\r\n",
                cert()
            )
            .into_bytes();
            let ck = hex::encode(sha256(&raw));
            raw.extend_from_slice(format!("Checksum: {ck}\r\n").as_bytes());
            raw
        }
        "two" => format!("{}{}", cert(), pem_of(&build_cert(&r["cert2"]))).into_bytes(),
        "endfirst" => format!("-----END CERTIFICATE-----\n{}", cert()).into_bytes(),
        "endonly" => b"nothing here -----END CERTIFICATE----- and then -----BEGIN CERTIFICATE-----\n".to_vec(),
        "nopem" => b"## seqn = 1\nno certificate here\n".to_vec(),
        "noend" => cert().replace("-----END CERTIFICATE-----\n", "").into_bytes(),
        "badb64" => b"-----BEGIN CERTIFICATE-----\n!!!! not base64 !!!!\n-----END CERTIFICATE-----\n".to_vec(),
        "cutder" => {
            let d = build_cert(&r["cert"]);
            pem_of(&d[..d.len() / 2]).into_bytes()
        }
        "empty" => vec![],
        "nonutf8" => {
            let mut v = cert().into_bytes();
            v.splice(0..0, [0xff, 0xfe, 0x80]);
            v
        }
        "close" => return None,
        other => panic!("driver: unknown answer {other}"),
    })
}

fn cert_want(c: &Value) -> Value {
    let k = key(c["key"].as_u64().unwrap());
    let rsa = c["alg"].as_str().unwrap_or("rsa") == "rsa";
    let serial = der_children(&int_u(c["serial"].as_u64().unwrap()))[0].1.clone();
    json!({"subject": format!("CN={}", c["name"].as_str().unwrap()), "issuer": format!("CN={}", c["name"].as_str().unwrap()),
        "serial": hex::encode(serial), "ski": c["ski"].as_str().unwrap_or(""),
        "alg": if rsa { "RSA" } else { "ECDSA" },
        "key_md5": if rsa { md5hex(&k.pkcs1_public()) } else { "ec".to_string() }, "bits": if rsa { k.klen() * 8 } else { 0 }})
}

async fn run_pem(p: Value, idx: usize) -> Vec<Value> {
    let ip = prog_ip(idx);
    let (port, log, h) = ribbit_mock(&ip, pem_response(&p["resp"])).await;
    let id = p["id"].as_str().expect("pem.id").to_string();
    let via = p["via"].as_str().unwrap_or("ski").to_string();
    let url = format!("tcp://{ip}:{port}");
    let res = guarded_async(async move {
        let client = RibbitClient::new(url).expect("ribbit client");
        let f = CertificateFetcher::new(&client);
        if via == "ski" { f.fetch_by_ski(&id).await } else { f.fetch_by_hash(&id).await }
    })
    .await;
    let res = match res {
        Err(v) => v,
        Ok(Err(e)) => json!({"class": "err", "kind": err_kind(&e), "msg": short(e.to_string())}),
        Ok(Ok(ci)) => {
            let pk = ci.public_key.as_ref();
            json!({"class": "ok", "subject": ci.subject, "issuer": ci.issuer, "serial": ci.serial_number,
                "ski": ci.subject_key_identifier.clone().unwrap_or_default(),
                "alg": pk.map(|k| k.algorithm.clone()).unwrap_or_default(),
                "key_md5": pk.map(|k| if k.algorithm == "RSA" { md5hex(&k.key_bytes) } else { "ec".to_string() }).unwrap_or_default(),
                "bits": pk.map(|k| if k.algorithm == "RSA" { k.key_size } else { 0 }).unwrap_or(0),
                "chain_fn": validate_certificate_chain(&[ci.clone()])})
        }
    };
    h.abort();
    let cmds: Vec<Value> = log.lock().unwrap().iter().map(|c| text_of(c)).collect();
    let mut ev = p.clone();
    ev["op"] = json!("pem");
    ev["cmds"] = json!(cmds);
    ev["res"] = res;
    if p["resp"]["cert"].is_object() {
        ev["want"] = cert_want(&p["resp"]["cert"]);
    }
    vec![ev]
}

// =========================================================================== request formatting
const BPSV_OK: &str = "Region!STRING:0|BuildConfig!HEX:16|BuildId!DEC:4\n## seqn = 7\nus|0123456789abcdef0123456789abcdef|61491\n";

async fn run_req(p: Value, idx: usize) -> Vec<Value> {
    let ip = prog_ip(idx);
    let ep = p["ep"].as_str().expect("req.ep").to_string();
    let code = p["code"].as_u64().unwrap_or(200) as u16;
    let body_ok = p["body"].as_str().unwrap_or("ok") == "ok";
    let body: Vec<u8> = if body_ok { BPSV_OK.as_bytes().to_vec() } else { b"<html>this is not BPSV</html>".to_vec() };
    let mut ev = p.clone();
    ev["op"] = json!("req");
    match p["client"].as_str().expect("req.client") {
        "ribbit" => {
            let (port, log, h) = ribbit_mock(&ip, Some(body.clone())).await;
            let url = format!("tcp://{ip}:{port}");
            let e2 = ep.clone();
            let res = guarded_async(async move { RibbitClient::new(url).expect("ribbit client").query_raw(&e2).await }).await;
            h.abort();
            ev["cmds"] = json!(log.lock().unwrap().iter().map(|c| text_of(c)).collect::<Vec<_>>());
            ev["res"] = match res {
                Err(v) => v,
                Ok(Err(e)) => json!({"class": "err", "kind": err_kind(&e)}),
                Ok(Ok(b)) => json!({"class": "ok", "same": b == body, "len": b.len()}),
            };
        }
        "tact" => {
            let b2 = body.clone();
            let ctx = Arc::new(HttpCtx { script: vec![code], body: Box::new(move |_| b2.clone()), seen: Mutex::new(HashMap::new()), reqs: Mutex::new(vec![]) });
            let (port, h) = http_mock(&ip, ctx.clone()).await;
            let base = format!("http://{ip}:{port}");
            let e2 = ep.clone();
            let res = guarded_async(async move { TactClient::new(base, false).expect("tact client").query(&e2).await }).await;
            h.abort();
            ev["reqs"] = json!(ctx.reqs.lock().unwrap().iter().map(|(m, p, _)| json!({"method": m, "path": p})).collect::<Vec<_>>());
            ev["res"] = match res {
                Err(v) => v,
                Ok(Err(e)) => json!({"class": "err", "kind": err_kind(&e)}),
                Ok(Ok(doc)) => json!({"class": "ok", "rows": doc.rows().len()}),
            };
        }
        "unified" => {
            // all three protocols point at mocks; only validation and the first contact are looked at (the chain is C13's)
            let b2 = body.clone();
            let ctx = Arc::new(HttpCtx { script: vec![code], body: Box::new(move |_| b2.clone()), seen: Mutex::new(HashMap::new()), reqs: Mutex::new(vec![]) });
            let (hport, hh) = http_mock(&ip, ctx.clone()).await;
            let (tport, tlog, th) = ribbit_mock(&ip, Some(body.clone())).await;
            let cfg = cascette_protocol::ClientConfig {
                tact_https_url: format!("http://{ip}:{hport}"),
                tact_http_url: String::new(),
                ribbit_url: format!("tcp://{ip}:{tport}"),
                cache_config: cascette_protocol::CacheConfig { cache_dir: None, ..Default::default() },
                ..Default::default()
            };
            let e2 = ep.clone();
            let res = guarded_async(async move { cascette_protocol::RibbitTactClient::new(cfg).expect("unified client").query(&e2).await }).await;
            hh.abort();
            th.abort();
            ev["reqs"] = json!(ctx.reqs.lock().unwrap().iter().map(|(m, p, _)| json!({"method": m, "path": p})).collect::<Vec<_>>());
            ev["cmds"] = json!(tlog.lock().unwrap().iter().map(|c| text_of(c)).collect::<Vec<_>>());
            ev["res"] = match res {
                Err(v) => v,
                Ok(Err(e)) => json!({"class": "err", "kind": err_kind(&e)}),
                Ok(Ok(doc)) => json!({"class": "ok", "rows": doc.rows().len()}),
            };
        }
        other => panic!("driver: unknown client {other}"),
    }
    vec![ev]
}

// =========================================================================== archive index / data downloads
fn cdn_body(path: &str) -> Vec<u8> {
    format!("BODY:{path}").into_bytes()
}

async fn run_cdn(p: Value, idx: usize) -> Vec<Value> {
    let ip = prog_ip(idx);
    let script: Vec<u16> = p["script"].as_array().expect("cdn.script").iter().map(|x| x.as_u64().unwrap() as u16).collect();
    let cache_kind = p["cache"].as_str().unwrap_or("mem").to_string();
    let ctx = Arc::new(HttpCtx { script, body: Box::new(cdn_body), seen: Mutex::new(HashMap::new()), reqs: Mutex::new(vec![]) });
    let (port, h) = http_mock(&ip, ctx.clone()).await;
    let dir = tempfile::Builder::new().prefix("x07-").tempdir_in(scratch()).expect("tempdir");
    let long = Duration::from_secs(3600);
    let ccfg = cascette_protocol::CacheConfig {
        cache_dir: if cache_kind == "disk" { Some(dir.path().join("cache")) } else { None },
        ribbit_ttl: long,
        cdn_ttl: long,
        config_ttl: long,
        ..Default::default()
    };
    let mk = |cfg: &cascette_protocol::CacheConfig| -> Arc<CdnClient> {
        let cache = cascette_protocol::cache::ProtocolCache::new(cfg).expect("protocol cache");
        Arc::new(CdnClient::new(Arc::new(cache), cascette_protocol::CdnConfig::default()).expect("cdn client"))
    };
    let mut client = mk(&ccfg);
    let endpoint = CdnEndpoint {
        host: format!("{ip}:{port}"),
        path: p["path"].as_str().unwrap_or("tpr/wow").to_string(),
        product_path: None,
        scheme: Some("http".into()),
        is_fallback: false,
        strict: false,
        max_hosts: None,
    };
    let mut evs = vec![];
    let mut seq_no = 0u64;
    for op in p["ops"].as_array().expect("cdn.ops") {
        seq_no += 1;
        let mut ev = op.clone();
        ev["seq"] = json!(seq_no);
        let name = op["op"].as_str().expect("op.op").to_string();
        if name == "reopen" {
            client = mk(&ccfg);
            evs.push(ev);
            continue;
        }
        let k = op["k"].as_str().expect("op.k").to_string();
        let mark = ctx.reqs.lock().unwrap().len();
        let (c, e2) = (client.clone(), endpoint.clone());
        let res = match name.as_str() {
            "idx" => guarded_async(async move { c.download_archive_index(&e2, &k).await }).await,
            "dat" => {
                let kb = hex::decode(&k).expect("driver: data keys are hex");
                guarded_async(async move { c.download(&e2, ContentType::Data, &kb).await }).await
            }
            other => panic!("driver: unknown cdn op {other}"),
        };
        ev["res"] = match res {
            Err(v) => v,
            Ok(Err(e)) => json!({"class": "err", "kind": err_kind(&e)}),
            Ok(Ok(b)) => json!({"class": "ok", "body": text_of(&b)}),
        };
        ev["reqs"] = json!(ctx.reqs.lock().unwrap()[mark..].iter().map(|(m, p, c)| json!({"method": m, "path": p, "code": c})).collect::<Vec<_>>());
        evs.push(ev);
    }
    h.abort();
    evs
}

// =========================================================================== main
fn main() {
    self_check();
    let args: Vec<String> = std::env::args().collect();
    quiet_panics();
    if has_flag(&args, "--explore") {
        explore();
        return;
    }
    let mut out = Out::from_arg(arg(&args, "--out").as_ref());
    let programs = arg(&args, "--programs").map(|p| read_programs(&p)).unwrap_or_default();
    let n = programs.len();
    let stats = run_with_watchdog(programs, &mut out, Duration::from_secs(150), |p, em| {
        let kind = p["kind"].as_str().expect("program.kind").to_string();
        let mut head = json!({"op": "new", "kind": kind, "prog": p});
        if kind == "cdn" {
            head["cache"] = p["cache"].clone();
            head["script"] = p["script"].clone();
            head["path"] = json!(p["path"].as_str().unwrap_or("tpr/wow"));
        }
        em.ev(head);
        em.begin(p);
        match kind.as_str() {
            "verify" => run_verify(p, em),
            "mime" => run_mime(p, em),
            "fault" => run_fault(p, em),
            "raw" => run_raw(p, em),
            "pem" => runtime().block_on(run_pem(p.clone(), em.prog)).into_iter().for_each(|e| em.ev(e)),
            "req" => runtime().block_on(run_req(p.clone(), em.prog)).into_iter().for_each(|e| em.ev(e)),
            "cdn" => runtime().block_on(run_cdn(p.clone(), em.prog)).into_iter().for_each(|e| em.ev(e)),
            other => panic!("driver: unknown program kind {other}"),
        }
    });
    out.flush();
    eprintln!("{}", json!({"programs": stats.programs, "events": out.events, "hangs": stats.hangs, "skipped": stats.skipped}));
    std::process::exit(if stats.programs as usize == n && stats.skipped == 0 { 0 } else { 3 });
}

fn explore() {
    let certa = json!({"key":1,"name":"A","serial":1,"ski":"a1b2c3d4","alg":"rsa","exp":false});
    let signer = json!({"sidt":"isn","sname":"A","sserial":1,"sski":"","dalg":"sha256","by":1,"over":"content","oc":1,"attrs":false,"md":0});
    let base = json!({"certs":[certa.clone()],"signers":[signer.clone()],"econtent":0,"wrap":"signed"});
    let b = build_cms(&base);
    println!("detached c1 / data c1: {}", call_verify(&b.der, Some(&content(1))));
    for enc in ["cte", "bin", "tline"] {
        for sig in ["cms", "junk_text", "junk_der", "cut", "none"] {
            let m = json!({"c":1,"sig":sig,"cms":base.clone(),"enc":enc,"cks":"md5","disp":"version","order":"ds","mp":true});
            let (env, _) = build_envelope(&m);
            let c1 = content(1);
            println!("mime enc={enc} sig={sig}: v1={} legacy={}", call_mime_v1(&env.raw, Some(&c1)), call_mime_legacy(&env.raw));
        }
    }
}
