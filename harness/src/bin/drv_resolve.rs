//! C03 driver: builds, serialises, parses and queries the content-resolution structures of cascette-rs
//! (encoding table, CDN archive index, archive group, root manifest V1-V4, TVFS manifest, and the
//! ContentResolver chain) for the programs enumerated by spec/mc/MC_Resolve.tla.
//!
//! usage: drv_resolve --programs <file|-> --out <file|->
//!
//! A program names a structure kind, its configuration, a population size `n`, a key layout and a probe
//! list.  Keys are *abstract integers*: a is present iff a is even and a < 2n; the odd numbers are the
//! absent neighbours.  This file owns the concretisation (abstract key -> bytes / FileDataID / path,
//! abstract key -> inserted value) - it is injective and order preserving, which is checked for every
//! program before anything is built (a failure is a driver bug: exit 4).  The driver never compares a
//! result with an expectation: it records what every lookup flavour returned, in the presentation
//! documented at `present_*`, and TLC (spec/trace/T_Resolve.tla) judges.
//!
//! Events:
//!   {"op":"new", ...program fields...}
//!   {"op":"build","seq":1,"res":{"ok":true,"count":c} | {"ok":false,"stage":s,"err":e}}
//!   {"op":"lookup","seq":k,"sp":"c"|"e","a":a,"r":{flavour:[value,...],...}}
//! A flavour result is always a list of values (empty = nothing found).
use cascette_client_storage::resolver::ContentResolver;
use cascette_crypto::{ContentKey, EncodingKey, FileDataId};
use cascette_formats::CascFormat;
use cascette_formats::archive::{
    ArchiveGroup, ArchiveGroupBuilder, ArchiveGroupEntry, ArchiveIndex, ArchiveIndexBuilder, ChunkedArchiveIndex,
    build_merged,
};
use cascette_formats::encoding::{CKeyEntryData, EKeyEntryData, EncodingBuilder, EncodingFile};
use cascette_formats::root::{ContentFlags, LocaleFlags, RootBuilder, RootFile, RootVersion, calculate_name_hash};
use cascette_formats::tvfs::{TvfsBuilder, TvfsFile, VfsTable};
use serde_json::{Map, Value, json};
use std::io::Cursor;
use verif_harness::*;

// --------------------------------------------------------------------------- concretisation
fn put_be(k: &mut [u8], pos: usize, dw: usize, d: u64) {
    for t in 0..dw {
        k[pos + t] = (d >> (8 * (dw - 1 - t))) as u8;
    }
}

/// Abstract key -> `ks` key bytes.  Order preserving in `a` for 0 <= a <= 2n-1 ("ends": a <= 2n-2).
fn embed(lay: &str, ks: usize, n: u64, a: u64) -> Vec<u8> {
    let dw = ks.min(2);
    let base: u64 = 1 << (8 * dw);
    assert!(2 * n <= base, "driver: population {n} does not fit {dw} digit bytes");
    let mut k = vec![0u8; ks];
    match lay {
        "spread" => {
            let s = (base - 1) / (2 * n).saturating_sub(1).max(1);
            put_be(&mut k, 0, dw, a * s);
            for (j, b) in k.iter_mut().enumerate().skip(dw) {
                *b = ((a * 37 + (j as u64) * 11) % 256) as u8;
            }
        }
        "prefix" => {
            for (j, b) in k.iter_mut().enumerate().take(ks - dw) {
                *b = 0xA0u8.wrapping_add(j as u8);
            }
            put_be(&mut k, ks - dw, dw, a);
        }
        "ends" => {
            if a < n {
                put_be(&mut k, ks - dw, dw, a);
            } else {
                assert!(a + 2 <= 2 * n, "driver: abstract key {a} has no image in layout ends (n={n})");
                k.fill(0xFF);
                put_be(&mut k, ks - dw, dw, base - 1 - (2 * n - 2 - a));
            }
        }
        other => panic!("driver: unknown layout {other}"),
    }
    k
}
fn probe_ok(lay: &str, n: u64, a: u64) -> bool {
    !(lay == "ends" && a >= n && a + 2 > 2 * n)
}
fn check_embedding(lay: &str, ks: usize, n: u64) {
    let mut prev: Option<Vec<u8>> = None;
    for a in 0..2 * n {
        if !probe_ok(lay, n, a) {
            continue;
        }
        let k = embed(lay, ks, n, a);
        if let Some(p) = &prev
            && *p >= k
        {
            eprintln!("driver: embedding not strictly increasing at a={a} lay={lay} ks={ks} n={n}");
            std::process::exit(4);
        }
        prev = Some(k);
    }
}
fn key16(lay: &str, n: u64, a: u64) -> [u8; 16] {
    let v = embed(lay, 16, n, a);
    let mut k = [0u8; 16];
    k.copy_from_slice(&v);
    k
}
/// 16-byte value keys: tag byte, 13 x 0x5a, then the abstract key in two bytes.  `T_Resolve!VKey` builds the
/// same hex text.
fn vkey(tag: u8, a: u64) -> [u8; 16] {
    let mut k = [0x5au8; 16];
    k[0] = tag;
    k[14] = (a >> 8) as u8;
    k[15] = a as u8;
    k
}
fn order(ord: &str, n: u64) -> Vec<u64> {
    let mut v: Vec<u64> = (0..n).collect();
    match ord {
        "asc" => {}
        "desc" => v.reverse(),
        "rot" => v.rotate_left((n / 2) as usize),
        other => panic!("driver: unknown order {other}"),
    }
    v
}
/// Numbers travel as JSON integers only when small; anything else is the out-of-range marker -1.
fn small(x: u128) -> i64 {
    if x <= (1 << 30) { x as i64 } else { -1 }
}
fn s(p: &Value, f: &str) -> String {
    p[f].as_str().unwrap_or_else(|| panic!("driver: program field {f} missing")).to_string()
}
fn u(p: &Value, f: &str) -> u64 {
    p[f].as_u64().unwrap_or_else(|| panic!("driver: program field {f} missing"))
}
fn probes(p: &Value, f: &str) -> Vec<u64> {
    p[f].as_array().map(|v| v.iter().map(|x| x.as_u64().expect("probe")).collect()).unwrap_or_default()
}

struct Run<'a> {
    out: &'a Emit,
    seq: u64,
}
impl Run<'_> {
    fn build_ok(&mut self, count: usize) {
        self.seq += 1;
        self.out.ev(json!({"op": "build", "seq": self.seq, "res": {"ok": true, "count": count}}));
    }
    fn build_err(&mut self, stage: &str, err: String) {
        self.seq += 1;
        let e: String = err.chars().take(200).collect();
        self.out.ev(json!({"op": "build", "seq": self.seq, "res": {"ok": false, "stage": stage, "err": e}}));
    }
    fn lookup(&mut self, sp: &str, a: u64, r: Map<String, Value>) {
        self.seq += 1;
        self.out.ev(json!({"op": "lookup", "seq": self.seq, "sp": sp, "a": a, "r": Value::Object(r)}));
    }
}
/// Run one flavour; a panic of the code under test is recorded as the value "panic".
fn fl(r: &mut Map<String, Value>, name: &str, f: impl FnOnce() -> Vec<Value>) {
    let v = match guarded(f) {
        Ok(v) => v,
        Err(m) => vec![json!(format!("panic: {}", m.chars().take(120).collect::<String>()))],
    };
    r.insert(name.to_string(), Value::Array(v));
}
macro_rules! stage {
    ($run:expr, $stage:expr, $e:expr) => {
        match guarded(|| $e) {
            Ok(Ok(v)) => v,
            Ok(Err(e)) => {
                $run.build_err($stage, format!("{e}"));
                return;
            }
            Err(m) => {
                $run.build_err($stage, format!("panic: {m}"));
                return;
            }
        }
    };
}

// --------------------------------------------------------------------------- archive index
fn aidx_value(vp: &str, ow: u64, a: u64) -> (u32, u64) {
    let maxoff: u64 = if ow >= 8 { u64::MAX } else { (1u64 << (8 * ow)) - 1 };
    match vp {
        "lo" => ((a + 1) as u32, 4096 * a + 7),
        "hi" => (u32::MAX - a as u32, maxoff - a),
        // one past the largest offset the configured field can hold: not representable
        "over" => ((a + 1) as u32, maxoff + 1 + a),
        other => panic!("driver: unknown value profile {other}"),
    }
}
/// presentation (every value travels as a string): lo -> "size:offset"; hi -> "(2^32-1-size):(maxoff-offset)"
fn present_aidx(vp: &str, ow: u64, size: u32, off: u64) -> Value {
    let maxoff: u64 = (1u64 << (8 * ow)) - 1;
    match vp {
        "lo" | "over" => json!(format!("{}:{}", small(size as u128), small(off as u128))),
        _ => json!(format!("{}:{}", small((u32::MAX - size) as u128), small(maxoff.wrapping_sub(off) as u128))),
    }
}
fn ie_off(e: &cascette_formats::archive::IndexEntry) -> u64 {
    match e.archive_index {
        Some(ai) => ((ai as u64) << 32) | (e.offset & 0xFFFF_FFFF),
        None => e.offset,
    }
}
fn run_aidx(p: &Value, run: &mut Run) {
    let (ks, ow, n) = (u(p, "ks") as usize, u(p, "ow"), u(p, "n"));
    let (lay, vp, ord, ser) = (s(p, "lay"), s(p, "vp"), s(p, "ord"), s(p, "ser"));
    check_embedding(&lay, ks, n);
    let mut b = ArchiveIndexBuilder::with_config(ks as u8, ow as u8, 4);
    for i in order(&ord, n) {
        let (sz, off) = aidx_value(&vp, ow, 2 * i);
        b.add_entry(embed(&lay, ks, n, 2 * i), sz, off);
    }
    let mut direct = Vec::new();
    let mem = stage!(run, "build", b.build(Cursor::new(&mut direct)));
    let bytes: Vec<u8> = match ser.as_str() {
        "builder" => direct,
        "build" => {
            let mut v = Vec::new();
            stage!(run, "serialize", mem.build(Cursor::new(&mut v)));
            v
        }
        "write_to" => stage!(run, "serialize", <ArchiveIndex as CascFormat>::build(&mem)),
        other => panic!("driver: unknown serialisation {other}"),
    };
    let idx = stage!(run, "parse", ArchiveIndex::parse(Cursor::new(&bytes)));
    // the on-demand reader only knows 16-byte keys with 4-byte offsets
    let mut chunked = None;
    let tmp;
    if ks == 16 && ow == 4 {
        tmp = tempfile::NamedTempFile::new_in(scratch()).expect("tempfile");
        std::fs::write(tmp.path(), &bytes).expect("write index file");
        chunked = guarded(|| ChunkedArchiveIndex::open(tmp.path())).ok().and_then(Result::ok);
    }
    run.build_ok(idx.entries.len());
    let pv = |e: &cascette_formats::archive::IndexEntry| present_aidx(&vp, ow, e.size, ie_off(e));
    for a in probes(p, "probes") {
        let k = embed(&lay, ks, n, a);
        let mut r = Map::new();
        fl(&mut r, "find", || idx.find_entry(&k).map(&pv).into_iter().collect());
        fl(&mut r, "all", || idx.find_all_entries(&k).into_iter().map(&pv).collect());
        fl(&mut r, "scan", || idx.entries.iter().filter(|e| e.encoding_key == k).map(&pv).collect());
        fl(&mut r, "mem", || mem.find_entry(&k).map(&pv).into_iter().collect());
        if let Some(c) = chunked.as_mut() {
            fl(&mut r, "chunked", || match c.find_entry(&k) {
                Ok(x) => x.map(&pv).into_iter().collect(),
                Err(e) => vec![json!(format!("err: {e}"))],
            });
        }
        run.lookup("c", a, r);
    }
}

// --------------------------------------------------------------------------- archive group
/// archive number of abstract key a: key i = a/2 lives in archive (i mod srcs); hi profile counts down from 65535
fn ag_ai(vp: &str, srcs: u64, a: u64) -> u16 {
    let j = ((a / 2) % srcs) as u16;
    if vp == "lo" { j } else { u16::MAX - j }
}
fn ag_value(vp: &str, a: u64) -> (u32, u32) {
    match vp {
        "lo" => ((4096 * a + 7) as u32, (a + 1) as u32),
        _ => (u32::MAX - a as u32, u32::MAX - a as u32),
    }
}
/// presentation: lo -> "archive:offset:size"; hi -> complements to the field maxima
fn present_ag(vp: &str, ai: u16, off: u32, size: u32) -> Value {
    match vp {
        "lo" => json!(format!("{}:{}:{}", ai, small(off as u128), small(size as u128))),
        _ => json!(format!("{}:{}:{}", u16::MAX - ai, small((u32::MAX - off) as u128), small((u32::MAX - size) as u128))),
    }
}
fn run_agroup(p: &Value, run: &mut Run) {
    let (n, srcs) = (u(p, "n"), u(p, "srcs"));
    let (lay, vp, ord, path) = (s(p, "lay"), s(p, "vp"), s(p, "ord"), s(p, "path"));
    // dup = d > 0: every key of rank i with i mod d = 0 is handed in a second time with another value, by a
    // later add_entry (builder) / in the next source index (merged, when there is one): the first copy wins
    let dup = p["dup"].as_u64().unwrap_or(0);
    let is_dup = |i: u64| dup > 0 && i % dup == 0;
    let loser = |off: u32, sz: u32| (off ^ 0x0101, sz ^ 0x0101);
    check_embedding(&lay, 16, n);
    let mut bytes = Vec::new();
    let memg: ArchiveGroup = if path == "builder" {
        let mut b = ArchiveGroupBuilder::new();
        for i in order(&ord, n) {
            let (off, sz) = ag_value(&vp, 2 * i);
            b.add_entry(ArchiveGroupEntry::new(embed(&lay, 16, n, 2 * i), ag_ai(&vp, srcs, 2 * i), off, sz));
            if is_dup(i) {
                let (o2, s2) = loser(off, sz);
                b.add_entry(ArchiveGroupEntry::new(embed(&lay, 16, n, 2 * i), ag_ai(&vp, srcs, 2 * i + 2), o2, s2));
            }
        }
        stage!(run, "build", b.build(Cursor::new(&mut bytes)))
    } else {
        // merged: key i is put into source index (i mod srcs); source j is registered under archive number ag_ai
        let mut sources = Vec::new();
        for j in 0..srcs {
            let mut b = ArchiveIndexBuilder::new();
            for i in order(&ord, n) {
                if i % srcs == j {
                    let (off, sz) = ag_value(&vp, 2 * i);
                    b.add_entry(embed(&lay, 16, n, 2 * i), sz, off as u64);
                } else if is_dup(i) && i % srcs + 1 == j {
                    // the losing copy: same key in the next source, whose own later keys must still be merged
                    let (off, sz) = ag_value(&vp, 2 * i);
                    let (o2, s2) = loser(off, sz);
                    b.add_entry(embed(&lay, 16, n, 2 * i), s2, o2 as u64);
                }
            }
            let mut sink = Vec::new();
            let idx = stage!(run, "build", b.build(Cursor::new(&mut sink)));
            sources.push(idx);
        }
        let refs: Vec<(u16, &ArchiveIndex)> =
            sources.iter().enumerate().map(|(j, x)| (ag_ai(&vp, srcs, 2 * j as u64), x)).collect();
        stage!(run, "build", build_merged(&refs, Cursor::new(&mut bytes)))
    };
    let g = stage!(run, "parse", ArchiveGroup::parse(&mut Cursor::new(&bytes)));
    let as_index = guarded(|| ArchiveIndex::parse(Cursor::new(&bytes))).ok().and_then(Result::ok);
    run.build_ok(g.entries.len());
    let pg = |e: &ArchiveGroupEntry| present_ag(&vp, e.archive_index, e.offset, e.size);
    for a in probes(p, "probes") {
        let k = embed(&lay, 16, n, a);
        let mut r = Map::new();
        fl(&mut r, "find", || g.find_entry(&k).map(&pg).into_iter().collect());
        fl(&mut r, "scan", || g.entries.iter().filter(|e| e.encoding_key == k).map(&pg).collect());
        fl(&mut r, "mem", || memg.find_entry(&k).map(&pg).into_iter().collect());
        if let Some(ix) = as_index.as_ref() {
            fl(&mut r, "index", || {
                ix.find_entry(&k)
                    .map(|e| present_ag(&vp, e.archive_index.unwrap_or(0), e.offset as u32, e.size))
                    .into_iter()
                    .collect()
            });
        }
        run.lookup("c", a, r);
    }
}

// --------------------------------------------------------------------------- encoding table
const SPECS: [&str; 3] = ["z", "n", "b:{256K*=z}"];
fn fsize(vp: &str, a: u64) -> u64 {
    if vp == "lo" { a + 1 } else { (1u64 << 40) - 1 - a }
}
fn present_fsize(vp: &str, x: u64) -> Value {
    json!(fsize_text(vp, x))
}
fn fsize_text(vp: &str, x: u64) -> String {
    if vp == "lo" { small(x as u128).to_string() } else { small(((1u64 << 40) - 1).wrapping_sub(x) as u128).to_string() }
}
fn build_encoding(p: &Value, n: u64, m: u64, lay: &str, vp: &str, ord: &str) -> EncodingBuilder {
    let nek = u(p, "nek");
    let mut b = EncodingBuilder::new().with_page_sizes(u(p, "kbc") as u16, u(p, "kbe") as u16);
    for i in order(ord, n) {
        let a = 2 * i;
        b.add_ckey_entry(CKeyEntryData {
            content_key: ContentKey::from_bytes(key16(lay, n, a)),
            file_size: fsize(vp, a),
            encoding_keys: (0..nek).map(|j| EncodingKey::from_bytes(vkey(0xE0 + (j % 16) as u8, a))).collect(),
        });
    }
    for i in order(ord, m) {
        let bk = 2 * i;
        b.add_ekey_entry(EKeyEntryData {
            encoding_key: EncodingKey::from_bytes(key16(lay, m, bk)),
            espec: SPECS[(i % 3) as usize].to_string(),
            file_size: fsize(vp, bk),
        });
    }
    b
}
fn run_enc(p: &Value, run: &mut Run) {
    let (n, m) = (u(p, "n"), u(p, "m"));
    let (lay, vp, ord, ser) = (s(p, "lay"), s(p, "vp"), s(p, "ord"), s(p, "ser"));
    check_embedding(&lay, 16, n);
    check_embedding(&lay, 16, m);
    let b = build_encoding(p, n, m, &lay, &vp, &ord);
    let mem = stage!(run, "build", b.build());
    let (bytes, raw) = if ser == "blte" {
        let z = stage!(run, "serialize", mem.build_blte());
        let raw = stage!(run, "serialize", mem.build());
        (z, raw)
    } else {
        let raw = stage!(run, "serialize", mem.build());
        (raw.clone(), raw)
    };
    let enc =
        if ser == "blte" { stage!(run, "parse", EncodingFile::parse_blte(&bytes)) } else { stage!(run, "parse", EncodingFile::parse(&bytes)) };
    let resolver = ContentResolver::new();
    let resolver_ok = matches!(guarded(|| resolver.load_encoding_file(&raw)), Ok(Ok(())));
    run.build_ok(enc.ckey_count() * 100_000 + enc.ekey_count());
    let hx = |k: &EncodingKey| json!(hex(k.as_bytes()));
    let cps = probes(p, "probes");
    let cks: Vec<ContentKey> = cps.iter().map(|&a| ContentKey::from_bytes(key16(&lay, n, a))).collect();
    let bf = guarded(|| enc.batch_find_encodings(&cks));
    let ba = guarded(|| enc.batch_find_all_encodings(&cks));
    for (ix, &a) in cps.iter().enumerate() {
        let ck = cks[ix];
        let mut r = Map::new();
        fl(&mut r, "find", || enc.find_encoding(&ck).iter().map(&hx).collect());
        fl(&mut r, "all", || enc.find_all_encodings(&ck).iter().map(&hx).collect());
        fl(&mut r, "bfind", || match &bf {
            Ok(v) => v[ix].iter().map(&hx).collect(),
            Err(m) => vec![json!(format!("panic: {m}"))],
        });
        fl(&mut r, "ball", || match &ba {
            Ok(v) => v[ix].iter().map(&hx).collect(),
            Err(m) => vec![json!(format!("panic: {m}"))],
        });
        fl(&mut r, "scan", || {
            enc.ckey_pages
                .iter()
                .flat_map(|pg| pg.entries.iter())
                .filter(|e| e.content_key == ck)
                .flat_map(|e| e.encoding_keys.iter().map(&hx).collect::<Vec<_>>())
                .collect()
        });
        fl(&mut r, "size", || {
            enc.ckey_pages
                .iter()
                .flat_map(|pg| pg.entries.iter())
                .filter(|e| e.content_key == ck)
                .map(|e| present_fsize(&vp, e.file_size))
                .collect()
        });
        if resolver_ok {
            fl(&mut r, "rck", || resolver.resolve_content_key(&ck).iter().map(&hx).collect());
            fl(&mut r, "rsize", || resolver.get_content_size(&ck).iter().map(|x| present_fsize(&vp, *x)).collect());
        }
        run.lookup("c", a, r);
    }
    let eps = probes(p, "eprobes");
    let eks: Vec<EncodingKey> = eps.iter().map(|&a| EncodingKey::from_bytes(key16(&lay, m, a))).collect();
    let be = guarded(|| enc.batch_find_especs(&eks).into_iter().map(|o| o.map(str::to_string)).collect::<Vec<_>>());
    for (ix, &a) in eps.iter().enumerate() {
        let ek = eks[ix];
        let mut r = Map::new();
        fl(&mut r, "espec", || enc.find_espec(&ek).iter().map(|x| json!(x)).collect());
        fl(&mut r, "bespec", || match &be {
            Ok(v) => v[ix].iter().map(|x| json!(x)).collect(),
            Err(m) => vec![json!(format!("panic: {m}"))],
        });
        fl(&mut r, "escan", || {
            enc.ekey_pages
                .iter()
                .flat_map(|pg| pg.entries.iter())
                .filter(|e| e.encoding_key == ek)
                .map(|e| json!(enc.espec_table.get(e.espec_index).unwrap_or("?")))
                .collect()
        });
        fl(&mut r, "esize", || {
            enc.ekey_pages
                .iter()
                .flat_map(|pg| pg.entries.iter())
                .filter(|e| e.encoding_key == ek)
                .map(|e| present_fsize(&vp, e.file_size))
                .collect()
        });
        run.lookup("e", a, r);
    }
}

// --------------------------------------------------------------------------- root manifest
fn fdid_of(lay: &str, n: u64, a: u64) -> u32 {
    match lay {
        // consecutive ids for the population; the absent numbers are the two outer neighbours and far away ids
        "dense" => {
            if a % 2 == 0 {
                (100 + a / 2) as u32
            } else if a == 1 {
                99
            } else if a == 2 * n - 1 {
                (100 + n) as u32
            } else {
                (1_000_000 + a) as u32
            }
        }
        "gap" => (100 + a) as u32,
        "ends" => {
            if a < n {
                a as u32
            } else {
                assert!(a + 2 <= 2 * n, "driver: abstract key {a} has no image in layout ends (n={n})");
                u32::MAX - (2 * n - 2 - a) as u32
            }
        }
        other => panic!("driver: unknown fdid layout {other}"),
    }
}
fn path_of(style: &str, a: u64) -> String {
    match style {
        "norm" => format!("WORLD\\MAPS\\AZEROTH\\FILE{a:05}.ADT"),
        _ => format!("World/Maps/Azeroth/file{a:05}.adt"),
    }
}
/// locale mask of the block file i goes to (1 block: enUS; 2: enUS, deDE; 3: enUS, deDE, 0 = no locale bit)
fn block_locale(blocks: u64, i: u64) -> u32 {
    match blocks {
        1 => LocaleFlags::ENUS,
        2 => [LocaleFlags::ENUS, LocaleFlags::DEDE][(i % 2) as usize],
        _ => [LocaleFlags::ENUS, LocaleFlags::DEDE, 0][(i % 3) as usize],
    }
}
fn root_version(v: u64) -> RootVersion {
    RootVersion::from_u32(v as u32).expect("root version")
}
/// is the i-th file (abstract key 2i) inserted with a name?  `named` = number of named files, they are the first ones.
fn is_named(named: u64, i: u64) -> bool {
    i < named
}
fn build_root(p: &Value, n: u64, lay: &str, ord: &str) -> RootBuilder {
    let named = u(p, "named");
    let blocks = u(p, "blocks");
    let style = s(p, "style");
    let plain = p["nnh"].as_str().unwrap_or("flag") == "plain";
    let mut b = RootBuilder::new(root_version(u(p, "ver")));
    for i in order(ord, n) {
        let a = 2 * i;
        let locale = block_locale(blocks, i);
        let nm = is_named(named, i);
        // nnh = "flag": files without a name go to blocks that carry NO_NAME_HASH (no name-hash array on disk);
        // nnh = "plain": they are added like add_file(.., None, locale, INSTALL) - the block keeps its name-hash
        // array (hash 0 for them) and may hold named files as well
        let content = if nm || plain { ContentFlags::INSTALL } else { ContentFlags::INSTALL | ContentFlags::NO_NAME_HASH };
        let path = path_of(&style, a);
        b.add_file(
            FileDataId::new(fdid_of(lay, n, a)),
            ContentKey::from_bytes(vkey(0xC0, a)),
            if nm { Some(path.as_str()) } else { None },
            LocaleFlags::new(locale),
            ContentFlags::new(content),
        );
    }
    b
}
fn check_fdids(lay: &str, n: u64) {
    let mut seen = std::collections::HashSet::new();
    for a in 0..2 * n {
        if lay == "ends" && !probe_ok(lay, n, a) {
            continue;
        }
        if !seen.insert(fdid_of(lay, n, a)) {
            eprintln!("driver: FileDataID embedding not injective at a={a} lay={lay} n={n}");
            std::process::exit(4);
        }
    }
}
fn run_root(p: &Value, run: &mut Run) {
    let n = u(p, "n");
    let (lay, ord, style) = (s(p, "lay"), s(p, "ord"), s(p, "style"));
    let blocks = u(p, "blocks");
    check_fdids(&lay, n);
    let mut b = build_root(p, n, &lay, &ord);
    let bytes = stage!(run, "build", b.build());
    let root = stage!(run, "parse", RootFile::parse(&bytes));
    let resolver = ContentResolver::new();
    let resolver_ok = matches!(guarded(|| resolver.load_root_file(&bytes)), Ok(Ok(())));
    run.build_ok(root.iter_records().count());
    let hx = |k: &ContentKey| json!(hex(k.as_bytes()));
    let all = LocaleFlags::new(LocaleFlags::ALL);
    let any = ContentFlags::new(ContentFlags::NONE);
    for a in probes(p, "probes") {
        let fd = FileDataId::new(fdid_of(&lay, n, a));
        let path = path_of(&style, a);
        let own = block_locale(blocks, a / 2);
        let other = if own == LocaleFlags::ENUS { LocaleFlags::DEDE } else { LocaleFlags::ENUS };
        let mut r = Map::new();
        fl(&mut r, "id", || root.resolve_by_id(fd, all, any).iter().map(&hx).collect());
        fl(&mut r, "idown", || root.resolve_by_id(fd, LocaleFlags::new(own), any).iter().map(&hx).collect());
        fl(&mut r, "idother", || root.resolve_by_id(fd, LocaleFlags::new(other), any).iter().map(&hx).collect());
        fl(&mut r, "ents", || {
            root.get_entries_by_id(fd).map(|v| v.iter().map(|e| hx(&e.content_key)).collect()).unwrap_or_default()
        });
        fl(&mut r, "scan", || root.iter_records().filter(|x| x.file_data_id == fd).map(|x| hx(&x.content_key)).collect());
        fl(&mut r, "path", || root.resolve_by_path(&path, all, any).iter().map(&hx).collect());
        fl(&mut r, "hash", || root.resolve_by_hash(calculate_name_hash(&path), all, any).iter().map(&hx).collect());
        fl(&mut r, "pents", || {
            root.get_entries_by_path(&path).map(|v| v.iter().map(|e| hx(&e.content_key)).collect()).unwrap_or_default()
        });
        if resolver_ok {
            fl(&mut r, "rfd", || resolver.resolve_file_data_id(fd.get()).iter().map(&hx).collect());
            fl(&mut r, "rpath", || resolver.resolve_path(&path).iter().map(&hx).collect());
        }
        run.lookup("c", a, r);
    }
}

// --------------------------------------------------------------------------- ContentResolver chain
fn run_chain(p: &Value, run: &mut Run) {
    let n = u(p, "n");
    let (lay, ord, style, vp) = (s(p, "lay"), s(p, "ord"), s(p, "style"), s(p, "vp"));
    check_fdids(&lay, n);
    let mut rb = build_root(p, n, &lay, &ord);
    let root_bytes = stage!(run, "build", rb.build());
    // encoding table: content keys are the root's values; every third file (i mod 3 = 2) is *not* in the
    // encoding table, so the chain must stop there
    let mut eb = EncodingBuilder::new().with_page_sizes(u(p, "kbc") as u16, u(p, "kbe") as u16);
    for i in order(&ord, n) {
        let a = 2 * i;
        if i % 3 == 2 {
            continue;
        }
        let ek = EncodingKey::from_bytes(vkey(0xE0, a));
        eb.add_ckey_entry(CKeyEntryData {
            content_key: ContentKey::from_bytes(vkey(0xC0, a)),
            file_size: fsize(&vp, a),
            encoding_keys: vec![ek, EncodingKey::from_bytes(vkey(0xE1, a))],
        });
        eb.add_ekey_entry(EKeyEntryData { encoding_key: ek, espec: SPECS[(i % 3) as usize].to_string(), file_size: fsize(&vp, a) });
    }
    let enc = stage!(run, "build", eb.build());
    let enc_bytes = stage!(run, "serialize", enc.build());
    let resolver = ContentResolver::new();
    stage!(run, "parse", resolver.load_root_file(&root_bytes));
    stage!(run, "parse", resolver.load_encoding_file(&enc_bytes));
    run.build_ok(resolver.stats().root_entries);
    let hx = |k: &EncodingKey| json!(hex(k.as_bytes()));
    for a in probes(p, "probes") {
        let fd = fdid_of(&lay, n, a);
        let path = path_of(&style, a);
        let mut r = Map::new();
        fl(&mut r, "f2e", || resolver.resolve_fdid_to_encoding(fd).iter().map(&hx).collect());
        fl(&mut r, "p2e", || resolver.resolve_path_to_encoding(&path).iter().map(&hx).collect());
        fl(&mut r, "info", || {
            resolver
                .get_file_info(&path)
                .iter()
                .map(|i| json!(format!("{}:{}:{}", hex(i.content_key.as_bytes()), hex(i.encoding_key.as_bytes()), fsize_text(&vp, i.size))))
                .collect()
        });
        // second call: answered from the resolver's caches
        fl(&mut r, "f2e2", || resolver.resolve_fdid_to_encoding(fd).iter().map(&hx).collect());
        fl(&mut r, "p2e2", || resolver.resolve_path_to_encoding(&path).iter().map(&hx).collect());
        run.lookup("c", a, r);
    }
}

// --------------------------------------------------------------------------- TVFS
fn tvfs_path(shape: &str, namelen: u64, a: u64) -> String {
    let pad = |base: String| -> String {
        if namelen == 0 || base.len() as u64 >= namelen {
            base
        } else {
            let fill = "_".repeat(namelen as usize - base.len());
            format!("{base}{fill}")
        }
    };
    match shape {
        "flat" => pad(format!("f{a:05}")),
        // depth grows with a % 6; siblings share directories
        "deep" => {
            let d = (a / 2) % 6;
            let mut s = String::new();
            for l in 0..d {
                s.push_str(&format!("d{l}/"));
            }
            s.push_str(&pad(format!("f{a:05}")));
            s
        }
        // directories of eight files, directory names are prefixes of one another (a, aa, aaa ...)
        "wide" => {
            let dir = "a".repeat(1 + ((a / 16) % 5) as usize);
            format!("{dir}/{}/{}", (a / 16) / 5, pad(format!("f{a:05}")))
        }
        // names that are prefixes of one another, the shorter one first in sort order
        "pfx" => {
            let stem = "file";
            let ext = a.to_string();
            pad(format!("data/{stem}{ext}"))
        }
        // sibling directories whose names are prefixes of one another and where the longer name sorts FIRST
        // ('-' and '.' are below '/'): d-y/, d.x.z/, d.x/, d/
        "sep" => {
            const DIRS: [&str; 4] = ["d", "d.x", "d-y", "d.x.z"];
            format!("{}/{}", DIRS[((a / 2) % 4) as usize], pad(format!("f{a:05}")))
        }
        other => panic!("driver: unknown tvfs shape {other}"),
    }
}
fn tvfs_ekey(a: u64) -> [u8; 9] {
    let mut k = [0x5au8; 9];
    k[0] = 0xE9;
    k[7] = (a >> 8) as u8;
    k[8] = a as u8;
    k
}
fn present_tvfs(ekey: &[u8], esize: u32, ckey: Option<&[u8]>, csize: Option<u32>) -> Value {
    let mut t = format!("{}:{}:{}", hex(ekey), small(esize as u128), ckey.map(hex).unwrap_or_else(|| "-".into()));
    if let Some(c) = csize {
        t.push_str(&format!(":{}", small(c as u128)));
    }
    json!(t)
}
fn run_tvfs(p: &Value, run: &mut Run) {
    let n = u(p, "n");
    let (shape, ord) = (s(p, "shape"), s(p, "ord"));
    let (flags, namelen, nest, estlen) = (u(p, "flags") as u32, u(p, "namelen"), u(p, "nest"), u(p, "estlen"));
    // injective paths
    {
        let mut seen = std::collections::HashSet::new();
        for a in 0..2 * n {
            if !seen.insert(tvfs_path(&shape, namelen, a)) {
                eprintln!("driver: tvfs path embedding not injective at a={a} shape={shape}");
                std::process::exit(4);
            }
        }
    }
    let mut b = TvfsBuilder::with_flags(flags);
    for j in 0..nest {
        // exactly `estlen` bytes each (estlen >= 7, nest <= 100)
        let body = "z".repeat(estlen.saturating_sub(7) as usize);
        let spec = format!("b:{{{j:02}={body}}}");
        assert!(spec.len() as u64 == estlen, "driver: est spec length");
        b.add_est_spec(spec);
    }
    for i in order(&ord, n) {
        let a = 2 * i;
        let ck = vkey(0xC9, a);
        if nest > 0 {
            b.add_file_with_est(tvfs_path(&shape, namelen, a), tvfs_ekey(a), (a + 1) as u32, (3 * a + 5) as u32, Some(ck), (i % nest) as u32);
        } else {
            b.add_file(tvfs_path(&shape, namelen, a), tvfs_ekey(a), (a + 1) as u32, (3 * a + 5) as u32, Some(ck));
        }
    }
    let bytes = stage!(run, "build", b.build());
    let t = stage!(run, "parse", TvfsFile::parse(&bytes));
    run.build_ok(t.path_table.files.len());
    let with_ckey = flags & 1 != 0;
    for a in probes(p, "probes") {
        let path = tvfs_path(&shape, namelen, a);
        let mut r = Map::new();
        let _ = with_ckey;
        fl(&mut r, "rp", || {
            t.resolve_path(&path).iter().map(|e| present_tvfs(&e.ekey, e.encoded_size, e.content_key.as_deref(), None)).collect()
        });
        fl(&mut r, "enum", || {
            t.enumerate_files()
                .filter(|(f, _)| f.path == path)
                .map(|(_, v)| match v.and_then(|v| v.spans.first().map(|sp| (sp.cft_offset, sp.span_length))) {
                    Some((off, len)) => match t.container_table.entries.iter().find(|e| e.offset == off) {
                        Some(e) => present_tvfs(&e.ekey, e.encoded_size, e.content_key.as_deref(), Some(len)),
                        None => json!("no-cft-entry"),
                    },
                    None => json!("no-vfs-entry"),
                })
                .collect()
        });
        fl(&mut r, "chain", || match t.path_table.resolve_path(&path) {
            None => vec![],
            Some(vo) => match VfsTable::read_entry_at(&t.vfs_table.data, vo as usize, &t.header) {
                Err(e) => vec![json!(format!("err: {e}"))],
                Ok(v) => match v.spans.first() {
                    None => vec![json!("no-span")],
                    Some(sp) => match t.container_table.get_entry_at_offset(sp.cft_offset, &t.header) {
                        Err(e) => vec![json!(format!("err: {e}"))],
                        Ok(e) => vec![present_tvfs(&e.ekey, e.encoded_size, e.content_key.as_deref(), Some(sp.span_length))],
                    },
                },
            },
        });
        run.lookup("c", a, r);
    }
}

// --------------------------------------------------------------------------- main
fn scratch() -> std::path::PathBuf {
    let p = std::path::Path::new("/dev/shm");
    if p.is_dir() { p.to_path_buf() } else { std::env::temp_dir() }
}

fn run_program(prog: &Value, out: &Emit) {
    let mut hdr = prog.clone();
    hdr["op"] = json!("new");
    out.ev(hdr);
    out.begin(prog);
    let mut run = Run { out, seq: 0 };
    match prog["kind"].as_str().unwrap_or("") {
        "aidx" => run_aidx(prog, &mut run),
        "agroup" => run_agroup(prog, &mut run),
        "enc" => run_enc(prog, &mut run),
        "root" => run_root(prog, &mut run),
        "chain" => run_chain(prog, &mut run),
        "tvfs" => run_tvfs(prog, &mut run),
        other => panic!("driver: unknown kind {other}"),
    }
    let seq = run.seq + 1;
    out.ev(json!({"op": "end", "seq": seq}));
}

fn main() {
    quiet_panics();
    let args: Vec<String> = std::env::args().collect();
    let mut out = Out::from_arg(arg(&args, "--out").as_ref());
    let programs = arg(&args, "--programs").map(|p| read_programs(&p)).unwrap_or_default();
    let st = run_with_watchdog(programs, &mut out, std::time::Duration::from_secs(60), run_program);
    out.flush();
    eprintln!("{}", json!({"programs": st.programs, "events": out.events, "hangs": st.hangs, "skipped": st.skipped}));
    if st.skipped > 0 {
        std::process::exit(3);
    }
}
