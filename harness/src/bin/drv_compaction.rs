//! C18 driver: executes compaction programs on the real code.
//!
//! usage: drv_compaction --programs <file|-> --out <file|-> [--random N] [--arch M] [--dump-programs <file>]
//!
//! Programs (one JSON object per line; produced by TLC from spec/mc/MC_Compaction.tla or by the
//! seeded generator below):
//!
//!   {"kind":"seg","n":N,"unit":U,"ops":[{"op":"compact","budget":B,"spans":[[off,len],...]},...]}
//!       a file of N units of U bytes (unit k = a block that carries its own number and a pattern
//!       derived from it) is compacted with `extract_compact_segment` once per op; offsets and
//!       lengths are in units.  After every call the file is read back and logged as the sequence
//!       of unit numbers it consists of (-1 = a block that is not a clean copy of any unit).
//!   {"kind":"plan","ops":[{"op":"plan","size":S,"segs":[["F"|"T",used],...],"thr":[num,den]},...]}
//!       `plan_archive_merge` on the given segment population (bytes); the plan is logged.
//!   {"kind":"move","n":N,"m":M,"unit":U,"ops":[{"op":"move","budget":B,"src":so,"dst":do,"len":l},...]}
//!       `CompactionFileMover::move_data` from a source file of N units to a destination file of M
//!       units (units N..N+M-1); both files are read back and logged as unit numbers.
//!   {"kind":"arch","ops":[{"op":"arch","objs":[size,...],"seed":s,"reopen":bool,"extra":k}]}
//!       objects are written through `ArchiveManager`, `compact()` is called, and every object is
//!       read back before/after through the same manager and through a fresh one (= from disk).
//!
//! The driver only executes and records; verdicts are computed by TLC (spec/trace/T_Compaction.tla).
use cascette_client_storage::storage::compaction::{
    CompactionFileMover, DataSpan, extract_compact_segment, plan_archive_merge,
};
use cascette_client_storage::storage::{ArchiveManager, SegmentHeader, SegmentInfo, SegmentState};
use serde_json::{Value, json};
use std::collections::HashMap;
use std::fs::OpenOptions;
use std::sync::{Arc, Mutex, OnceLock};
use verif_harness::*;

fn scratch() -> std::path::PathBuf {
    let p = std::path::Path::new("/dev/shm");
    if p.is_dir() { p.to_path_buf() } else { std::env::temp_dir() }
}

// ---------------------------------------------------------------------------
// concretisation of units: injective, self-describing blocks
// ---------------------------------------------------------------------------
fn fill_unit(unit: usize, k: u32, out: &mut [u8]) {
    debug_assert_eq!(out.len(), unit);
    let mut x: u64 = (u64::from(k) + 1).wrapping_mul(0x9E37_79B9_7F4A_7C15) ^ (unit as u64).rotate_left(32);
    for chunk in out.chunks_mut(8) {
        x ^= x << 13;
        x ^= x >> 7;
        x ^= x << 17;
        let b = x.to_le_bytes();
        chunk.copy_from_slice(&b[..chunk.len()]);
    }
    out[..4].copy_from_slice(&k.to_le_bytes());
}

type Cache = Mutex<HashMap<usize, Arc<Vec<u8>>>>;
static ORIG: OnceLock<Cache> = OnceLock::new();

/// Original content of a file of at least `n` units of `unit` bytes (unit k does not depend on n).
fn orig(unit: usize, n: usize) -> Arc<Vec<u8>> {
    assert!(unit >= 4, "driver: unit must be at least 4 bytes");
    let cache = ORIG.get_or_init(|| Mutex::new(HashMap::new()));
    let mut g = cache.lock().unwrap_or_else(|e| e.into_inner());
    if let Some(v) = g.get(&unit)
        && v.len() >= n * unit
    {
        return v.clone();
    }
    let m = n.max(16);
    let mut v = vec![0u8; m * unit];
    for k in 0..m {
        fill_unit(unit, k as u32, &mut v[k * unit..(k + 1) * unit]);
    }
    let a = Arc::new(v);
    g.insert(unit, a.clone());
    a
}

/// Projection of a file onto unit numbers.
fn decode(data: &[u8], unit: usize, o: &[u8]) -> (Vec<i64>, usize) {
    let total = o.len() / unit;
    let mut ids = Vec::with_capacity(data.len() / unit);
    let mut it = data.chunks_exact(unit);
    for b in &mut it {
        let id = u32::from_le_bytes([b[0], b[1], b[2], b[3]]) as usize;
        if id < total && b == &o[id * unit..(id + 1) * unit] {
            ids.push(id as i64);
        } else {
            ids.push(-1);
        }
    }
    (ids, it.remainder().len())
}

fn short(e: &dyn std::fmt::Display) -> String {
    e.to_string().chars().take(100).collect()
}

// ---------------------------------------------------------------------------
// (a) extract_compact_segment
// ---------------------------------------------------------------------------
fn run_seg(prog: &Value, out: &Emit) {
    let n = prog["n"].as_u64().expect("n") as usize;
    let unit = prog["unit"].as_u64().expect("unit") as usize;
    let o = orig(unit, n);
    let dir = tempfile::tempdir_in(scratch()).expect("tempdir");
    let path = dir.path().join("data.000");
    std::fs::write(&path, &o[..n * unit]).expect("write segment file");
    out.ev(json!({"op": "new", "kind": "seg", "n": n, "unit": unit}));
    let mut seq = 0u64;
    for op in prog["ops"].as_array().expect("ops") {
        assert_eq!(op["op"], "compact", "driver: unknown seg op");
        out.begin(op);
        let budget = op["budget"].as_u64().expect("budget") as usize;
        let mut spans: Vec<DataSpan> = op["spans"]
            .as_array()
            .expect("spans")
            .iter()
            .map(|s| DataSpan {
                offset: s[0].as_u64().expect("off") * unit as u64,
                length: s[1].as_u64().expect("len") * unit as u64,
            })
            .collect();
        let mut ev = op.clone();
        let r = guarded(|| {
            let mut f = OpenOptions::new().read(true).write(true).open(&path).expect("open segment file");
            let mut mover = CompactionFileMover::new(budget);
            let r = extract_compact_segment(&mut f, &mut spans, &mut mover);
            (r, mover.buffer_size(), mover.bytes_moved())
        });
        seq += 1;
        ev["seq"] = json!(seq);
        match r {
            Ok((Ok(saved), bs, mv)) => {
                ev["res"] = json!({"ok": true, "saved": saved});
                ev["bufsize"] = json!(bs);
                ev["moved"] = json!(mv);
            }
            Ok((Err(e), bs, mv)) => {
                ev["res"] = json!({"ok": false, "err": short(&e)});
                ev["bufsize"] = json!(bs);
                ev["moved"] = json!(mv);
            }
            Err(m) => ev["res"] = outcome_panic(&m),
        }
        let data = std::fs::read(&path).expect("read segment file back");
        let (units, ragged) = decode(&data, unit, &o);
        ev["obs"] = json!({"units": units, "ragged": ragged, "bytes": data.len()});
        out.ev(ev);
    }
}

// ---------------------------------------------------------------------------
// (d) CompactionFileMover::move_data
// ---------------------------------------------------------------------------
fn run_move(prog: &Value, out: &Emit) {
    let n = prog["n"].as_u64().expect("n") as usize;
    let m = prog["m"].as_u64().expect("m") as usize;
    let unit = prog["unit"].as_u64().expect("unit") as usize;
    let o = orig(unit, n + m);
    let dir = tempfile::tempdir_in(scratch()).expect("tempdir");
    let sp = dir.path().join("data.000");
    let dp = dir.path().join("data.001");
    std::fs::write(&sp, &o[..n * unit]).expect("write source file");
    std::fs::write(&dp, &o[n * unit..(n + m) * unit]).expect("write destination file");
    out.ev(json!({"op": "new", "kind": "move", "n": n, "m": m, "unit": unit}));
    let mut seq = 0u64;
    for op in prog["ops"].as_array().expect("ops") {
        assert_eq!(op["op"], "move", "driver: unknown move op");
        out.begin(op);
        let budget = op["budget"].as_u64().expect("budget") as usize;
        let so = op["src"].as_u64().expect("src") * unit as u64;
        let dof = op["dst"].as_u64().expect("dst") * unit as u64;
        let len = op["len"].as_u64().expect("len") * unit as u64;
        let mut ev = op.clone();
        let r = guarded(|| {
            let mut sf = std::fs::File::open(&sp).expect("open source file");
            let mut df = OpenOptions::new().write(true).open(&dp).expect("open destination file");
            let mut mover = CompactionFileMover::new(budget);
            let r = mover.move_data(&mut sf, so, &mut df, dof, len);
            (r, mover.buffer_size(), mover.bytes_moved())
        });
        seq += 1;
        ev["seq"] = json!(seq);
        match r {
            Ok((Ok(()), bs, mv)) => {
                ev["res"] = json!({"ok": true});
                ev["bufsize"] = json!(bs);
                ev["moved"] = json!(mv);
            }
            Ok((Err(e), bs, mv)) => {
                ev["res"] = json!({"ok": false, "err": short(&e)});
                ev["bufsize"] = json!(bs);
                ev["moved"] = json!(mv);
            }
            Err(msg) => {
                ev["res"] = outcome_panic(&msg);
                ev["bufsize"] = json!(0);
            }
        }
        let sd = std::fs::read(&sp).expect("read source file back");
        let dd = std::fs::read(&dp).expect("read destination file back");
        let (su, sr) = decode(&sd, unit, &o);
        let (du, dr) = decode(&dd, unit, &o);
        ev["obs"] = json!({"src": su, "dst": du, "ragged": sr + dr});
        out.ev(ev);
    }
}

// ---------------------------------------------------------------------------
// (b) plan_archive_merge
// ---------------------------------------------------------------------------
fn run_plan(prog: &Value, out: &Emit) {
    out.ev(json!({"op": "new", "kind": "plan"}));
    let mut seq = 0u64;
    for op in prog["ops"].as_array().expect("ops") {
        assert_eq!(op["op"], "plan", "driver: unknown plan op");
        out.begin(op);
        let size = op["size"].as_u64().expect("size");
        let tn = op["thr"][0].as_u64().expect("thr num");
        let td = op["thr"][1].as_u64().expect("thr den");
        #[allow(clippy::cast_precision_loss)]
        let thr = tn as f64 / td as f64;
        let segs: Vec<SegmentInfo> = op["segs"]
            .as_array()
            .expect("segs")
            .iter()
            .enumerate()
            .map(|(i, s)| {
                let mut info = SegmentInfo::new(i as u16, SegmentHeader::default());
                info.state = if s[0] == "F" { SegmentState::Frozen } else { SegmentState::Thawed };
                info.write_position = s[1].as_u64().expect("used");
                info
            })
            .collect();
        let mut ev = op.clone();
        let r = guarded(|| plan_archive_merge(&segs, thr, size));
        seq += 1;
        ev["seq"] = json!(seq);
        ev["res"] = match r {
            Ok(plan) => {
                let moves: Vec<Value> = plan
                    .moves
                    .iter()
                    .map(|m| json!([m.source_segment, m.source_offset, m.dest_segment, m.dest_offset, m.length]))
                    .collect();
                json!({"moves": moves, "sources": plan.source_segments, "targets": plan.target_segments,
                       "total": plan.total_bytes})
            }
            Err(m) => outcome_panic(&m),
        };
        out.ev(ev);
    }
}

// ---------------------------------------------------------------------------
// (c) ArchiveManager::compact
// ---------------------------------------------------------------------------
fn dir_bytes(dir: &std::path::Path) -> u64 {
    let mut t = 0;
    if let Ok(rd) = std::fs::read_dir(dir) {
        for e in rd.flatten() {
            if e.file_name().to_string_lossy().starts_with("data.")
                && let Ok(md) = e.metadata()
            {
                t += md.len();
            }
        }
    }
    t
}

fn read_all(mgr: &ArchiveManager, locs: &[Option<(u16, u32, u32)>]) -> Vec<String> {
    locs.iter()
        .map(|l| match l {
            None => "unwritten".to_string(),
            Some((id, off, sz)) => match guarded(|| mgr.read_content(*id, *off, *sz)) {
                Ok(Ok(d)) => md5hex(&d),
                Ok(Err(_)) => "err".to_string(),
                Err(_) => "panic".to_string(),
            },
        })
        .collect()
}

fn read_disk(dir: &std::path::Path, locs: &[Option<(u16, u32, u32)>]) -> Vec<String> {
    let mut m = ArchiveManager::new(dir);
    let opened = guarded(|| rt().block_on(m.open_all()));
    if !matches!(opened, Ok(Ok(()))) {
        return locs.iter().map(|_| "err".to_string()).collect();
    }
    read_all(&m, locs)
}

fn run_arch(prog: &Value, out: &Emit) {
    out.ev(json!({"op": "new", "kind": "arch"}));
    let mut seq = 0u64;
    for op in prog["ops"].as_array().expect("ops") {
        assert_eq!(op["op"], "arch", "driver: unknown arch op");
        out.begin(op);
        let dir = tempfile::tempdir_in(scratch()).expect("tempdir");
        let sizes: Vec<usize> = op["objs"].as_array().expect("objs").iter().map(|s| s.as_u64().expect("size") as usize).collect();
        let reopen = op["reopen"].as_bool().unwrap_or(false);
        let extra = op["extra"].as_u64().unwrap_or(0) as usize;
        let mut rng = Rng::new(op["seed"].as_u64().unwrap_or(1));
        let mut mgr = ArchiveManager::new(dir.path());
        let mut want = vec![];
        let mut locs: Vec<Option<(u16, u32, u32)>> = vec![];
        let split = sizes.len().saturating_sub(extra);
        for (i, sz) in sizes.iter().enumerate() {
            if reopen && i == split {
                // a new manager over the same directory (write positions = file sizes)
                mgr = ArchiveManager::new(dir.path());
                let _ = guarded(|| rt().block_on(mgr.open_all()));
            }
            let data = rng.bytes(*sz);
            want.push(md5hex(&data));
            match guarded(|| mgr.write_content(&data, false)) {
                Ok(Ok((id, off, total, _))) => locs.push(Some((id, off, total))),
                _ => locs.push(None),
            }
        }
        if reopen && split == sizes.len() {
            mgr = ArchiveManager::new(dir.path());
            let _ = guarded(|| rt().block_on(mgr.open_all()));
        }
        let pre = read_all(&mgr, &locs);
        let diskpre = read_disk(dir.path(), &locs);
        let before = dir_bytes(dir.path());
        let r = guarded(|| mgr.compact());
        let after = dir_bytes(dir.path());
        let post = read_all(&mgr, &locs);
        let diskpost = read_disk(dir.path(), &locs);
        let mut ev = op.clone();
        seq += 1;
        ev["seq"] = json!(seq);
        ev["res"] = match r {
            Ok(Ok(st)) => json!({"ok": true, "compacted": st.archives_compacted, "reclaimed": st.bytes_reclaimed, "moved": st.entries_moved}),
            Ok(Err(e)) => json!({"ok": false, "err": short(&e)}),
            Err(m) => outcome_panic(&m),
        };
        let objs: Vec<Value> = (0..sizes.len())
            .map(|i| json!({"want": want[i], "pre": pre[i], "post": post[i], "diskpre": diskpre[i], "diskpost": diskpost[i]}))
            .collect();
        ev["obs"] = json!({"objs": objs, "before": before, "after": after});
        out.ev(ev);
    }
}

fn run_program(prog: &Value, out: &Emit) {
    match prog["kind"].as_str() {
        Some("seg") => run_seg(prog, out),
        Some("plan") => run_plan(prog, out),
        Some("move") => run_move(prog, out),
        Some("arch") => run_arch(prog, out),
        other => panic!("driver: unknown program kind {other:?}"),
    }
}

// ---------------------------------------------------------------------------
// seeded random programs (larger than the exhaustive bounds)
// ---------------------------------------------------------------------------
const UNITS: [usize; 10] = [4, 16, 100, 4096, 32768, 40000, 65536, 65537, 131072, 150001];
const BUDGETS: [usize; 8] = [0, 131072, 200000, 262143, 262144, 393216, 2 << 20, 3 << 20];

/// One compaction of a file of `n` units; returns (op, ideal length afterwards or None = stop here).
fn random_seg_op(rng: &mut Rng, n: u64) -> (Value, Option<u64>) {
    let mut spans: Vec<(u64, u64)> = vec![];
    let mut pos = 0u64;
    let dense = rng.below(3);
    while pos < n {
        let gap = match dense {
            0 => rng.below(2),
            1 => rng.below(4),
            _ => rng.below(n / 2 + 1),
        };
        pos += gap;
        if pos >= n {
            break;
        }
        let maxlen = n - pos;
        let len = 1 + if rng.chance(1, 4) { rng.below(maxlen) } else { rng.below(maxlen.min(6)) };
        spans.push((pos, len));
        pos += len;
        if rng.chance(1, 12) {
            break;
        }
    }
    let total: u64 = spans.iter().map(|s| s.1).sum();
    let mut next = if spans.is_empty() { None } else { Some(total) };
    // empty spans: at arbitrary offsets (possibly strictly inside a live span: left open by the
    // statement, so the program ends there), or exactly at the start / end of a live span
    if rng.chance(1, 5) {
        for _ in 0..1 + rng.below(3) {
            let off = if !spans.is_empty() && rng.chance(2, 3) {
                let s = *rng.pick(&spans);
                if rng.chance(1, 2) { s.0 } else { s.0 + s.1 }
            } else {
                rng.below(n + 1)
            };
            if spans.iter().any(|s| s.1 > 0 && s.0 < off && off < s.0 + s.1) {
                next = None;
            }
            let at = rng.below(spans.len() as u64 + 1) as usize;
            spans.insert(at, (off, 0));
        }
    }
    // a genuinely overlapping span: must be refused, file untouched
    if n > 0 && !spans.is_empty() && rng.chance(1, 10) {
        let s = *rng.pick(&spans);
        if s.1 > 0 {
            let off = s.0 + rng.below(s.1);
            let len = 1 + rng.below(n - off);
            spans.push((off, len));
            next = Some(n);
        }
    }
    if rng.chance(2, 3) {
        for i in (1..spans.len()).rev() {
            let j = rng.below(i as u64 + 1) as usize;
            spans.swap(i, j);
        }
    }
    let sp: Vec<Value> = spans.iter().map(|s| json!([s.0, s.1])).collect();
    (json!({"op": "compact", "budget": *rng.pick(&BUDGETS), "spans": sp}), next)
}

fn random_seg(rng: &mut Rng) -> Value {
    let unit = *rng.pick(&UNITS);
    let maxn = ((6usize << 20) / unit).clamp(1, 48) as u64;
    let n = if rng.chance(1, 20) { rng.below(3) } else { 1 + rng.below(maxn) };
    let mut ops = vec![];
    let mut cur = n;
    for _ in 0..1 + rng.below(3) {
        let (op, next) = random_seg_op(rng, cur);
        ops.push(op);
        match next {
            Some(k) => cur = k,
            None => break,
        }
    }
    json!({"kind": "seg", "n": n, "unit": unit, "ops": ops})
}

fn random_move(rng: &mut Rng) -> Value {
    let unit = *rng.pick(&UNITS);
    let maxn = ((4usize << 20) / unit).clamp(1, 32) as u64;
    let n = 1 + rng.below(maxn);
    let m = rng.below(maxn + 1);
    let mut cur = m;
    let mut ops = vec![];
    for _ in 0..1 + rng.below(4) {
        let so = rng.below(n + 1);
        let len = if rng.chance(1, 8) { 0 } else { rng.below(n - so + 1) };
        let dof = if rng.chance(1, 3) { cur } else { rng.below(cur + 1) };
        cur = cur.max(dof + len);
        if (cur as usize) * unit > (8 << 20) {
            break;
        }
        ops.push(json!({"op": "move", "budget": *rng.pick(&BUDGETS), "src": so, "dst": dof, "len": len}));
    }
    json!({"kind": "move", "n": n, "m": m, "unit": unit, "ops": ops})
}

fn random_plan(rng: &mut Rng) -> Value {
    let mut ops = vec![];
    for _ in 0..8 {
        let size: u64 = match rng.below(4) {
            0 => 1 + rng.below(64),
            1 => 1 << (10 + rng.below(15)),
            2 => 1000 * (1 + rng.below(1000)),
            _ => 1 + rng.below(1 << 24),
        };
        let nseg = rng.below(13);
        let td = 1 + rng.below(16);
        let tn = match rng.below(6) {
            0 => td,
            1 => td + rng.below(td + 1),
            _ => rng.below(td + 1),
        };
        let profile = rng.below(4);
        let segs: Vec<Value> = (0..nseg)
            .map(|_| {
                let used = match profile {
                    0 => rng.below(size + 1),
                    1 => rng.below(size / 4 + 1),
                    2 => (size / 8) * rng.below(9),
                    _ => {
                        if rng.chance(1, 10) {
                            size + rng.below(size / 2 + 1)
                        } else {
                            rng.below(size / 2 + 1)
                        }
                    }
                };
                json!([if rng.chance(4, 5) { "F" } else { "T" }, used])
            })
            .collect();
        ops.push(json!({"op": "plan", "size": size, "segs": segs, "thr": [tn, td]}));
    }
    json!({"kind": "plan", "ops": ops})
}

fn random_arch(rng: &mut Rng) -> Value {
    let k = 1 + rng.below(7);
    let objs: Vec<u64> = (0..k)
        .map(|_| match rng.below(4) {
            0 => rng.below(200),
            1 => 1000 + rng.below(60_000),
            _ => 200_000 + rng.below(500_000),
        })
        .collect();
    let reopen = rng.chance(1, 2);
    let extra = if reopen { rng.below(k + 1) } else { 0 };
    json!({"kind": "arch", "ops": [{"op": "arch", "objs": objs, "seed": rng.below(1 << 30), "reopen": reopen, "extra": extra}]})
}

fn main() {
    quiet_panics();
    let args: Vec<String> = std::env::args().collect();
    let mut out = Out::from_arg(arg(&args, "--out").as_ref());
    let mut programs = vec![];
    if let Some(p) = arg(&args, "--programs") {
        programs = read_programs(&p);
    }
    let nrand = arg_u64(&args, "--random", 0);
    let narch = arg_u64(&args, "--arch", 0);
    if nrand + narch > 0 {
        let mut rng = Rng::new(seed_from_env());
        let mut dump = arg(&args, "--dump-programs").map(|p| Out::to_path(std::path::Path::new(&p)));
        let mut gen_ = vec![];
        for i in 0..nrand {
            gen_.push(match i % 6 {
                2 | 5 => random_plan(&mut rng),
                4 => random_move(&mut rng),
                _ => random_seg(&mut rng),
            });
        }
        for _ in 0..narch {
            gen_.push(random_arch(&mut rng));
        }
        for prog in gen_ {
            if let Some(d) = dump.as_mut() {
                d.ev(&prog);
            }
            programs.push(prog);
        }
    }
    let st = run_with_watchdog(programs, &mut out, std::time::Duration::from_secs(30), run_program);
    out.flush();
    eprintln!("{}", json!({"programs": st.programs, "events": out.events, "hangs": st.hangs, "skipped": st.skipped}));
    if st.skipped > 0 {
        std::process::exit(3);
    }
}
