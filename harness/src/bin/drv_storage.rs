//! C04 driver: executes storage programs on the real local-storage code
//! (`DynamicContainer`, `Installation`, `ArchiveManager`) and records what came back.
//!
//! usage: drv_storage --programs <file|-> --out <file|-> [--timeout SECS]
//!        drv_storage --random N [--len L] --out <file> [--dump-programs <file> [--dump-only]]
//!
//!        drv_storage --loc --out <file>      binding E: boundary archive locations through every place that
//!                                            serialises them (see loc_events)
//!
//! Program:
//!   {"comp":"dyn"|"inst"|"arch", "mode":"none"|"zlib"|"lz4", "compress":bool,
//!    "payloads":[["a","plain",300], ...],            name, class, nominal length
//!    "ops":[{"op":"write","p":"a"}, {"op":"read","p":"a"}, {"op":"remove","p":"a"},
//!           {"op":"flush"}, {"op":"flushb","p":"a"}, {"op":"reopen"}, {"op":"reopen","ro":true},
//!           {"op":"compact"}]}
//!           {"op":"fill","n":30,"bucket":5}   n writes of fresh small objects whose encoding keys all fall
//!                                             into one index bucket (recorded as n ordinary write events)
//!                                             ("of":"a" instead of "bucket": the bucket of table payload a)
//!           {"op":"churn","n":11,"bucket":5}  n write+remove pairs of such objects (dyn)
//!           {"op":"par","t":8,"m":12}         t threads store m fresh objects each at the same time (barrier
//!                                             before every round; dyn / inst); recorded as t*m write events
//!                                             after all threads have returned ("par": batch number) - the
//!                                             judge needs no order among them: every write that said ok must
//!                                             be readable afterwards.  {"op":"par","t":8,"ps":[names]} stores
//!                                             the named table payloads instead (replay).
//! After the last operation every payload of the table (and every fill object) is read once more ("audit":1).
//!
//! Component "dyn":  Container::write/read/query/remove on a DynamicContainer, flush_all_updates /
//!                   flush_bucket, reopen = drop + new + open() on the same directory.
//! Component "inst": Installation::write_file / read_file_by_encoding_key / has_encoding_key,
//!                   reopen = drop + Installation::open + initialize().
//! Component "arch": ArchiveManager::write_content / read_content at the location write_content
//!                   returned (the key -> location map is the driver's: a plain map), compact(),
//!                   reopen = drop + new + open_all().
//!
//! The driver records; it never judges.  `diff` (first differing offset) is a debugging aid only,
//! the verdict is computed by spec/trace/T_Storage.tla from md5/len of written and returned bytes.
use cascette_client_storage::container::{AccessMode, Container, DynamicContainer};
use cascette_client_storage::index::IndexManager;
use cascette_client_storage::storage::{ArchiveManager, LocalHeader};
use cascette_client_storage::{Installation, StorageError};
use cascette_crypto::EncodingKey;
use cascette_formats::CascFormat;
use cascette_formats::blte::{BlteFile, CompressionMode};
use serde_json::{Value, json};
use std::collections::HashMap;
use std::path::{Path, PathBuf};
use verif_harness::*;

// ---------------------------------------------------------------------------------- payloads
fn name_seed(name: &str) -> u64 {
    let mut h: u64 = 0xcbf2_9ce4_8422_2325;
    for b in name.as_bytes() {
        h ^= u64::from(*b);
        h = h.wrapping_mul(0x0000_0100_0000_01B3);
    }
    h
}

fn blte_wrap(inner: &[u8]) -> Vec<u8> {
    BlteFile::single_chunk(inner.to_vec(), CompressionMode::None)
        .expect("driver: BLTE single chunk")
        .build()
        .expect("driver: BLTE build")
}

/// Concrete bytes of a payload: a fixed function of (name, class, nominal length).
/// Classes: plain (pseudo-random), comp (compressible text), blte0 (BLTE magic + undecodable rest),
/// blte30 (30 bytes + BLTE magic + undecodable rest), nested (a valid single-chunk BLTE file),
/// hdrnested (a valid 30-byte local entry header followed by a valid BLTE file).
/// For nested/hdrnested the result has exactly `len` bytes when len >= 9 / 39, otherwise the
/// pattern is cut to `len` bytes (and is then no longer decodable).
fn content(name: &str, cls: &str, len: usize) -> Vec<u8> {
    let mut rng = Rng::new(name_seed(name));
    let mut v: Vec<u8> = match cls {
        "plain" => rng.bytes(len),
        "comp" => {
            let pat = format!("{name}|lorem ipsum dolor sit amet|");
            pat.as_bytes().iter().copied().cycle().take(len).collect()
        }
        "blte0" => {
            let mut v = b"BLTE\xff\xff\xff\xff".to_vec();
            v.extend(rng.bytes(len.saturating_sub(8)));
            v
        }
        "blte30" => {
            let mut v = rng.bytes(30);
            v.extend_from_slice(b"BLTE\xff\xff\xff\xff");
            v.extend(rng.bytes(len.saturating_sub(38)));
            v
        }
        "nested" => blte_wrap(&rng.bytes(len.saturating_sub(9))),
        "hdrnested" => {
            let b = blte_wrap(&rng.bytes(len.saturating_sub(39)));
            let key = EncodingKey::from_data(&b);
            let h = LocalHeader::new(*key.as_bytes(), b.len() as u32, 0);
            let mut v = h.to_bytes().to_vec();
            v.extend(b);
            v
        }
        other => panic!("driver: unknown payload class {other}"),
    };
    v.truncate(len);
    v
}

struct Payload {
    name: String,
    data: Vec<u8>,
    md5: String,
    /// encoding key the containers store the object under: MD5 of its uncompressed BLTE wrapping
    key: [u8; 16],
}

fn payload_table(prog: &Value) -> Vec<Payload> {
    let mut t = vec![];
    for p in prog["payloads"].as_array().expect("payloads") {
        let name = p[0].as_str().unwrap().to_string();
        let cls = p[1].as_str().unwrap();
        let len = p[2].as_u64().unwrap() as usize;
        let data = content(&name, cls, len);
        let key = *EncodingKey::from_data(&blte_wrap(&data)).as_bytes();
        t.push(Payload { md5: md5hex(&data), name, data, key });
    }
    // concretisation must be injective: two names never denote the same bytes
    for i in 0..t.len() {
        for j in 0..i {
            assert!(t[i].md5 != t[j].md5 || t[i].data != t[j].data, "driver: payloads {} and {} have the same content", t[i].name, t[j].name);
        }
    }
    t
}

fn sniff(d: &[u8]) -> (bool, bool) {
    (d.len() >= 4 && &d[0..4] == b"BLTE", d.len() >= 34 && &d[30..34] == b"BLTE")
}

// ---------------------------------------------------------------------------------- system under test
fn kind(e: &StorageError) -> String {
    let d = format!("{e:?}");
    let k: String = d.chars().take_while(|c| c.is_ascii_alphanumeric()).collect();
    format!("err:{k}")
}

fn mode_of(s: &str) -> CompressionMode {
    match s {
        "zlib" => CompressionMode::ZLib,
        "lz4" => CompressionMode::LZ4,
        _ => CompressionMode::None,
    }
}

enum Sut {
    Dyn(DynamicContainer),
    Inst(Installation),
    Arch(ArchiveManager),
    /// open failed: every call reports the error of the failed open
    Dead(String),
}

struct World {
    comp: String,
    mode: CompressionMode,
    compress: bool,
    root: PathBuf,
    sut: Sut,
    rt: tokio::runtime::Runtime,
    /// arch: where write_content said the object is (the driver's plain-map index)
    locs: HashMap<String, (u16, u32, u32)>,
    /// inst: key found in the index listing after the write (falls back to the computed key)
    keys: HashMap<String, [u8; 16]>,
}

impl World {
    fn data_dir(&self) -> PathBuf {
        if self.comp == "inst" { self.root.join(cascette_client_storage::DATA_DIR) } else { self.root.clone() }
    }
    /// total length of the data.NNN files (what the archive layer has appended so far)
    fn dlen(&self) -> u64 {
        let mut n = 0;
        if let Ok(rd) = std::fs::read_dir(self.data_dir()) {
            for e in rd.flatten() {
                let f = e.file_name();
                let f = f.to_string_lossy();
                if f.starts_with("data.") && f.len() == 8 {
                    n += e.metadata().map(|m| m.len()).unwrap_or(0);
                }
            }
        }
        n
    }
    fn open(&mut self, read_only: bool) -> String {
        // the old object is dropped first: "closing" the installation / container
        self.sut = Sut::Dead("closed".into());
        let root = self.root.clone();
        let r: Result<Sut, StorageError> = match self.comp.as_str() {
            "dyn" => (|| -> Result<Sut, StorageError> {
                let am = if read_only { AccessMode::ReadOnly } else { AccessMode::ReadWrite };
                let c = DynamicContainer::new(am, root, false, 100, 1 << 30, false)?;
                self.rt.block_on(c.open())?;
                Ok(Sut::Dyn(c))
            })(),
            "inst" => (|| -> Result<Sut, StorageError> {
                let i = Installation::open(root)?;
                self.rt.block_on(i.initialize())?;
                Ok(Sut::Inst(i))
            })(),
            "arch" => (|| -> Result<Sut, StorageError> {
                let mut a = ArchiveManager::with_compression(&root, self.mode);
                self.rt.block_on(a.open_all())?;
                Ok(Sut::Arch(a))
            })(),
            other => panic!("driver: unknown component {other}"),
        };
        match r {
            Ok(s) => {
                self.sut = s;
                "ok".into()
            }
            Err(e) => {
                let k = kind(&e);
                self.sut = Sut::Dead(k.clone());
                k
            }
        }
    }

    fn key_of(&self, p: &Payload) -> [u8; 16] {
        self.keys.get(&p.name).copied().unwrap_or(p.key)
    }

    fn write(&mut self, p: &Payload, ev: &mut Value) -> String {
        let before = self.dlen();
        let rt = &self.rt;
        let res = match &mut self.sut {
            Sut::Dyn(c) => match rt.block_on(c.write(&p.key, &p.data)) {
                Ok(()) => "ok".to_string(),
                Err(e) => kind(&e),
            },
            Sut::Inst(i) => {
                let listing = |i: &Installation| -> Vec<[u8; 9]> { rt.block_on(i.get_all_index_entries()).iter().map(|e| e.key).collect() };
                let old = listing(i);
                match rt.block_on(i.write_file(p.data.clone(), self.compress)) {
                    Ok(_) => {
                        let new: Vec<[u8; 9]> = listing(i).into_iter().filter(|k| !old.contains(k)).collect();
                        if new.len() == 1 && new[0] != p.key[..9] {
                            let mut k = [0u8; 16];
                            k[..9].copy_from_slice(&new[0]);
                            self.keys.insert(p.name.clone(), k);
                        }
                        "ok".to_string()
                    }
                    Err(e) => kind(&e),
                }
            }
            Sut::Arch(a) => match a.write_content(&p.data, self.compress) {
                Ok((id, off, size, _key)) => {
                    self.locs.insert(p.name.clone(), (id, off, size));
                    ev["off"] = json!(off);
                    ev["end"] = json!(u64::from(off) + u64::from(size));
                    "ok".to_string()
                }
                Err(e) => kind(&e),
            },
            Sut::Dead(k) => k.clone(),
        };
        if ev.get("off").is_none() {
            ev["off"] = json!(before);
            ev["end"] = json!(self.dlen());
        }
        res
    }

    /// existence query: "t" / "f" / "na" (the archive layer has no index) / error kind
    fn query(&mut self, p: &Payload) -> String {
        let key = self.key_of(p);
        let rt = &self.rt;
        let tf = |b: bool| if b { "t".to_string() } else { "f".to_string() };
        match &mut self.sut {
            Sut::Dyn(c) => match rt.block_on(c.query(&key)) {
                Ok(b) => tf(b),
                Err(e) => kind(&e),
            },
            Sut::Inst(i) => tf(rt.block_on(i.has_encoding_key(&EncodingKey::from_bytes(key)))),
            Sut::Arch(_) => "na".into(),
            Sut::Dead(k) => k.clone(),
        }
    }

    /// read by key; returns (res, bytes)
    fn read(&mut self, p: &Payload) -> (String, Option<Vec<u8>>) {
        let key = self.key_of(p);
        let rt = &self.rt;
        match &mut self.sut {
            Sut::Dyn(c) => {
                // room for more than was written, so that surplus bytes are seen
                let mut buf = vec![0u8; p.data.len() + 64];
                // offset 0, len = the whole buffer: "everything" whether or not an implementation honours len
                match rt.block_on(c.read(&key, 0, buf.len() as u32, &mut buf)) {
                    Ok(n) => {
                        buf.truncate(n);
                        ("ok".into(), Some(buf))
                    }
                    Err(e) => (kind(&e), None),
                }
            }
            Sut::Inst(i) => match rt.block_on(i.read_file_by_encoding_key(&EncodingKey::from_bytes(key))) {
                Ok(d) => ("ok".into(), Some(d)),
                Err(e) => (kind(&e), None),
            },
            Sut::Arch(a) => match self.locs.get(&p.name) {
                None => ("err:NotFound".into(), None),
                Some(&(id, off, size)) => match a.read_content(id, off, size) {
                    Ok(d) => ("ok".into(), Some(d)),
                    Err(e) => (kind(&e), None),
                },
            },
            Sut::Dead(k) => (k.clone(), None),
        }
    }

    /// `t` threads store the payloads at the same time: round r = payloads r*t .. r*t+t-1, one per thread,
    /// all threads pass a barrier before every round.  Returns the result of each write (index-aligned).
    fn par_write(&self, ps: &[&Payload], t: usize) -> Vec<String> {
        use std::sync::{Barrier, Mutex};
        let n = ps.len();
        let rounds = n.div_ceil(t);
        let barrier = Barrier::new(t);
        let results: Vec<Mutex<String>> = (0..n).map(|_| Mutex::new("err:NotRun".to_string())).collect();
        let compress = self.compress;
        let (dync, inst) = match &self.sut {
            Sut::Dyn(c) => (Some(c), None),
            Sut::Inst(i) => (None, Some(i)),
            Sut::Dead(k) => return vec![k.clone(); n],
            Sut::Arch(_) => panic!("driver: par is only defined for components dyn and inst"),
        };
        std::thread::scope(|s| {
            for th in 0..t {
                let (barrier, results) = (&barrier, &results);
                s.spawn(move || {
                    let rt = rt();
                    for r in 0..rounds {
                        barrier.wait();
                        let i = r * t + th;
                        if i >= n {
                            continue;
                        }
                        let p = ps[i];
                        let res = guarded(|| {
                            let r = if let Some(c) = dync {
                                rt.block_on(c.write(&p.key, &p.data))
                            } else {
                                rt.block_on(inst.expect("inst").write_file(p.data.clone(), compress)).map(|_| ())
                            };
                            match r {
                                Ok(()) => "ok".to_string(),
                                Err(e) => kind(&e),
                            }
                        })
                        .unwrap_or_else(|_| "panic".to_string());
                        *results[i].lock().expect("result slot") = res;
                    }
                });
            }
        });
        results.into_iter().map(|m| m.into_inner().expect("result slot")).collect()
    }

    fn remove(&mut self, p: &Payload) -> String {
        let key = self.key_of(p);
        match &mut self.sut {
            Sut::Dyn(c) => match self.rt.block_on(c.remove(&key)) {
                Ok(()) => "ok".into(),
                Err(e) => kind(&e),
            },
            Sut::Dead(k) => k.clone(),
            _ => panic!("driver: remove is only defined for component dyn"),
        }
    }

    fn flush(&mut self, bucket_of: Option<&Payload>) -> String {
        match &mut self.sut {
            Sut::Dyn(c) => {
                let r = match bucket_of {
                    None => c.flush_all_updates(),
                    Some(p) => c.flush_bucket(IndexManager::bucket_for_key(&EncodingKey::from_bytes(p.key))),
                };
                match r {
                    Ok(()) => "ok".into(),
                    Err(e) => kind(&e),
                }
            }
            Sut::Dead(k) => k.clone(),
            _ => panic!("driver: flush is only defined for component dyn"),
        }
    }

    fn compact(&mut self) -> String {
        match &mut self.sut {
            Sut::Arch(a) => match a.compact() {
                Ok(_) => "ok".into(),
                Err(e) => kind(&e),
            },
            Sut::Dead(k) => k.clone(),
            _ => panic!("driver: compact is only defined for component arch"),
        }
    }
}

fn first_diff(a: &[u8], b: &[u8]) -> i64 {
    if a == b {
        return -1;
    }
    a.iter().zip(b.iter()).position(|(x, y)| x != y).unwrap_or(a.len().min(b.len())) as i64
}

/// The next not yet used small object whose encoding key falls into index bucket `bucket`
/// (names k<bucket>n<j>, plain class, 16..28 bytes; a fixed function of bucket and j).
fn next_in_bucket(bucket: u8, cursor: &mut HashMap<u8, u64>) -> (Payload, usize) {
    let j = cursor.entry(bucket).or_insert(0);
    loop {
        let name = format!("k{bucket:x}n{j}");
        let len = 16 + (*j % 13) as usize;
        *j += 1;
        let data = content(&name, "plain", len);
        let key = *EncodingKey::from_data(&blte_wrap(&data)).as_bytes();
        if IndexManager::bucket_for_key(&EncodingKey::from_bytes(key)) == bucket {
            return (Payload { md5: md5hex(&data), name, data, key }, len);
        }
    }
}

/// fill / churn -> ordinary write (+ remove) operations on fresh objects of one bucket
fn expand(ops: &[Value], table: &mut Vec<Payload>) -> Vec<Value> {
    let mut cursor: HashMap<u8, u64> = HashMap::new();
    let mut pcur_v = 0u64;
    let pcur = &mut pcur_v;
    let mut out = vec![];
    for op in ops {
        let kind = op["op"].as_str().unwrap_or("");
        if kind == "fill" || kind == "churn" {
            let n = op["n"].as_u64().expect("fill n");
            let bucket = match op.get("of").and_then(Value::as_str) {
                Some(n) => {
                    let t = table.iter().find(|x| x.name == n).unwrap_or_else(|| panic!("driver: payload {n} not in table"));
                    IndexManager::bucket_for_key(&EncodingKey::from_bytes(t.key))
                }
                None => op.get("bucket").and_then(Value::as_u64).unwrap_or(5) as u8 & 15,
            };
            for _ in 0..n {
                let (p, len) = next_in_bucket(bucket, &mut cursor);
                out.push(json!({"op": "write", "p": p.name, "fill": len}));
                if kind == "churn" {
                    out.push(json!({"op": "remove", "p": p.name}));
                }
                table.push(p);
            }
        } else if kind == "par" && op.get("ps").is_none() {
            // fresh objects w<j> of mixed sizes (0.4 .. 130 KiB): a fixed function of j
            const LENS: [usize; 8] = [700, 3000, 20_000, 70_000, 1500, 9000, 130_000, 400];
            let t = op["t"].as_u64().expect("par t");
            let m = op["m"].as_u64().expect("par m");
            let mut names = vec![];
            for _ in 0..t * m {
                let j = *pcur;
                *pcur += 1;
                let name = format!("w{j}");
                let len = LENS[(j % 8) as usize] + j as usize;
                let data = content(&name, "plain", len);
                let key = *EncodingKey::from_data(&blte_wrap(&data)).as_bytes();
                table.push(Payload { md5: md5hex(&data), name: name.clone(), data, key });
                names.push(name);
            }
            out.push(json!({"op": "par", "t": t, "ps": names}));
        } else {
            out.push(op.clone());
        }
    }
    out
}

fn run_program(prog: &Value, out: &Emit) {
    let mut table = payload_table(prog);
    let dir = tempfile::tempdir_in(scratch()).expect("tempdir");
    let comp = prog["comp"].as_str().expect("comp").to_string();
    let mode_s = prog.get("mode").and_then(|m| m.as_str()).unwrap_or("none").to_string();
    let compress = prog.get("compress").and_then(Value::as_bool).unwrap_or(false);
    let mut w = World {
        comp: comp.clone(),
        mode: mode_of(&mode_s),
        compress,
        root: dir.path().join("store"),
        sut: Sut::Dead("closed".into()),
        rt: rt(),
        locs: HashMap::new(),
        keys: HashMap::new(),
    };
    if comp == "arch" {
        std::fs::create_dir_all(&w.root).expect("mkdir");
    }
    let opened = guarded(|| w.open(false)).unwrap_or_else(|_| "panic".into());
    out.ev(json!({"op": "new", "comp": comp, "mode": mode_s, "compress": compress, "res": opened,
                  "payloads": prog["payloads"].clone()}));
    let mut seq = 0u64;
    let mut ops: Vec<Value> = expand(prog["ops"].as_array().expect("ops"), &mut table);
    if prog.get("audit").and_then(Value::as_bool).unwrap_or(true) {
        for p in &table {
            ops.push(json!({"op": "read", "p": p.name, "audit": 1}));
        }
    }
    let mut batch = 0u64;
    for op in &ops {
        let name_ = op["op"].as_str().unwrap();
        if name_ == "par" {
            out.begin(op);
            batch += 1;
            let t = op["t"].as_u64().expect("par t") as usize;
            let ps: Vec<&Payload> = op["ps"]
                .as_array()
                .expect("par ps")
                .iter()
                .map(|n| {
                    let n = n.as_str().unwrap();
                    table.iter().find(|x| x.name == n).unwrap_or_else(|| panic!("driver: payload {n} not in table"))
                })
                .collect();
            let before = w.dlen();
            let res = w.par_write(&ps, t.max(1));
            let after = w.dlen();
            for (p, r) in ps.iter().zip(res) {
                seq += 1;
                let (b0, b30) = sniff(&p.data);
                // off/end: the batch as a whole (the individual positions are the store's business)
                out.ev(json!({"op": "write", "p": p.name, "par": batch, "t": t, "fill": p.data.len(), "seq": seq,
                              "len": p.data.len(), "md5": p.md5, "blte0": b0, "blte30": b30, "key": hex(&p.key),
                              "off": before, "end": after, "res": r, "dlen": after}));
            }
            continue;
        }
        let mut ev = op.clone();
        let pay = op.get("p").and_then(|p| p.as_str()).map(|n| table.iter().find(|x| x.name == n).unwrap_or_else(|| panic!("driver: payload {n} not in table")));
        out.begin(op);
        seq += 1;
        ev["seq"] = json!(seq);
        let r = guarded(|| match name_ {
            "write" => {
                let p = pay.expect("p");
                let (b0, b30) = sniff(&p.data);
                ev["len"] = json!(p.data.len());
                ev["md5"] = json!(p.md5);
                ev["blte0"] = json!(b0);
                ev["blte30"] = json!(b30);
                ev["key"] = json!(hex(&p.key));
                let r = w.write(p, &mut ev);
                ev["res"] = json!(r);
            }
            "read" => {
                let p = pay.expect("p");
                ev["q"] = json!(w.query(p));
                let (r, data) = w.read(p);
                ev["res"] = json!(r);
                match data {
                    Some(d) => {
                        ev["len"] = json!(d.len());
                        ev["md5"] = json!(md5hex(&d));
                        ev["diff"] = json!(first_diff(&d, &p.data));
                    }
                    None => {
                        ev["len"] = json!(-1);
                        ev["md5"] = json!("");
                        ev["diff"] = json!(-1);
                    }
                }
            }
            "remove" => ev["res"] = json!(w.remove(pay.expect("p"))),
            "flush" => ev["res"] = json!(w.flush(None)),
            "flushb" => ev["res"] = json!(w.flush(Some(pay.expect("p")))),
            "compact" => ev["res"] = json!(w.compact()),
            "reopen" => ev["res"] = json!(w.open(op.get("ro").and_then(Value::as_bool).unwrap_or(false))),
            other => panic!("driver: unknown op {other}"),
        });
        if let Err(m) = r {
            if m.starts_with("driver:") {
                eprintln!("{m}");
                std::process::exit(4);
            }
            // a panic of the code under test is an outcome
            ev["res"] = json!("panic");
            ev["panic"] = json!(m.chars().take(160).collect::<String>());
            if name_ == "read" {
                if ev.get("q").is_none() {
                    ev["q"] = json!("panic");
                }
                ev["len"] = json!(-1);
                ev["md5"] = json!("");
            }
            if name_ == "write" && ev.get("off").is_none() {
                ev["off"] = json!(0);
                ev["end"] = json!(0);
            }
        }
        ev["dlen"] = json!(w.dlen());
        out.ev(ev);
    }
}

fn scratch() -> PathBuf {
    let p = Path::new("/dev/shm");
    if p.is_dir() { p.to_path_buf() } else { std::env::temp_dir() }
}

// ---------------------------------------------------------------------------------- random programs
const CLASSES: [&str; 6] = ["plain", "comp", "blte0", "blte30", "nested", "hdrnested"];

fn random_len(rng: &mut Rng) -> u64 {
    match rng.below(10) {
        // the boundaries the read paths sniff at, and the tiny ones
        0 => *rng.pick(&[0u64, 1, 3, 4, 5, 8, 9, 29, 30, 33, 34, 35, 38, 39, 40]),
        // heavy tail: uniform exponent
        _ => {
            let e = rng.below(19);
            (1u64 << e) + rng.below(1u64 << e)
        }
    }
}

/// Many small objects in one store, no flush, reopen(s): the index update logs of the buckets grow
/// past one page (21 entries) and have to be read back.
fn bulk_program(rng: &mut Rng) -> Value {
    let comp = *rng.pick(&["dyn", "inst"]);
    let npay = 300 + rng.below(200) as usize;
    let mut payloads: Vec<Value> = vec![];
    for i in 0..npay {
        // distinct by construction: the length is >= 8 pseudo-random bytes seeded by the name
        payloads.push(json!([format!("p{i}"), if rng.chance(1, 4) { "comp" } else { "plain" }, 8 + rng.below(40)]));
    }
    let mut ops = vec![];
    // one bulk history in four starts far into the archive: 9 x 8 MiB first, so that every later object lies
    // beyond 64 MiB (offsets that need more than 26 bits)
    if rng.chance(1, 4) {
        for i in 0..9 {
            payloads.push(json!([format!("big{i}"), "comp", (8 << 20) + i]));
            ops.push(json!({"op": "write", "p": format!("big{i}")}));
        }
    }
    let mut written = 0usize;
    let mut removed: Vec<u64> = vec![];
    while written < npay {
        let x = rng.below(100);
        if x < 86 || written == 0 {
            ops.push(json!({"op": "write", "p": format!("p{written}")}));
            written += 1;
        } else if x < 94 {
            ops.push(json!({"op": "read", "p": format!("p{}", rng.below(written as u64))}));
        } else if x < 96 && comp == "dyn" {
            let i = rng.below(written as u64);
            ops.push(json!({"op": "remove", "p": format!("p{i}")}));
            removed.push(i);
        } else if x < 97 && !removed.is_empty() {
            // the same bytes again, much later: the tombstone and the new entry end up in different log pages
            let i = removed[rng.below(removed.len() as u64) as usize];
            ops.push(json!({"op": "write", "p": format!("p{i}")}));
        } else if x < 98 {
            ops.push(json!({"op": "reopen"}));
        } else if rng.chance(1, 3) {
            ops.push(json!({"op": "fill", "n": 5 + rng.below(40), "bucket": rng.below(16)}));
        }
    }
    if rng.chance(3, 4) {
        ops.push(json!({"op": "reopen"}));
    }
    json!({"comp": comp, "mode": "none", "compress": rng.chance(1, 2), "payloads": payloads, "ops": ops})
}

fn random_program(rng: &mut Rng, len: usize) -> Value {
    if rng.chance(1, 10) {
        return bulk_program(rng);
    }
    let comp = *rng.pick(&["dyn", "dyn", "inst", "inst", "arch"]);
    let mode = if comp == "arch" { *rng.pick(&["none", "zlib", "lz4"]) } else { "none" };
    let compress = rng.chance(1, 2);
    let npay = 8 + rng.below(18) as usize;
    let mut payloads: Vec<Value> = vec![];
    let mut seen: Vec<Vec<u8>> = vec![];
    for i in 0..npay {
        let name = format!("p{i}");
        let cls = if rng.chance(1, 2) { "plain" } else { *rng.pick(&CLASSES) };
        let mut l = random_len(rng) as usize;
        // injective concretisation: never two names with the same bytes (matters for tiny lengths)
        loop {
            let c = content(&name, cls, l);
            if !seen.contains(&c) {
                if c.len() <= 64 {
                    seen.push(c);
                }
                break;
            }
            l += 1;
        }
        payloads.push(json!([name, cls, l]));
    }
    let mut written: Vec<usize> = vec![];
    let mut ops = vec![];
    let pname = |i: usize| format!("p{i}");
    for _ in 0..len {
        let x = rng.below(100);
        let op = if written.is_empty() || x < 40 {
            // a fresh payload most of the time, sometimes the same content again
            let i = if !written.is_empty() && rng.chance(1, 6) { *rng.pick(&written) } else { rng.below(npay as u64) as usize };
            if !written.contains(&i) {
                written.push(i);
            }
            json!({"op": "write", "p": pname(i)})
        } else if x < 80 {
            let i = if rng.chance(1, 12) { rng.below(npay as u64) as usize } else { *rng.pick(&written) };
            json!({"op": "read", "p": pname(i)})
        } else if x < 88 {
            if comp == "dyn" && rng.chance(1, 5) { json!({"op": "reopen", "ro": true}) } else { json!({"op": "reopen"}) }
        } else if comp == "dyn" && x < 93 {
            json!({"op": "remove", "p": pname(*rng.pick(&written))})
        } else if comp == "dyn" && x < 97 {
            if rng.chance(1, 2) { json!({"op": "flush"}) } else { json!({"op": "flushb", "p": pname(*rng.pick(&written))}) }
        } else if comp == "arch" && x < 94 {
            json!({"op": "compact"})
        } else if comp != "arch" && x >= 98 {
            json!({"op": "par", "t": 2 + rng.below(5), "m": 1 + rng.below(4)})
        } else {
            json!({"op": "read", "p": pname(*rng.pick(&written))})
        };
        ops.push(op);
    }
    json!({"comp": comp, "mode": mode, "compress": compress, "payloads": payloads, "ops": ops})
}

// ---------------------------------------------------------------------------------- binding E: locations
/// Boundary locations (archive id x offset x size) are pushed through the four places of the crate that
/// serialise the 5-byte archive location, always through the public API:
///   via "update":     UpdateEntry::new(..).to_bytes() -> UpdateEntry::from_bytes   (+ the 5 bytes written)
///   via "entry":      IndexEntry::new(..).to_packed() -> IndexEntry::from_packed   (+ the 5 bytes written)
///   via "idx_log":    IndexManager::add_entry; save_all; a second manager: load_all; lookup  (update section)
///   via "idx_sorted": ... flush_all_updates (merge into the sorted section); a third manager: load_all; lookup
/// Recorded: what went in, what came back (-1 = not found).  Judged by T_Storage (PackLoc / identity).
fn loc_events(out: &mut Out) {
    use cascette_client_storage::index::update::{UpdateEntry, UpdateStatus};
    use cascette_client_storage::index::{ArchiveLocation, IndexEntry};
    const IDS: [u16; 9] = [0, 1, 2, 3, 4, 255, 256, 1022, 1023];
    const OFFS: [u32; 16] = [0, 1, 255, 256, 65_535, 65_536, 16_777_215, 16_777_216, 67_108_863, 67_108_864, 67_108_865,
                             134_217_728, 268_435_456, 536_870_912, 536_883_257, 1_073_741_823];
    const SIZES: [u32; 3] = [0, 59, 0x7FFF_FFFF];
    out.ev(&json!({"op": "new", "comp": "loc", "mode": "none", "compress": false, "res": "ok", "payloads": []}));
    let mut seq = 0u64;
    let mut rng = Rng::new(0x10c);
    let mut grid: Vec<([u8; 16], u16, u32, u32)> = vec![];
    for &id in &IDS {
        for &off in &OFFS {
            for &size in &SIZES {
                let mut key = [0u8; 16];
                key.copy_from_slice(&rng.bytes(16));
                key[0] |= 1; // never the all-zero key (the idx loader treats it as an empty slot)
                grid.push((key, id, off, size));
            }
        }
    }
    let mut emit = |out: &mut Out, via: &str, g: &([u8; 16], u16, u32, u32), back: Option<(u16, u32, u32)>, bytes: Option<&[u8]>, res: &str| {
        seq += 1;
        let (rid, roff, rsize) = back.map_or((-1i64, -1i64, -1i64), |(a, b, c)| (i64::from(a), i64::from(b), i64::from(c)));
        let mut ev = json!({"op": "loc", "via": via, "id": g.1, "off": g.2, "size": g.3, "rid": rid, "roff": roff, "rsize": rsize,
                            "res": res, "seq": seq});
        if let Some(b) = bytes {
            ev["bytes"] = json!(b.iter().map(|x| u64::from(*x)).collect::<Vec<u64>>());
        }
        out.ev(&ev);
    };
    for g in &grid {
        let mut k9 = [0u8; 9];
        k9.copy_from_slice(&g.0[..9]);
        // UpdateEntry: [0x0D] 5 location bytes
        match guarded(|| {
            let b = UpdateEntry::new(k9, ArchiveLocation { archive_id: g.1, archive_offset: g.2 }, g.3, UpdateStatus::Normal).to_bytes();
            let e = UpdateEntry::from_bytes(&b);
            let ok = e.validate_hash_guard() && e.ekey == k9;
            (b, e.archive_location.archive_id, e.archive_location.archive_offset, e.encoded_size, ok)
        }) {
            Ok((b, i, o, s, ok)) => emit(out, "update", g, if ok { Some((i, o, s)) } else { None }, Some(&b[13..18]), "ok"),
            Err(_) => emit(out, "update", g, None, None, "panic"),
        }
        // IndexEntry: key (9) + 5 location bytes + size (4)
        match guarded(|| {
            let b = IndexEntry::new(k9, g.1, g.2, g.3).to_packed(9, 30, 32);
            let e = IndexEntry::from_packed(&b, 9, 30, 32).ok();
            (b, e.map(|e| (e.archive_id(), e.archive_offset(), e.size)))
        }) {
            Ok((b, back)) => emit(out, "entry", g, back, if b.len() >= 14 { Some(&b[9..14]) } else { None }, "ok"),
            Err(_) => emit(out, "entry", g, None, None, "panic"),
        }
    }
    // through the .idx files
    let rt = rt();
    let dir = tempfile::tempdir_in(scratch()).expect("tempdir");
    let lookup_all = |out: &mut Out, via: &str, emit: &mut dyn FnMut(&mut Out, &str, &([u8; 16], u16, u32, u32), Option<(u16, u32, u32)>, Option<&[u8]>, &str)| {
        let r = guarded(|| {
            let mut m = IndexManager::new(dir.path());
            rt.block_on(m.load_all()).map(|()| m)
        });
        for g in &grid {
            match &r {
                Ok(Ok(m)) => {
                    let back = m.lookup(&EncodingKey::from_bytes(g.0)).map(|e| (e.archive_id(), e.archive_offset(), e.size));
                    emit(out, via, g, back, None, "ok");
                }
                Ok(Err(e)) => emit(out, via, g, None, None, &kind(e)),
                Err(_) => emit(out, via, g, None, None, "panic"),
            }
        }
    };
    let mut a = IndexManager::new(dir.path());
    let added = guarded(|| {
        for g in &grid {
            a.add_entry(&EncodingKey::from_bytes(g.0), g.1, g.2, g.3).expect("driver: add_entry");
        }
        a.save_all().expect("driver: save_all");
    });
    if added.is_err() {
        eprintln!("driver: could not build the index for --loc");
        std::process::exit(4);
    }
    lookup_all(out, "idx_log", &mut emit);
    if guarded(|| a.flush_all_updates().expect("driver: flush_all_updates")).is_err() {
        eprintln!("driver: could not flush the index for --loc");
        std::process::exit(4);
    }
    lookup_all(out, "idx_sorted", &mut emit);
}

fn main() {
    quiet_panics();
    let args: Vec<String> = std::env::args().collect();
    let mut out = Out::from_arg(arg(&args, "--out").as_ref());
    if has_flag(&args, "--loc") {
        loc_events(&mut out);
        out.flush();
        eprintln!("{}", json!({"programs": 1, "events": out.events, "hangs": 0, "skipped": 0}));
        return;
    }
    let mut programs = vec![];
    if let Some(p) = arg(&args, "--programs") {
        programs = read_programs(&p);
    }
    let nrand = arg_u64(&args, "--random", 0);
    if nrand > 0 {
        let mut rng = Rng::new(seed_from_env());
        let len = arg_u64(&args, "--len", 100) as usize;
        let mut dump = arg(&args, "--dump-programs").map(|p| Out::to_path(Path::new(&p)));
        for _ in 0..nrand {
            let prog = random_program(&mut rng, len);
            if let Some(d) = dump.as_mut() {
                d.ev(&prog);
            }
            programs.push(prog);
        }
        if has_flag(&args, "--dump-only") {
            // generation only: the programs are executed by sharded runs of --programs
            eprintln!("{}", json!({"generated": programs.len()}));
            return;
        }
    }
    let timeout = std::time::Duration::from_secs(arg_u64(&args, "--timeout", 60));
    let mut counts: std::collections::BTreeMap<String, u64> = std::collections::BTreeMap::new();
    for p in &programs {
        for op in p["ops"].as_array().expect("ops") {
            *counts.entry(format!("n_{}", op["op"].as_str().unwrap_or("?"))).or_insert(0) += 1;
        }
    }
    let st = run_with_watchdog(programs, &mut out, timeout, run_program);
    out.flush();
    let mut summary = json!({"programs": st.programs, "events": out.events, "hangs": st.hangs, "skipped": st.skipped});
    for (k, v) in counts {
        summary[k] = json!(v);
    }
    eprintln!("{summary}");
    if st.skipped > 0 {
        std::process::exit(3);
    }
}
