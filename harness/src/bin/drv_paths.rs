//! C20 driver: feeds adversarial key / endpoint / name strings to every public API that turns a string into a
//! file-system path or URL and records which paths were created, changed, deleted or read.
//!
//! usage: drv_paths --programs <file> --out <file>
//! Program (from MC_Paths): {"api": name, "abs": bool, "comps": [component class, ...], ...}
//!         or {"api": "pair:<api>", "k1": {abs,comps}, "k2": {abs,comps}}     (injectivity of well-formed keys)
//!         or {"api": "cdn.keylen", "len": n} / {"api": "cdn.range", "offset": o, "length": l} / {"api": "fixed.*", ...}
//! Layout of one sandbox:  <top>/s0/s1/s2/s3/s4 = parent;  parent/l1/l2/l3/root = configured directory;
//! decoy files "x", "y" next to every ancestor of root; parent/abs = target of absolute keys.
//! All observed paths are reported relative to `parent` as component lists (["<outside>", ...] when above it).
use bytes::Bytes;
use cascette_cache::config::DiskCacheConfig;
use cascette_cache::disk_cache::DiskCache;
use cascette_cache::key::{ArchiveIndexKey, CacheKey, ConfigKey, RibbitKey};
use cascette_cache::traits::AsyncCache;
use serde_json::{Value, json};
use std::collections::BTreeMap;
use std::path::{Path, PathBuf};
use std::sync::OnceLock;
use verif_harness::*;

#[derive(Debug, Clone, PartialEq, Eq, Hash)]
struct RawKey(String);
impl CacheKey for RawKey {
    fn as_cache_key(&self) -> &str {
        &self.0
    }
}

const DECOY: &[u8] = b"DECOY-CONTENT-outside-the-configured-directory";

fn comp(c: &str) -> String {
    match c {
        "up" => "..".into(),
        "dot" => ".".into(),
        "empty" => String::new(),
        "p" => "x".into(),
        "q" => "y".into(),
        "pt" => "x.tmp".into(),
        "pa" => "x.a".into(),
        "long" => "L".repeat(300),
        "colon" => "a:b".into(),
        other => panic!("driver: unknown component class {other}"),
    }
}

struct Sandbox {
    _tmp: tempfile::TempDir,
    top: PathBuf,
    parent: PathBuf,
    root: PathBuf,
}
impl Sandbox {
    fn new() -> Self {
        let base = if Path::new("/dev/shm").is_dir() { PathBuf::from("/dev/shm") } else { std::env::temp_dir() };
        let tmp = tempfile::tempdir_in(base).expect("tempdir");
        let top = tmp.path().join("s0");
        let parent = top.join("s1/s2/s3/s4");
        let root = parent.join("l1/l2/l3/root");
        std::fs::create_dir_all(&root).unwrap();
        std::fs::create_dir_all(parent.join("abs")).unwrap();
        for d in ["", "l1", "l1/l2", "l1/l2/l3", "abs"] {
            for n in ["x", "y", "x.tmp", "x.a"] {
                std::fs::write(parent.join(d).join(n), DECOY).unwrap();
            }
        }
        Sandbox { _tmp: tmp, top, parent, root }
    }
    fn key_string(&self, abs: bool, comps: &[String]) -> String {
        let body = comps.join("/");
        if abs { format!("{}/abs/{}", self.parent.display(), body) } else { body }
    }
    /// every file and directory below `top`: path -> (is_dir, len, md5 of content for small files)
    fn listing(&self) -> BTreeMap<PathBuf, (bool, u64, String)> {
        let mut m = BTreeMap::new();
        fn walk(d: &Path, m: &mut BTreeMap<PathBuf, (bool, u64, String)>) {
            if let Ok(rd) = std::fs::read_dir(d) {
                for e in rd.flatten() {
                    let p = e.path();
                    let md = match std::fs::symlink_metadata(&p) {
                        Ok(m) => m,
                        Err(_) => continue,
                    };
                    if md.is_dir() {
                        m.insert(p.clone(), (true, 0, String::new()));
                        walk(&p, m);
                    } else {
                        let h = std::fs::read(&p).map(|b| md5hex(&b)).unwrap_or_default();
                        m.insert(p, (false, md.len(), h));
                    }
                }
            }
        }
        walk(&self.top, &mut m);
        m
    }
    fn rel(&self, p: &Path) -> Value {
        match p.strip_prefix(&self.parent) {
            Ok(r) => json!(r.components().map(|c| c.as_os_str().to_string_lossy().to_string()).map(|s| if s.len() > 40 { "long".to_string() } else { s }).collect::<Vec<_>>()),
            Err(_) => json!(["<outside>", p.strip_prefix(&self.top).map(|r| r.display().to_string()).unwrap_or_else(|_| p.display().to_string())]),
        }
    }
    /// paths that differ between two listings (created, deleted or content changed); directories only when created/deleted
    fn diff(&self, a: &BTreeMap<PathBuf, (bool, u64, String)>, b: &BTreeMap<PathBuf, (bool, u64, String)>) -> Vec<Value> {
        let mut v = vec![];
        for (p, x) in b {
            match a.get(p) {
                None => v.push(json!({"p": self.rel(p), "how": "created", "dir": x.0})),
                Some(y) if y != x => v.push(json!({"p": self.rel(p), "how": "changed", "dir": x.0})),
                _ => {}
            }
        }
        for (p, x) in a {
            if !b.contains_key(p) {
                v.push(json!({"p": self.rel(p), "how": "deleted", "dir": x.0}));
            }
        }
        v
    }
}

fn outcome<T, E: std::fmt::Debug>(r: Result<Result<T, E>, String>) -> (String, Option<T>) {
    match r {
        Ok(Ok(v)) => ("ok".into(), Some(v)),
        Ok(Err(_)) => ("err".into(), None),
        Err(m) => (format!("panic: {}", m.chars().take(200).collect::<String>()), None),
    }
}

fn outcome_s<T, E: std::fmt::Debug>(r: Result<Result<T, E>, String>) -> String {
    outcome(r).0
}

/// One cache exercise: put, get, contains, remove; records touched paths and whether a read served decoy bytes.
fn exercise_cache<K: CacheKey + 'static>(sb: &Sandbox, cache: &DiskCache<K>, keys: &[K], ev: &mut Value) {
    let before = sb.listing();
    let mut steps = vec![];
    let mut touched: Vec<Value> = vec![];
    let mut cur = before.clone();
    let mut decoy_read = false;
    let mut values_ok = true;
    let block = |f: std::pin::Pin<Box<dyn std::future::Future<Output = Value> + '_>>| futures::executor::block_on(f);
    let _ = block;
    for (i, k) in keys.iter().enumerate() {
        let val = Bytes::from(format!("VALUE-{i}-{}", "v".repeat(i * 3)));
        let (o, _) = outcome(guarded(|| futures::executor::block_on(cache.put(k.clone(), val.clone()))));
        steps.push(json!({"op": "put", "key": i, "outcome": o}));
        let now = sb.listing();
        touched.extend(sb.diff(&cur, &now));
        cur = now;
    }
    for (i, k) in keys.iter().enumerate() {
        let val = Bytes::from(format!("VALUE-{i}-{}", "v".repeat(i * 3)));
        let (o, got) = outcome(guarded(|| futures::executor::block_on(cache.get(k))));
        let res = match got {
            Some(Some(b)) => {
                if b.as_ref() == DECOY {
                    decoy_read = true;
                    "decoy"
                } else if b == val {
                    "own"
                } else {
                    values_ok = false;
                    "other"
                }
            }
            Some(None) => "none",
            None => "-",
        };
        steps.push(json!({"op": "get", "key": i, "outcome": o, "res": res}));
        let now = sb.listing();
        touched.extend(sb.diff(&cur, &now));
        cur = now;
    }
    for (i, k) in keys.iter().enumerate() {
        let (o, _) = outcome(guarded(|| futures::executor::block_on(cache.remove(k))));
        steps.push(json!({"op": "remove", "key": i, "outcome": o}));
        let now = sb.listing();
        touched.extend(sb.diff(&cur, &now));
        cur = now;
    }
    ev["steps"] = json!(steps);
    ev["touched"] = json!(touched);
    ev["decoy_read"] = json!(decoy_read);
    ev["values_ok"] = json!(values_ok);
}

fn disk_cache<K: CacheKey + 'static>(sb: &Sandbox, subdirs: bool) -> DiskCache<K> {
    let cfg = DiskCacheConfig::new(sb.root.clone()).with_subdirectories(subdirs, if subdirs { 2 } else { 0 });
    DiskCache::<K>::new(cfg).expect("disk cache")
}

fn key_from(sb: &Sandbox, k: &Value) -> String {
    let comps: Vec<String> = k["comps"].as_array().unwrap().iter().map(|c| comp(c.as_str().unwrap())).collect();
    sb.key_string(k["abs"].as_bool().unwrap_or(false), &comps)
}

/// Two well-formed typed keys that differ in exactly one field: each must keep its own value in a DiskCache.
fn typed_pair(prog: &Value, ev: &mut Value) {
    use cascette_cache::key::{ArchiveRangeKey, BlteBlockKey, BlteKey, ContentCacheKey, EncodingFileKey, ManifestKey, RootFileKey};
    use cascette_crypto::{ContentKey, EncodingKey};
    let sb = Sandbox::new();
    let ty = prog["ty"].as_str().unwrap();
    let vary = prog["vary"].as_str().unwrap();
    let subdirs = prog["subdirs"].as_bool().unwrap_or(false);
    let ck = |b: u8| ContentKey::from_bytes([b; 16]);
    let ek = |b: u8| EncodingKey::from_bytes([b; 16]);
    ev["pair"] = json!(true);
    ev["base"] = json!(format!("typed.{ty}.{vary}"));
    macro_rules! run {
        ($k:ty, $a:expr, $b:expr) => {{
            let c = disk_cache::<$k>(&sb, subdirs);
            let ks: Vec<$k> = vec![$a, $b];
            ev["keys"] = json!([ks[0].as_cache_key(), ks[1].as_cache_key()]);
            exercise_cache(&sb, &c, &ks, ev);
        }};
    }
    match (ty, vary) {
        ("ribbit", "endpoint") => run!(RibbitKey, RibbitKey::new("versions", "us"), RibbitKey::new("cdns", "us")),
        ("ribbit", "region") => run!(RibbitKey, RibbitKey::new("versions", "us"), RibbitKey::new("versions", "eu")),
        ("ribbit", "product") => run!(RibbitKey, RibbitKey::with_product("versions", "us", "wow"), RibbitKey::with_product("versions", "us", "d3")),
        ("ribbit", "product_none") => run!(RibbitKey, RibbitKey::new("versions", "us"), RibbitKey::with_product("versions", "us", "wow")),
        ("config", "type") => run!(ConfigKey, ConfigKey::new("build", "abcd"), ConfigKey::new("cdn", "abcd")),
        ("config", "hash") => run!(ConfigKey, ConfigKey::new("build", "abcd"), ConfigKey::new("build", "abce")),
        ("blte", "ekey") => run!(BlteKey, BlteKey::new(ek(1)), BlteKey::new(ek(2))),
        ("blte", "block") => run!(BlteKey, BlteKey::with_block(ek(1), 0), BlteKey::with_block(ek(1), 1)),
        ("blte", "block_none") => run!(BlteKey, BlteKey::new(ek(1)), BlteKey::with_block(ek(1), 0)),
        ("content", "ckey") => run!(ContentCacheKey, ContentCacheKey::new(ck(1)), ContentCacheKey::new(ck(2))),
        ("index", "name") => run!(ArchiveIndexKey, ArchiveIndexKey::new("arch1", "abcd"), ArchiveIndexKey::new("arch2", "abcd")),
        ("index", "hash") => run!(ArchiveIndexKey, ArchiveIndexKey::new("arch1", "abcd"), ArchiveIndexKey::new("arch1", "abce")),
        ("manifest", "type") => run!(ManifestKey, ManifestKey::new("install", ck(1)), ManifestKey::new("download", ck(1))),
        ("manifest", "ckey") => run!(ManifestKey, ManifestKey::new("install", ck(1)), ManifestKey::new("install", ck(2))),
        ("manifest", "version") => run!(ManifestKey, ManifestKey::with_version("install", ck(1), "1.2.3"), ManifestKey::with_version("install", ck(1), "1.2.4")),
        ("manifest", "version_none") => run!(ManifestKey, ManifestKey::new("install", ck(1)), ManifestKey::with_version("install", ck(1), "1.2.3")),
        ("root", "ckey") => run!(RootFileKey, RootFileKey::new_raw(ck(1)), RootFileKey::new_raw(ck(2))),
        ("root", "parsed") => run!(RootFileKey, RootFileKey::new_raw(ck(1)), RootFileKey::new_parsed(ck(1))),
        ("root", "version") => run!(RootFileKey, RootFileKey::with_version(ck(1), false, 1), RootFileKey::with_version(ck(1), false, 2)),
        ("root", "version_none") => run!(RootFileKey, RootFileKey::new_raw(ck(1)), RootFileKey::with_version(ck(1), false, 1)),
        ("encoding", "ekey") => run!(EncodingFileKey, EncodingFileKey::new_raw(ek(1)), EncodingFileKey::new_raw(ek(2))),
        ("encoding", "parsed") => run!(EncodingFileKey, EncodingFileKey::new_raw(ek(1)), EncodingFileKey::new_parsed(ek(1))),
        ("encoding", "page") => run!(EncodingFileKey, EncodingFileKey::with_page(ek(1), 0, false), EncodingFileKey::with_page(ek(1), 1, false)),
        ("encoding", "page_none") => run!(EncodingFileKey, EncodingFileKey::new_raw(ek(1)), EncodingFileKey::with_page(ek(1), 0, false)),
        ("range", "archive") => run!(ArchiveRangeKey, ArchiveRangeKey::new("arch1", 0, 10), ArchiveRangeKey::new("arch2", 0, 10)),
        ("range", "offset") => run!(ArchiveRangeKey, ArchiveRangeKey::new("arch1", 0, 10), ArchiveRangeKey::new("arch1", 1, 10)),
        ("range", "length") => run!(ArchiveRangeKey, ArchiveRangeKey::new("arch1", 0, 10), ArchiveRangeKey::new("arch1", 0, 11)),
        ("block", "ckey") => run!(BlteBlockKey, BlteBlockKey::new_raw(ck(1), 0), BlteBlockKey::new_raw(ck(2), 0)),
        ("block", "index") => run!(BlteBlockKey, BlteBlockKey::new_raw(ck(1), 0), BlteBlockKey::new_raw(ck(1), 1)),
        ("block", "decompressed") => run!(BlteBlockKey, BlteBlockKey::new_raw(ck(1), 0), BlteBlockKey::new_decompressed(ck(1), 0)),
        other => panic!("driver: unknown typed pair {other:?}"),
    }
}

static MOCK_PORT: OnceLock<u16> = OnceLock::new();
/// minimal HTTP/1.1 server answering every GET with 200 and a fixed body (for CdnClient::download)
fn mock_port() -> u16 {
    *MOCK_PORT.get_or_init(|| {
        let l = std::net::TcpListener::bind("127.0.0.1:0").expect("bind mock");
        let port = l.local_addr().unwrap().port();
        std::thread::spawn(move || {
            for s in l.incoming().flatten() {
                std::thread::spawn(move || {
                    use std::io::{Read, Write};
                    let mut s = s;
                    let _ = s.set_read_timeout(Some(std::time::Duration::from_secs(5)));
                    let mut buf = [0u8; 4096];
                    loop {
                        let mut req = vec![];
                        loop {
                            match s.read(&mut buf) {
                                Ok(0) | Err(_) => return,
                                Ok(n) => {
                                    req.extend_from_slice(&buf[..n]);
                                    if req.windows(4).any(|w| w == b"\r\n\r\n") {
                                        break;
                                    }
                                }
                            }
                        }
                        // the body names the object that was asked for, so that two objects never have the same bytes
                        let line = String::from_utf8_lossy(&req).lines().next().unwrap_or("").to_string();
                        let body = format!("BODY:{}", line.split(' ').nth(1).unwrap_or("?")).into_bytes();
                        if line.starts_with("HEAD") {
                            let _ = write!(s, "HTTP/1.1 200 OK\r\nContent-Length: {}\r\n\r\n", body.len());
                            let _ = s.flush();
                            continue;
                        }
                        let _ = write!(s, "HTTP/1.1 200 OK\r\nContent-Length: {}\r\nContent-Type: application/octet-stream\r\n\r\n", body.len());
                        let _ = s.write_all(&body);
                        let _ = s.flush();
                    }
                });
            }
        });
        port
    })
}

fn run_program(prog: &Value, em: &Emit, rt: &tokio::runtime::Runtime) {
    let api = prog["api"].as_str().unwrap().to_string();
    let mut ev = json!({"op": "call", "api": api, "prog": prog});
    em.begin(prog);
    let sb = Sandbox::new();
    if api == "pair:typed" {
        typed_pair(prog, &mut ev);
        em.ev(ev);
        return;
    }
    let (base_api, keys): (String, Vec<String>) = if let Some(a) = api.strip_prefix("pair:") {
        (a.to_string(), vec![key_from(&sb, &prog["k1"]), key_from(&sb, &prog["k2"])])
    } else if prog.get("comps").is_some() {
        (api.clone(), vec![key_from(&sb, prog)])
    } else {
        (api.clone(), vec![])
    };
    ev["pair"] = json!(api.starts_with("pair:"));
    ev["base"] = json!(base_api);
    match base_api.as_str() {
        "disk.raw" | "disk.raw.subdirs" => {
            let c = disk_cache::<RawKey>(&sb, base_api.ends_with("subdirs"));
            let ks: Vec<RawKey> = keys.iter().map(|k| RawKey(k.clone())).collect();
            exercise_cache(&sb, &c, &ks, &mut ev);
        }
        "disk.ribbit.endpoint" => {
            let c = disk_cache::<RibbitKey>(&sb, false);
            let ks: Vec<RibbitKey> = keys.iter().map(|k| RibbitKey::new(k.clone(), "us")).collect();
            exercise_cache(&sb, &c, &ks, &mut ev);
        }
        "disk.ribbit.region" => {
            let c = disk_cache::<RibbitKey>(&sb, false);
            let ks: Vec<RibbitKey> = keys.iter().map(|k| RibbitKey::new("ep", k.clone())).collect();
            exercise_cache(&sb, &c, &ks, &mut ev);
        }
        "disk.config.hash" => {
            let c = disk_cache::<ConfigKey>(&sb, false);
            let ks: Vec<ConfigKey> = keys.iter().map(|k| ConfigKey::new("build", k.clone())).collect();
            exercise_cache(&sb, &c, &ks, &mut ev);
        }
        "disk.index.name" => {
            let c = disk_cache::<ArchiveIndexKey>(&sb, false);
            let ks: Vec<ArchiveIndexKey> = keys.iter().map(|k| ArchiveIndexKey::new(k.clone(), "abcd")).collect();
            exercise_cache(&sb, &c, &ks, &mut ev);
        }
        "proto.ribbit" => {
            let before = sb.listing();
            let cfg = cascette_protocol::CacheConfig { cache_dir: Some(sb.root.clone()), ..Default::default() };
            let mut steps = vec![];
            let mut decoy_read = false;
            let mut values_ok = true;
            match guarded(|| cascette_protocol::cache::ProtocolCache::new(&cfg)) {
                Ok(Ok(cache)) => {
                    for (i, k) in keys.iter().enumerate() {
                        let key = format!("api/ribbit/{k}");
                        let val = format!("VALUE-{i}").into_bytes();
                        let (o, _) = outcome(guarded(|| cache.store_bytes(&key, &val)));
                        steps.push(json!({"op": "put", "key": i, "outcome": o}));
                    }
                    for (i, k) in keys.iter().enumerate() {
                        let key = format!("api/ribbit/{k}");
                        let val = format!("VALUE-{i}").into_bytes();
                        let (o, got) = outcome(guarded(|| cache.get_bytes(&key)));
                        let res = match got {
                            Some(Some(b)) if b == DECOY => {
                                decoy_read = true;
                                "decoy"
                            }
                            Some(Some(b)) if b == val => "own",
                            Some(Some(_)) => {
                                values_ok = false;
                                "other"
                            }
                            Some(None) => "none",
                            None => "-",
                        };
                        steps.push(json!({"op": "get", "key": i, "outcome": o, "res": res}));
                    }
                }
                _ => steps.push(json!({"op": "new", "outcome": "err"})),
            }
            ev["steps"] = json!(steps);
            ev["touched"] = json!(sb.diff(&before, &sb.listing()));
            ev["decoy_read"] = json!(decoy_read);
            ev["values_ok"] = json!(values_ok);
        }
        "cdn.objects" | "cdn.archive_name" => {
            let before = sb.listing();
            let cfg = cascette_protocol::CacheConfig { cache_dir: if prog["disk"].as_bool().unwrap_or(true) { Some(sb.root.clone()) } else { None }, ..Default::default() };
            let cache = std::sync::Arc::new(cascette_protocol::cache::ProtocolCache::new(&cfg).expect("protocol cache"));
            let client = cascette_protocol::CdnClient::new(cache, cascette_protocol::CdnConfig::default()).expect("cdn client");
            let endpoint = cascette_protocol::CdnEndpoint {
                host: format!("127.0.0.1:{}", mock_port()),
                path: "tpr/wow".to_string(),
                product_path: None,
                scheme: Some("http".into()),
                is_fallback: false,
                strict: false,
                max_hosts: None,
            };
            let mut steps = vec![];
            let mut objects = vec![];
            if base_api == "cdn.objects" {
                // every kind of object of ONE hash, twice (second round from the cache): kinds must not share bytes
                let key: Vec<u8> = (0..16).map(|i| 0x10 + i as u8).collect();
                let hexk = hex(&key);
                for round in 0..2 {
                    for kind in ["data", "index", "config", "patch"] {
                        let r = guarded(|| {
                            rt.block_on(async {
                                match kind {
                                    "data" => client.download(&endpoint, cascette_protocol::ContentType::Data, &key).await,
                                    "config" => client.download(&endpoint, cascette_protocol::ContentType::Config, &key).await,
                                    "patch" => client.download(&endpoint, cascette_protocol::ContentType::Patch, &key).await,
                                    _ => client.download_archive_index(&endpoint, &hexk).await,
                                }
                            })
                        });
                        let (o, got) = outcome(r);
                        steps.push(json!({"op": kind, "outcome": o}));
                        if let Some(b) = got {
                            objects.push(json!({"kind": kind, "round": round, "digest": md5hex(&b)}));
                        }
                    }
                }
            } else {
                let name = String::from_utf8(::hex::decode(prog["name_hex"].as_str().unwrap()).unwrap()).unwrap();
                let (o, _) = outcome(guarded(|| rt.block_on(client.download_archive_index(&endpoint, &name))));
                steps.push(json!({"op": "download_archive_index", "outcome": o}));
                let (o, _) = outcome(guarded(|| rt.block_on(client.get_index_size(&endpoint, &name))));
                steps.push(json!({"op": "get_index_size", "outcome": o}));
                // the other places that turn an archive name / hash string into a URL
                let rd = cascette_protocol::cdn::RangeDownloader::with_config(1, 1 << 20, std::time::Duration::from_millis(400)).expect("range downloader");
                for with_product in [false, true] {
                    let mut ep = endpoint.clone();
                    if with_product {
                        ep.product_path = Some("wow".into());
                    }
                    let r = guarded(|| rt.block_on(rd.download_archive_content(&ep, &name, 0, 4)).map(|v| Some(bytes::Bytes::from(v))).map_err(|e| e.to_string()));
                    steps.push(json!({"op": "range.download_archive_content", "outcome": outcome_s(r)}));
                }
                use cascette_protocol::cdn::streaming::{CdnUrlBuilder, ContentType as SCT};
                let r = guarded(|| CdnUrlBuilder::hash_directories(&name).map(|_| None::<bytes::Bytes>).map_err(|e| e.to_string()));
                steps.push(json!({"op": "stream.hash_directories", "outcome": outcome_s(r)}));
                let r = guarded(|| CdnUrlBuilder::new().build_url("127.0.0.1", "tpr/wow", SCT::Data, &name, false).map(|_| None::<bytes::Bytes>).map_err(|e| e.to_string()));
                steps.push(json!({"op": "stream.build_url", "outcome": outcome_s(r)}));
                let r = guarded(|| CdnUrlBuilder::new().build_product_config_url("127.0.0.1", &name, false).map(|_| None::<bytes::Bytes>).map_err(|e| e.to_string()));
                steps.push(json!({"op": "stream.build_product_config_url", "outcome": outcome_s(r)}));
            }
            ev["objects"] = json!(objects);
            ev["decoy_read"] = json!(false);
            ev["values_ok"] = json!(true);
            ev["steps"] = json!(steps);
            ev["touched"] = json!(sb.diff(&before, &sb.listing()));
        }
        "cdn.path" | "cdn.keylen" | "cdn.range" => {
            let before = sb.listing();
            let cfg = cascette_protocol::CacheConfig { cache_dir: Some(sb.root.clone()), ..Default::default() };
            let cache = std::sync::Arc::new(cascette_protocol::cache::ProtocolCache::new(&cfg).expect("protocol cache"));
            let client = cascette_protocol::CdnClient::new(cache, cascette_protocol::CdnConfig::default()).expect("cdn client");
            let path = if base_api == "cdn.path" { keys[0].clone() } else { "tpr/wow".to_string() };
            let endpoint = cascette_protocol::CdnEndpoint {
                host: format!("127.0.0.1:{}", mock_port()),
                path,
                product_path: None,
                scheme: Some("http".into()),
                is_fallback: false,
                strict: false,
                max_hosts: None,
            };
            let keylen = prog.get("len").and_then(Value::as_u64).unwrap_or(16) as usize;
            let key: Vec<u8> = (0..keylen).map(|i| 0xA0 + i as u8).collect();
            let mut steps = vec![];
            if base_api == "cdn.range" {
                let (off, len): (u64, u64) = (prog["offset"].as_str().unwrap().parse().unwrap(), prog["length"].as_str().unwrap().parse().unwrap());
                let (o, _) = outcome(guarded(|| rt.block_on(client.download_range(&endpoint, cascette_protocol::ContentType::Data, &key, off, len))));
                steps.push(json!({"op": "download_range", "outcome": o}));
            } else {
                for _ in 0..2 {
                    let (o, got) = outcome(guarded(|| rt.block_on(client.download(&endpoint, cascette_protocol::ContentType::Config, &key))));
                    let res = match got {
                        Some(b) if b == DECOY => "decoy",
                        Some(b) if b.starts_with(b"BODY:") => "own",
                        Some(_) => "other",
                        None => "-",
                    };
                    steps.push(json!({"op": "download", "outcome": o, "res": res}));
                }
            }
            ev["decoy_read"] = json!(steps.iter().any(|s| s["res"] == "decoy"));
            ev["values_ok"] = json!(!steps.iter().any(|s| s["res"] == "other"));
            ev["steps"] = json!(steps);
            ev["touched"] = json!(sb.diff(&before, &sb.listing()));
        }
        "storage.open" => {
            let cfg = cascette_client_storage::config::StorageConfig { base_path: sb.root.clone(), ..Default::default() };
            let mut steps = vec![];
            match guarded(|| cascette_client_storage::Storage::new(cfg)) {
                Ok(Ok(st)) => {
                    let before = sb.listing();
                    let (o, _) = outcome(guarded(|| st.open_installation(&keys[0])));
                    steps.push(json!({"op": "open_installation", "outcome": o}));
                    ev["touched"] = json!(sb.diff(&before, &sb.listing()));
                }
                _ => {
                    steps.push(json!({"op": "new", "outcome": "err"}));
                    ev["touched"] = json!([]);
                }
            }
            ev["steps"] = json!(steps);
            ev["decoy_read"] = json!(false);
            ev["values_ok"] = json!(true);
        }
        "hardlink.dest" => {
            // HardLinkContainer::create_link / remove_file take the destination path from the caller: the
            // container's directory joined with the key string, and - for absolute keys - also a spelling in a
            // sibling directory whose name merely starts with the container's name (no ".." in it)
            use cascette_client_storage::container::AccessMode;
            use cascette_client_storage::container::hardlink::HardLinkContainer;
            let mut steps = vec![];
            let src_dir = sb.root.join("hl-src");
            let tgt_dir = sb.root.join("hl-tgt");
            std::fs::create_dir_all(&src_dir).unwrap();
            std::fs::create_dir_all(&tgt_dir).unwrap();
            let source = src_dir.join("source.bin");
            std::fs::write(&source, b"SOURCE").unwrap();
            let mut c = HardLinkContainer::new(AccessMode::ReadWrite, sb.root.clone());
            let supported = c.test_support(&src_dir, &tgt_dir).unwrap_or(false);
            steps.push(json!({"op": "test_support", "outcome": if supported { "ok" } else { "err" }}));
            let mut dests = vec![sb.root.join(&keys[0])];
            if prog["abs"].as_bool().unwrap_or(false) {
                let body = keys[0].rsplit("/abs/").next().unwrap_or("x").to_string();
                for sibling in [".bak", "2"] {
                    dests.push(PathBuf::from(format!("{}{}/{}", sb.root.display(), sibling, body)));
                }
            }
            // a victim file at every outside destination that can be prepared without ".." (its deletion or
            // replacement must show); prepared before the first listing
            for d in &dests {
                let plain = d.is_absolute() && !d.components().any(|c| matches!(c, std::path::Component::ParentDir | std::path::Component::CurDir));
                if plain && !d.starts_with(&sb.root) && d.starts_with(&sb.top) && d.file_name().is_some() {
                    if let Some(parent) = d.parent() {
                        let _ = std::fs::create_dir_all(parent);
                    }
                    if !d.exists() {
                        let _ = std::fs::write(d, b"VICTIM");
                    }
                }
            }
            let before = sb.listing();
            let key16 = [0x5Au8; 16];
            for d in &dests {
                let (o, _) = outcome(guarded(|| c.create_link(&key16, &source, d)));
                steps.push(json!({"op": "create_link", "outcome": o}));
                let (o, _) = outcome(guarded(|| c.remove_file(&key16, d)));
                steps.push(json!({"op": "remove_file", "outcome": o}));
            }
            ev["steps"] = json!(steps);
            ev["touched"] = json!(sb.diff(&before, &sb.listing()));
            ev["decoy_read"] = json!(false);
            ev["values_ok"] = json!(true);
        }
        "fixed.paths" => {
            // fixed-width binary keys: the produced relative paths for a family of keys (judged for confinement + injectivity)
            let base = sb.root.clone();
            let mut out = vec![];
            let mut rng = Rng::new(prog["seed"].as_u64().unwrap_or(1));
            let mut ks: Vec<[u8; 9]> = vec![[0; 9], [0xFF; 9], [0x2E; 9], [0x2F; 9]];
            for _ in 0..prog["n"].as_u64().unwrap_or(50) {
                let b = rng.bytes(9);
                ks.push(b.try_into().unwrap());
            }
            for k in &ks {
                let p = cascette_client_storage::container::hardlink::format_content_key_path(&base, k);
                out.push(json!({"fn": "format_content_key_path", "key": hex(k), "p": sb.rel(&p)}));
            }
            for g in [0u64, 1, 255, 256, u64::from(u32::MAX), u64::MAX] {
                let p = cascette_client_storage::lru::lru_file::lru_file_path(&base, g);
                out.push(json!({"fn": "lru_file_path", "key": g.to_string(), "p": sb.rel(&p)}));
            }
            ev["paths"] = json!(out);
            ev["touched"] = json!([]);
            ev["steps"] = json!([]);
            ev["decoy_read"] = json!(false);
            ev["values_ok"] = json!(true);
        }
        other => panic!("driver: unknown api {other}"),
    }
    em.ev(ev);
}

fn main() {
    quiet_panics();
    let args: Vec<String> = std::env::args().collect();
    let mut out = Out::from_arg(arg(&args, "--out").as_ref());
    let programs = read_programs(&arg(&args, "--programs").expect("--programs"));
    let st = run_with_watchdog(programs, &mut out, std::time::Duration::from_secs(60), |prog, em| {
        let rt = verif_harness::rt();
        run_program(prog, em, &rt);
    });
    out.flush();
    eprintln!("{}", json!({"programs": st.programs, "events": out.events, "hangs": st.hangs, "skipped": st.skipped}));
    if st.skipped > 0 {
        std::process::exit(3);
    }
}
