//! X10 driver: executes programs on the archive-client layer of cascette-protocol (feature `streaming`):
//! cdn/streaming/archive.rs (StreamingArchiveReader, BatchArchiveExtractor) and cdn/streaming/integration.rs
//! (CdnResolutionConfig, StreamingCdnResolver, BatchContentResolver, CancellationToken) over a scripted
//! in-process HttpClient (no sockets; paused tokio clock).
//! (crates/cascette-protocol/src/archive_client.rs is an orphan file: no crate declares it as a module and it names
//! cascette-formats' private `archive::file::ArchiveResolver`, so it cannot be compiled from outside - finding FX10a.)
//!
//! usage: drv_archclient --programs <file> --out <file>
//!        drv_archclient --random N --out <file> [--dump-programs <file>]        (seeded by VERIF_SEED)
//!
//! A program is {"fam":F,"cfg":{..},"ops":[{"op":..,..},..]}.  The WORLD is described by cfg and materialised here:
//!   cfg.keys  [{k, enc:"blte"|"raw"|"zero", plen}]    key ids; payload(k) = bytes (16k + i) mod 256, i < plen;
//!             blob(k) = "BLTE" 00000000 'N' payload (enc blte) | payload (enc raw); real key = md5(blob(k))
//!   cfg.arcs  [{len, ents:[{k, off, size, src}], h:{n,t,u}, hl:{n,t,u}, d1, d2}]
//!             archive bytes: blob(src) at off for every entry with size > 0, filler 200 + p mod 50 elsewhere, cut at len
//!             h: the hash strings a program may name the archive by (n = lower case, t = an alias ending in "10",
//!             u = upper case of n), hl: what a URL carries for them, d1/d2: the two directory levels of hl.n
//!   cfg.vc    StreamingArchiveConfig::verify_checksums;  cfg.host/path/product/https: CdnResolutionConfig
//! Family "cm" (cfg {urls:n}) drives cascette_cache::cdn::CdnClient (fetch_content / fetch_encoding / fetch_config /
//! fetch_archive_range over the crate's private mock HTTP layer) and records its metrics after every call.
//! Every GET the code issues is answered from the world according to the op's outcome script `outs` (one token per GET
//! in arrival order, "ok" when the script is used up):  ok | short (last byte missing) | long (one byte more) |
//! flip (last byte inverted) | junk (64 x 0x5a) | e503 | e404 | tmo;  a URL outside the world answers "nf" (404), a range
//! that starts behind the resource "e416".  Each GET is recorded as {"op":"call","i","url","range":[s,e]|[],"o"} in
//! front of the operation's own event {"op":..,args..,"seq":n,"res":{..},"obs":{..}}.
//!
//! Nothing is decided here; spec/trace/T_ArchClient.tla judges the events.
use async_trait::async_trait;
use bytes::Bytes;
use cascette_crypto::TactKeyStore;
use cascette_formats::archive::{ArchiveIndex, ArchiveIndexBuilder};
use cascette_protocol::cdn::streaming::integration::CancellationToken;
use cascette_protocol::cdn::streaming::{
    ArchiveExtractionRequest, ArchiveExtractionResult, BatchArchiveExtractor, BatchContentResolver, CdnResolutionConfig,
    ContentResolutionRequest, ContentResolutionResult, HttpClient, HttpRange, StreamingArchiveConfig, StreamingArchiveReader,
    StreamingCdnResolver, StreamingConfig, StreamingError,
};
use serde_json::{Map, Value, json};
use std::collections::{BTreeMap, HashMap, VecDeque};
use std::io::Cursor;
use std::sync::atomic::{AtomicU64, Ordering};
use std::sync::{Arc, Mutex};
use std::time::Duration;
use verif_harness::*;

fn u(v: &Value, k: &str) -> u64 {
    v[k].as_u64().unwrap_or_else(|| panic!("driver: field {k} missing in {v}"))
}
fn s<'a>(v: &'a Value, k: &str) -> &'a str {
    v[k].as_str().unwrap_or_else(|| panic!("driver: field {k} missing in {v}"))
}
fn b(v: &Value, k: &str) -> bool {
    v[k].as_bool().unwrap_or_else(|| panic!("driver: field {k} missing in {v}"))
}
fn ints(x: &[u8]) -> Value {
    Value::Array(x.iter().map(|&y| json!(y)).collect())
}
fn panic_res(m: String) -> Value {
    json!({"kind": "panic", "msg": m.chars().take(200).collect::<String>()})
}

// ------------------------------------------------------------------------------------------------
// world
// ------------------------------------------------------------------------------------------------
const HDR: [u8; 9] = [66, 76, 84, 69, 0, 0, 0, 0, 78];
struct KeyDef {
    enc: String,
    plen: u64,
}
struct Ent {
    k: u64,
    off: u64,
    size: u64,
    src: u64,
}
struct Arch {
    bytes: Vec<u8>,
    ents: Vec<Ent>,
    index_bytes: Vec<u8>,
    index: ArchiveIndex,
    h: BTreeMap<String, String>,  // n / t / u -> hash string as a program names it
    hl: BTreeMap<String, String>, // n / t / u -> what a URL carries
}
struct World {
    keys: BTreeMap<u64, KeyDef>,
    arcs: Vec<Arch>,
    real: BTreeMap<u64, Vec<u8>>, // key id -> 16 real key bytes
}
fn payload(k: u64, plen: u64) -> Vec<u8> {
    (0..plen).map(|i| ((16 * k + i) % 256) as u8).collect()
}
fn blob(w: &BTreeMap<u64, KeyDef>, k: u64) -> Vec<u8> {
    let d = w.get(&k).unwrap_or_else(|| panic!("driver: key {k} not in cfg.keys"));
    match d.enc.as_str() {
        "blte" => [HDR.to_vec(), payload(k, d.plen)].concat(),
        "raw" => payload(k, d.plen),
        _ => Vec::new(),
    }
}
fn real_key(w: &BTreeMap<u64, KeyDef>, k: u64) -> Vec<u8> {
    let bl = blob(w, k);
    if bl.is_empty() { md5::compute(format!("x10-key-{k}")).0.to_vec() } else { md5::compute(&bl).0.to_vec() }
}
fn world_of(cfg: &Value) -> World {
    let mut keys = BTreeMap::new();
    for kd in cfg["keys"].as_array().expect("cfg.keys") {
        keys.insert(u(kd, "k"), KeyDef { enc: s(kd, "enc").to_string(), plen: u(kd, "plen") });
    }
    let real: BTreeMap<u64, Vec<u8>> = keys.keys().map(|&k| (k, real_key(&keys, k))).collect();
    let mut arcs = Vec::new();
    for a in cfg["arcs"].as_array().expect("cfg.arcs") {
        let len = u(a, "len") as usize;
        let mut bytes: Vec<u8> = (0..len).map(|p| (200 + p % 50) as u8).collect();
        let mut ents = Vec::new();
        let mut bld = ArchiveIndexBuilder::new();
        for e in a["ents"].as_array().expect("ents") {
            let en = Ent { k: u(e, "k"), off: u(e, "off"), size: u(e, "size"), src: u(e, "src") };
            if en.size > 0 {
                for (i, y) in blob(&keys, en.src).iter().enumerate() {
                    let p = en.off as usize + i;
                    if p < len {
                        bytes[p] = *y;
                    }
                }
            }
            bld.add_entry(real[&en.k].clone(), en.size as u32, en.off);
            ents.push(en);
        }
        let mut cur = Cursor::new(Vec::new());
        let index = bld.build(&mut cur).expect("driver: index build");
        let m = |f: &str| -> BTreeMap<String, String> {
            a[f].as_object().expect("h/hl").iter().map(|(k, v)| (k.clone(), v.as_str().expect("hash").to_string())).collect()
        };
        arcs.push(Arch { bytes, ents, index_bytes: cur.into_inner(), index, h: m("h"), hl: m("hl") });
    }
    World { keys, arcs, real }
}
impl World {
    fn key_id(&self, real: &[u8]) -> i64 {
        self.real.iter().find(|(_, r)| r.as_slice() == real).map_or(-1, |(k, _)| *k as i64)
    }
    fn arc(&self, a: u64) -> &Arch {
        &self.arcs[a as usize - 1]
    }
}

// ------------------------------------------------------------------------------------------------
// scripted server
// ------------------------------------------------------------------------------------------------
struct Server {
    world: Arc<World>,
    script: Mutex<VecDeque<String>>,
    log: Mutex<Vec<Value>>,
    n: AtomicU64,
}
#[derive(Clone)]
struct Cl(Arc<Server>);
impl Server {
    fn resource(&self, url: &str) -> Option<&[u8]> {
        let last = url.rsplit('/').next().unwrap_or("");
        let (hash, idx) = match last.strip_suffix(".index") {
            Some(h) => (h, true),
            None => (last, false),
        };
        for a in &self.world.arcs {
            if a.hl.values().any(|x| x == hash) {
                return Some(if idx { &a.index_bytes } else { &a.bytes });
            }
        }
        None
    }
    fn arm(&self, outs: &Value) {
        let mut sc = self.script.lock().expect("script");
        sc.clear();
        if let Some(a) = outs.as_array() {
            for o in a {
                sc.push_back(o.as_str().expect("out").to_string());
            }
        }
        self.n.store(0, Ordering::SeqCst);
    }
    fn take_log(&self) -> Vec<Value> {
        std::mem::take(&mut *self.log.lock().expect("log"))
    }
}
fn status(code: u16, url: &str) -> StreamingError {
    StreamingError::HttpStatus { status_code: code, url: url.to_string() }
}
#[async_trait]
impl HttpClient for Cl {
    async fn get_range(&self, url: &str, range: Option<HttpRange>) -> Result<Bytes, StreamingError> {
        let sv = &self.0;
        let i = sv.n.fetch_add(1, Ordering::SeqCst) + 1;
        // a runaway loop of the code under test must end: recorded as a panic of the operation
        assert!(i <= 64, "driver: more than 64 requests in one operation (runaway loop)");
        let mut o = sv.script.lock().expect("script").pop_front().unwrap_or_else(|| "ok".to_string());
        let res = sv.resource(url);
        let rj = range.map_or_else(|| json!([]), |r| json!([r.start.min(1 << 30), r.end.min(1 << 30)]));
        let mut body: Vec<u8> = Vec::new();
        match res {
            None => o = "nf".into(),
            Some(full) => {
                if !matches!(o.as_str(), "e503" | "e404" | "tmo") {
                    match range {
                        None => body = full.to_vec(),
                        Some(r) if (r.start as usize) < full.len() && r.start <= r.end => {
                            let e = (r.end as usize).min(full.len() - 1);
                            body = full[r.start as usize..=e].to_vec();
                        }
                        Some(_) => o = "e416".into(),
                    }
                }
            }
        }
        sv.log.lock().expect("log").push(json!({"op": "call", "i": i, "url": url, "range": rj, "o": o}));
        match o.as_str() {
            "ok" => Ok(Bytes::from(body)),
            "short" => {
                body.pop();
                Ok(Bytes::from(body))
            }
            "long" => {
                body.push(0xEE);
                Ok(Bytes::from(body))
            }
            "flip" => {
                if let Some(l) = body.last_mut() {
                    *l ^= 0xFF;
                }
                Ok(Bytes::from(body))
            }
            "junk" => Ok(Bytes::from(vec![0x5A; 64])),
            "e503" => Err(status(503, url)),
            "e404" | "nf" => Err(status(404, url)),
            "e416" => Err(status(416, url)),
            "tmo" => Err(StreamingError::Timeout { timeout_ms: 1, url: url.to_string() }),
            x => panic!("driver: outcome {x}"),
        }
    }
    async fn get_content_length(&self, url: &str) -> Result<u64, StreamingError> {
        let sv = &self.0;
        let o = sv.script.lock().expect("script").pop_front().unwrap_or_else(|| "ok".to_string());
        sv.log.lock().expect("log").push(json!({"op": "call", "i": 0, "url": url, "range": [], "o": format!("head-{o}")}));
        match (o.as_str(), sv.resource(url)) {
            ("ok", Some(r)) => Ok(r.len() as u64),
            ("ok", None) => Err(status(404, url)),
            _ => Err(status(503, url)),
        }
    }
    async fn supports_ranges(&self, url: &str) -> Result<bool, StreamingError> {
        let sv = &self.0;
        let o = sv.script.lock().expect("script").pop_front().unwrap_or_else(|| "ok".to_string());
        sv.log.lock().expect("log").push(json!({"op": "call", "i": 0, "url": url, "range": [], "o": format!("head-{o}")}));
        match o.as_str() {
            "ok" => Ok(true),
            "no" => Ok(false),
            _ => Err(status(503, url)),
        }
    }
}

fn err_kind(e: &StreamingError) -> Value {
    let (k, code) = match e {
        StreamingError::NetworkRequest { .. } => ("NetworkRequest", 0),
        StreamingError::HttpStatus { status_code, .. } => ("HttpStatus", u64::from(*status_code)),
        StreamingError::InvalidRange { .. } => ("InvalidRange", 0),
        StreamingError::Timeout { .. } => ("Timeout", 0),
        StreamingError::ArchiveFormat { .. } => ("ArchiveFormat", 0),
        StreamingError::Configuration { .. } => ("Configuration", 0),
        StreamingError::InvalidHashFormat { .. } => ("InvalidHashFormat", 0),
        StreamingError::ContentVerificationFailed { .. } => ("ContentVerificationFailed", 0),
        StreamingError::BlteError { .. } => ("BlteError", 0),
        StreamingError::BufferOverflow { .. } => ("BufferOverflow", 0),
        StreamingError::RangeNotSupported { .. } => ("RangeNotSupported", 0),
        _ => ("Other", 0),
    };
    let d: String = e.to_string().chars().take(120).collect();
    json!({"kind": "Err", "err": k, "code": code, "detail": d})
}
fn arc_url(cfg: &Value, a: &Arch) -> String {
    // the URL the reader family hands to the reader (the reader does not build URLs)
    let h = &a.hl["n"];
    format!("http://{}/{}/data/{}/{}/{}", s(cfg, "host"), s(cfg, "path"), &h[0..2], &h[2..4], h)
}
fn ex_res(_w: &World, r: &ArchiveExtractionResult) -> Value {
    json!({"body": ints(&r.content), "size": r.size, "off": r.archive_offset.min(1 << 30), "wc": r.was_compressed})
}
fn ex_map(w: &World, m: &HashMap<Vec<u8>, ArchiveExtractionResult>) -> Value {
    let mut v: Vec<(i64, Value)> = m
        .iter()
        .map(|(k, r)| {
            let id = w.key_id(k);
            let mut o = ex_res(w, r);
            o["k"] = json!(id);
            (id, o)
        })
        .collect();
    v.sort_by_key(|x| x.0);
    json!({"kind": "Ok", "map": v.into_iter().map(|x| x.1).collect::<Vec<_>>()})
}
fn cr_res(r: &ContentResolutionResult) -> Value {
    json!({"body": ints(&r.content), "size": r.size, "off": r.archive_offset.min(1 << 30), "wc": r.was_decompressed, "url": r.archive_url})
}
fn cr_map(w: &World, m: &HashMap<Vec<u8>, ContentResolutionResult>) -> Value {
    let mut v: Vec<(i64, Value)> = m
        .iter()
        .map(|(k, r)| {
            let id = w.key_id(k);
            let mut o = cr_res(r);
            o["k"] = json!(id);
            (id, o)
        })
        .collect();
    v.sort_by_key(|x| x.0);
    json!({"kind": "Ok", "map": v.into_iter().map(|x| x.1).collect::<Vec<_>>()})
}
fn ex_reqs(w: &World, reqs: &Value) -> Vec<ArchiveExtractionRequest> {
    reqs.as_array()
        .expect("reqs")
        .iter()
        .map(|r| ArchiveExtractionRequest {
            encoding_key: w.real[&u(r, "k")].clone(),
            expected_size: r["exp"].as_i64().filter(|x| *x >= 0).map(|x| x as u32),
            is_blte: b(r, "blte"),
        })
        .collect()
}
fn cr_reqs(w: &World, reqs: &Value) -> Vec<ContentResolutionRequest> {
    reqs.as_array()
        .expect("reqs")
        .iter()
        .map(|r| ContentResolutionRequest {
            encoding_key: w.real[&u(r, "k")].clone(),
            expected_size: r["exp"].as_i64().filter(|x| *x >= 0).map(|x| x as u32),
            decompress: b(r, "blte"),
        })
        .collect()
}
fn paused_rt() -> tokio::runtime::Runtime {
    tokio::runtime::Builder::new_current_thread().enable_time().start_paused(true).build().expect("paused runtime")
}
fn new_event(fam: &str, cfg: &Value, w: &World) -> Value {
    json!({"op": "new", "fam": fam, "cfg": cfg,
           "arcs": w.arcs.iter().map(|a| ints(&a.bytes)).collect::<Vec<_>>(),
           "nidx": w.arcs.iter().map(|a| a.index.entries.len()).collect::<Vec<_>>()})
}
fn archive_cfg(cfg: &Value) -> StreamingArchiveConfig {
    StreamingArchiveConfig { verify_checksums: cfg["vc"].as_bool().unwrap_or(true), ..StreamingArchiveConfig::default() }
}
fn emit_op(em: &Emit, sv: &Server, op: &Value, seq: u64, res: Value, obs: Value) {
    for c in sv.take_log() {
        em.ev(c);
    }
    let mut ev = op.as_object().expect("op").clone();
    ev.insert("seq".into(), json!(seq));
    ev.insert("res".into(), res);
    ev.insert("obs".into(), obs);
    em.ev(Value::Object(ev));
}

// ------------------------------------------------------------------------------------------------
// rd: StreamingArchiveReader      bt: BatchArchiveExtractor / BatchContentResolver
// ------------------------------------------------------------------------------------------------
fn run_rd(p: &Value, em: &Emit) {
    let cfg = &p["cfg"];
    let w = Arc::new(world_of(cfg));
    em.ev(new_event(s(p, "fam"), cfg, &w));
    let rt = paused_rt();
    let sv = Arc::new(Server { world: w.clone(), script: Mutex::new(VecDeque::new()), log: Mutex::new(Vec::new()), n: AtomicU64::new(0) });
    let reader = StreamingArchiveReader::new(Cl(sv.clone()), archive_cfg(cfg), StreamingConfig::default());
    let ks_store = TactKeyStore::empty();
    let mut seq = 0u64;
    for op in p["ops"].as_array().expect("ops") {
        em.begin(op);
        seq += 1;
        sv.arm(&op["outs"]);
        let ks = if op["ks"].as_bool().unwrap_or(false) { Some(&ks_store) } else { None };
        let mut extra = Map::new();
        let r = guarded(|| {
            rt.block_on(async {
                match s(op, "op") {
                    "xr" => {
                        let a = w.arc(u(op, "a"));
                        let off = if b(op, "top") { u64::MAX - u(op, "off") } else { u(op, "off") };
                        match reader.extract_range(&arc_url(cfg, a), off, u(op, "size") as u32, ks).await {
                            Ok(c) => json!({"kind": "Ok", "body": ints(&c)}),
                            Err(e) => err_kind(&e),
                        }
                    }
                    "xk" => {
                        let a = w.arc(u(op, "a"));
                        match reader.extract_by_key(&arc_url(cfg, a), &w.real[&u(op, "k")], &a.index, ks).await {
                            Ok(r) => {
                                let mut o = ex_res(&w, &r);
                                o["kind"] = json!("Ok");
                                o
                            }
                            Err(e) => err_kind(&e),
                        }
                    }
                    "xm" => {
                        let a = w.arc(u(op, "a"));
                        match reader.extract_multiple(&arc_url(cfg, a), ex_reqs(&w, &op["reqs"]), &a.index, ks).await {
                            Ok(m) => ex_map(&w, &m),
                            Err(e) => err_kind(&e),
                        }
                    }
                    "xa" => {
                        let a = w.arc(u(op, "a"));
                        match reader.extract_all_indexed(&arc_url(cfg, a), &a.index, ks).await {
                            Ok(m) => ex_map(&w, &m),
                            Err(e) => err_kind(&e),
                        }
                    }
                    "sz" => match reader.get_archive_size(&arc_url(cfg, w.arc(u(op, "a")))).await {
                        Ok(n) => json!({"kind": "Ok", "n": n}),
                        Err(e) => err_kind(&e),
                    },
                    "sr" => match reader.supports_range_requests(&arc_url(cfg, w.arc(u(op, "a")))).await {
                        Ok(x) => json!({"kind": "Ok", "b": x}),
                        Err(e) => err_kind(&e),
                    },
                    "bx" => {
                        let jobs = op["jobs"].as_array().expect("jobs");
                        let clients: Vec<Cl> = (0..u(op, "readers")).map(|_| Cl(sv.clone())).collect();
                        let bx = BatchArchiveExtractor::new(clients, archive_cfg(cfg));
                        let urls: Vec<String> = jobs.iter().map(|j| arc_url(cfg, w.arc(u(j, "a")))).collect();
                        let reqs: Vec<(&str, Vec<ArchiveExtractionRequest>, &ArchiveIndex)> = jobs
                            .iter()
                            .enumerate()
                            .map(|(i, j)| (urls[i].as_str(), ex_reqs(&w, &j["reqs"]), &w.arc(u(j, "a")).index))
                            .collect();
                        match bx.extract_from_archives(reqs, ks).await {
                            Ok(m) => ex_map(&w, &m),
                            Err(e) => err_kind(&e),
                        }
                    }
                    other => panic!("driver: rd op {other}"),
                }
            })
        });
        if matches!(s(op, "op"), "xr" | "xk" | "xm" | "xa" | "sz" | "sr") {
            extra.insert("url".into(), json!(arc_url(cfg, w.arc(u(op, "a")))));
        }
        if s(op, "op") == "bx" {
            extra.insert("urls".into(), json!(op["jobs"].as_array().expect("jobs").iter().map(|j| arc_url(cfg, w.arc(u(j, "a")))).collect::<Vec<_>>()));
        }
        emit_op(em, &sv, op, seq, r.unwrap_or_else(panic_res), Value::Object(extra));
    }
}

// ------------------------------------------------------------------------------------------------
// rs: StreamingCdnResolver        cf: CdnResolutionConfig / constructors
// ------------------------------------------------------------------------------------------------
fn res_cfg(cfg: &Value) -> CdnResolutionConfig {
    CdnResolutionConfig {
        product: s(cfg, "product").to_string(),
        cdn_path: s(cfg, "path").to_string(),
        cdn_host: s(cfg, "host").to_string(),
        archive_config: archive_cfg(cfg),
        streaming_config: StreamingConfig::default(),
        prefer_https: b(cfg, "https"),
    }
}
fn hash_of(w: &World, x: &Value) -> String {
    let a = w.arc(u(x, "a"));
    match s(x, "hv") {
        "short" => a.h["n"][..31].to_string(),
        "nonhex" => format!("{}g", &a.h["n"][..31]),
        hv => a.h[hv].clone(),
    }
}
fn run_rs(p: &Value, em: &Emit) {
    let cfg = &p["cfg"];
    let w = Arc::new(world_of(cfg));
    em.ev(new_event("rs", cfg, &w));
    let rt = paused_rt();
    let sv = Arc::new(Server { world: w.clone(), script: Mutex::new(VecDeque::new()), log: Mutex::new(Vec::new()), n: AtomicU64::new(0) });
    let mut rs = StreamingCdnResolver::new(Cl(sv.clone()), res_cfg(cfg));
    let ks_store = TactKeyStore::empty();
    let mut seq = 0u64;
    for op in p["ops"].as_array().expect("ops") {
        em.begin(op);
        seq += 1;
        sv.arm(&op["outs"]);
        let ks = if op["ks"].as_bool().unwrap_or(false) { Some(&ks_store) } else { None };
        let r = guarded(|| {
            rt.block_on(async {
                match s(op, "op") {
                    "rfa" => match rs.resolve_from_archive(&hash_of(&w, op), &w.real[&u(op, "k")], ks).await {
                        Ok(r) => {
                            let mut o = cr_res(&r);
                            o["kind"] = json!("Ok");
                            o
                        }
                        Err(e) => err_kind(&e),
                    },
                    "rc" => match rs.resolve_content(&w.real[&u(op, "k")], ks).await {
                        Ok(r) => {
                            let mut o = cr_res(&r);
                            o["kind"] = json!("Ok");
                            o
                        }
                        Err(e) => err_kind(&e),
                    },
                    "rm" => match rs.resolve_multiple(cr_reqs(&w, &op["reqs"]), ks).await {
                        Ok(m) => cr_map(&w, &m),
                        Err(e) => err_kind(&e),
                    },
                    "pl" => {
                        let hs: Vec<String> = op["as"].as_array().expect("as").iter().map(|x| hash_of(&w, x)).collect();
                        let tok = match s(op, "tok") {
                            "none" => None,
                            "live" => Some(CancellationToken::new()),
                            "cancelled" => {
                                let t = CancellationToken::new();
                                t.cancel();
                                Some(t)
                            }
                            x => panic!("driver: tok {x}"),
                        };
                        let r = if s(op, "tok") == "none" && op["simple"].as_bool().unwrap_or(false) {
                            rs.preload_indices_simple(hs).await
                        } else {
                            rs.preload_indices(hs, tok).await
                        };
                        match r {
                            Ok(n) => json!({"kind": "Ok", "n": n}),
                            Err(e) => err_kind(&e),
                        }
                    }
                    "cc" => {
                        rs.clear_caches();
                        json!({"kind": "Ok"})
                    }
                    "sd" => {
                        rs.prepare_for_shutdown();
                        json!({"kind": "Ok"})
                    }
                    "uh" => match rs.update_cdn_host(s(op, "host").to_string()) {
                        Ok(()) => json!({"kind": "Ok"}),
                        Err(e) => err_kind(&e),
                    },
                    "uc" => {
                        let mut c = res_cfg(cfg);
                        c.product = s(op, "product").to_string();
                        c.cdn_path = s(op, "path").to_string();
                        c.cdn_host = s(op, "host").to_string();
                        c.prefer_https = b(op, "https");
                        rs.update_config(c);
                        json!({"kind": "Ok"})
                    }
                    other => panic!("driver: rs op {other}"),
                }
            })
        });
        let obs = guarded(|| {
            let c = rs.config();
            json!({"n": rs.cache_stats().cached_indices_count, "host": c.cdn_host, "path": c.cdn_path, "product": c.product, "https": c.prefer_https})
        })
        .unwrap_or_else(|m| json!({"panic": m}));
        let mut op2 = op.clone();
        if matches!(s(op, "op"), "rfa") {
            op2["hash"] = json!(hash_of(&w, op));
        }
        emit_op(em, &sv, &op2, seq, r.unwrap_or_else(panic_res), obs);
    }
}
fn run_bt(p: &Value, em: &Emit) {
    // BatchContentResolver: n resolvers over one scripted server
    let cfg = &p["cfg"];
    let w = Arc::new(world_of(cfg));
    em.ev(new_event("bt", cfg, &w));
    let rt = paused_rt();
    let sv = Arc::new(Server { world: w.clone(), script: Mutex::new(VecDeque::new()), log: Mutex::new(Vec::new()), n: AtomicU64::new(0) });
    let mut seq = 0u64;
    for op in p["ops"].as_array().expect("ops") {
        em.begin(op);
        seq += 1;
        sv.arm(&op["outs"]);
        let r = guarded(|| {
            rt.block_on(async {
                match s(op, "op") {
                    "br" => {
                        let clients: Vec<Cl> = (0..u(op, "n")).map(|_| Cl(sv.clone())).collect();
                        let mut br = BatchContentResolver::new(clients, res_cfg(cfg));
                        let cnt = br.resolver_count();
                        let r = br.resolve_batch(cr_reqs(&w, &op["reqs"]), None).await;
                        br.clear_all_caches();
                        br.prepare_for_shutdown();
                        match r {
                            Ok(m) => {
                                let mut o = cr_map(&w, &m);
                                o["count"] = json!(cnt);
                                o
                            }
                            Err(e) => err_kind(&e),
                        }
                    }
                    other => panic!("driver: bt op {other}"),
                }
            })
        });
        emit_op(em, &sv, op, seq, r.unwrap_or_else(panic_res), json!({}));
    }
}
fn run_cf(p: &Value, em: &Emit) {
    em.ev(json!({"op": "new", "fam": "cf", "cfg": p["cfg"]}));
    let rt = paused_rt();
    let mut seq = 0u64;
    for op in p["ops"].as_array().expect("ops") {
        em.begin(op);
        seq += 1;
        let r = guarded(|| match s(op, "op") {
            "cfg_new" => match CdnResolutionConfig::new(s(op, "product").to_string(), s(op, "path").to_string(), s(op, "host").to_string(), b(op, "https")) {
                Ok(c) => json!({"kind": "Ok", "valid": c.validate().is_ok()}),
                Err(e) => err_kind(&e),
            },
            "whost" => {
                let w = Arc::new(World { keys: BTreeMap::new(), arcs: Vec::new(), real: BTreeMap::new() });
                let sv = Arc::new(Server { world: w, script: Mutex::new(VecDeque::new()), log: Mutex::new(Vec::new()), n: AtomicU64::new(0) });
                let _g = rt.enter();
                match StreamingCdnResolver::with_cdn_host(Cl(sv), s(op, "host").to_string()) {
                    Ok(r) => json!({"kind": "Ok", "host": r.config().cdn_host}),
                    Err(e) => err_kind(&e),
                }
            }
            other => panic!("driver: cf op {other}"),
        });
        let mut ev = op.as_object().expect("op").clone();
        ev.insert("seq".into(), json!(seq));
        ev.insert("res".into(), r.unwrap_or_else(panic_res));
        ev.insert("obs".into(), json!({}));
        em.ev(Value::Object(ev));
    }
}

// ------------------------------------------------------------------------------------------------
// cm: cascette_cache::cdn::CdnClient - the books of the cache-side client (its HTTP layer is the crate's own private mock)
// ------------------------------------------------------------------------------------------------
fn run_cm(p: &Value, em: &Emit) {
    use cascette_cache::cdn::{CdnClient as CacheCdnClient, CdnConfig as CacheCdnConfig};
    use cascette_crypto::{ContentKey, EncodingKey};
    let cfg = &p["cfg"];
    em.ev(json!({"op": "new", "fam": "cm", "cfg": cfg}));
    let rt = paused_rt();
    let mut cc = CacheCdnConfig::default();
    cc.cdn_urls = (0..u(cfg, "urls")).map(|i| format!("https://u{i}.example.com")).collect();
    let client = CacheCdnClient::new(cc);
    let mut seq = 0u64;
    for op in p["ops"].as_array().expect("ops") {
        em.begin(op);
        seq += 1;
        let r = guarded(|| {
            let r = rt.block_on(async {
                match s(op, "op") {
                    "fc" => client.fetch_content(ContentKey::from_data(s(op, "key").as_bytes())).await,
                    "fe" => client.fetch_encoding(EncodingKey::from_data(s(op, "key").as_bytes())).await,
                    "fg" => client.fetch_config(s(op, "hash")).await,
                    "fr" => client.fetch_archive_range(s(op, "name"), u(op, "off"), u(op, "len") as u32).await,
                    other => panic!("driver: cm op {other}"),
                }
            });
            match r {
                Ok(bts) => json!({"kind": "Ok", "len": bts.len()}),
                Err(e) => json!({"kind": "Err", "err": format!("{e}").chars().take(80).collect::<String>()}),
            }
        });
        let obs = guarded(|| match client.metrics() {
            Ok(m) => json!({"t": m.total_requests.min(1 << 30), "s": m.successful_requests.min(1 << 30), "f": m.failed_requests.min(1 << 30),
                            "b": m.bytes_downloaded.min(1 << 30), "r": m.total_retries.min(1 << 30)}),
            Err(e) => json!({"err": format!("{e}")}),
        })
        .unwrap_or_else(|m| json!({"panic": m}));
        let mut ev = op.as_object().expect("op").clone();
        ev.insert("seq".into(), json!(seq));
        ev.insert("res".into(), r.unwrap_or_else(panic_res));
        ev.insert("obs".into(), obs);
        em.ev(Value::Object(ev));
    }
}

fn run_program(p: &Value, em: &Emit) {
    match s(p, "fam") {
        "rd" => run_rd(p, em),
        "rs" => run_rs(p, em),
        "bt" => run_bt(p, em),
        "cf" => run_cf(p, em),
        "cm" => run_cm(p, em),
        other => panic!("driver: family {other}"),
    }
}

// ------------------------------------------------------------------------------------------------
// seeded random programs: random worlds (placements, sizes, gaps), longer resolver histories
// ------------------------------------------------------------------------------------------------
const HEX: &[u8] = b"0123456789abcdef";
fn rand_hash(r: &mut Rng) -> String {
    (0..32).map(|_| HEX[r.below(16) as usize] as char).collect()
}
fn rand_world(r: &mut Rng) -> Value {
    let nk = 3 + r.below(4);
    let mut keys = Vec::new();
    for k in 1..=nk {
        let enc = if r.chance(1, 5) { "raw" } else { "blte" };
        keys.push(json!({"k": k, "enc": enc, "plen": 2 + r.below(6)}));
    }
    if r.chance(1, 4) {
        keys.push(json!({"k": nk + 1, "enc": "zero", "plen": 0}));
    }
    keys.push(json!({"k": 15, "enc": "blte", "plen": 3})); // in no index
    let blen = |k: u64| -> u64 {
        let d = keys.iter().find(|x| x["k"] == json!(k)).expect("key");
        match d["enc"].as_str().expect("enc") {
            "blte" => 9 + d["plen"].as_u64().expect("plen"),
            "raw" => d["plen"].as_u64().expect("plen"),
            _ => 0,
        }
    };
    let na = 1 + r.below(3);
    let mut arcs = Vec::new();
    for _ in 0..na {
        let mut pos = r.below(4);
        let mut ents = Vec::new();
        let mut used = Vec::new();
        for kd in &keys {
            let k = kd["k"].as_u64().expect("k");
            if k == 15 || !r.chance(2, 3) || used.contains(&k) {
                continue;
            }
            used.push(k);
            let sz = blen(k);
            ents.push(json!({"k": k, "off": pos, "size": sz, "src": k}));
            pos += sz + r.below(3);
        }
        let mut len = pos + r.below(3);
        if r.chance(1, 6) && !ents.is_empty() {
            // the last entry claims two bytes more than the archive holds
            let last = ents.len() - 1;
            let e = &mut ents[last];
            let end = e["off"].as_u64().expect("off") + e["size"].as_u64().expect("size");
            if e["size"].as_u64().expect("size") > 0 {
                e["size"] = json!(e["size"].as_u64().expect("size") + 2);
                len = end;
            }
        }
        let mut n = rand_hash(r);
        while n.ends_with("10") || n.contains("172") || n.chars().all(|c| c.is_ascii_digit()) {
            n = rand_hash(r);
        }
        let t = format!("{}10", &n[..30]);
        arcs.push(json!({"len": len.max(1), "ents": ents, "h": {"n": n, "t": t, "u": n.to_uppercase()},
                          "hl": {"n": n, "t": t, "u": n}, "d1": &n[0..2], "d2": &n[2..4]}));
    }
    let (host, hc) = *r.pick(&[("cdn.example.com", "pub"), ("us.cdn.blizzard.com", "pub"), ("level3.blizzard.com", "pub"), ("cdn.example.com", "pub"),
                               ("cdn10.example.com", "pub10"), ("10.1.2.3", "priv")]);
    let (path, pathn) = *r.pick(&[("tpr/wow", "tpr/wow"), ("tpr/wow/", "tpr/wow"), ("tpr/x-y_z", "tpr/x-y_z")]);
    json!({"keys": keys, "arcs": arcs, "vc": true, "host": host, "hc": hc, "path": path, "pathn": pathn, "product": "wow", "https": r.chance(1, 2)})
}
fn rand_outs(r: &mut Rng, n: u64, index_first: bool) -> Value {
    let mut v = Vec::new();
    for i in 0..n {
        let o = if r.chance(2, 3) {
            "ok"
        } else if index_first && i == 0 {
            *r.pick(&["junk", "short", "e503", "e404", "tmo", "long"])
        } else {
            *r.pick(&["short", "long", "flip", "e503", "e404", "tmo"])
        };
        v.push(json!(o));
    }
    json!(v)
}
fn rand_reqs(r: &mut Rng, cfg: &Value) -> Value {
    let keys = cfg["keys"].as_array().expect("keys");
    let n = r.below(4);
    let mut v = Vec::new();
    for _ in 0..n {
        let k = r.pick(keys)["k"].as_u64().expect("k");
        let exp: i64 = if r.chance(1, 6) { 999 } else { -1 };
        v.push(json!({"k": k, "blte": r.chance(3, 4), "exp": exp}));
    }
    json!(v)
}
fn rand_program(r: &mut Rng) -> Value {
    let cfg = rand_world(r);
    let na = cfg["arcs"].as_array().expect("arcs").len() as u64;
    let keys: Vec<u64> = cfg["keys"].as_array().expect("keys").iter().map(|k| k["k"].as_u64().expect("k")).collect();
    if r.chance(1, 12) {
        let mut ops = Vec::new();
        for _ in 0..1 + r.below(8) {
            ops.push(match r.below(4) {
                0 => json!({"op": "fc", "key": *r.pick(&["k1", "k2"])}),
                1 => json!({"op": "fe", "key": *r.pick(&["k1", "k2"])}),
                2 => {
                    let (h, hcl) = *r.pick(&[("abcd1234", "ok"), ("abc", "short"), ("", "short"), ("\u{e9}1ab", "ok"), ("a\u{e9}1b", "short")]);
                    json!({"op": "fg", "hash": h, "hcl": hcl})
                }
                _ => json!({"op": "fr", "name": "ab/cd/abcd.data", "off": r.below(100), "len": r.below(40)}),
            });
        }
        return json!({"fam": "cm", "cfg": {"urls": r.below(3)}, "ops": ops});
    }
    let fam = *r.pick(&["rd", "rd", "rs", "rs", "rs", "bt"]);
    let mut ops = Vec::new();
    match fam {
        "rd" => {
            for _ in 0..1 + r.below(4) {
                let a = 1 + r.below(na);
                let ks = r.chance(1, 2);
                let op = match r.below(6) {
                    0 => {
                        let len = cfg["arcs"][a as usize - 1]["len"].as_u64().expect("len");
                        json!({"op": "xr", "a": a, "off": r.below(len + 2), "size": r.below(len + 3), "top": r.chance(1, 10), "ks": ks, "outs": rand_outs(r, 1, false)})
                    }
                    1 | 2 => json!({"op": "xk", "a": a, "k": *r.pick(&keys), "ks": ks, "outs": rand_outs(r, 1, false)}),
                    3 | 4 => json!({"op": "xm", "a": a, "reqs": rand_reqs(r, &cfg), "ks": ks, "outs": rand_outs(r, 3, false)}),
                    _ => json!({"op": "xa", "a": a, "ks": ks, "outs": rand_outs(r, 4, false)}),
                };
                ops.push(op);
            }
        }
        "rs" => {
            for _ in 0..2 + r.below(7) {
                let a = 1 + r.below(na);
                let hv = *r.pick(&["n", "n", "n", "n", "u", "t", "short", "nonhex"]);
                let op = match r.below(12) {
                    0..=3 => json!({"op": "rfa", "a": a, "hv": hv, "k": *r.pick(&keys), "ks": r.chance(1, 2), "outs": rand_outs(r, 2, true)}),
                    4 | 5 => json!({"op": "rc", "k": *r.pick(&keys), "ks": r.chance(1, 2), "outs": rand_outs(r, 1, false)}),
                    6 => json!({"op": "rm", "reqs": rand_reqs(r, &cfg), "ks": false, "outs": rand_outs(r, 3, false)}),
                    7 | 8 => {
                        // one spelling per archive and list: the GETs for "n" and "u" of one archive cannot be told apart
                        let n = r.below(4);
                        let hvs: Vec<&str> = (0..na).map(|_| *r.pick(&["n", "n", "n", "u", "t", "short"])).collect();
                        let list: Vec<Value> = (0..n)
                            .map(|_| {
                                let a = 1 + r.below(na);
                                json!({"a": a, "hv": hvs[a as usize - 1]})
                            })
                            .collect();
                        json!({"op": "pl", "as": list, "tok": *r.pick(&["none", "none", "live", "cancelled"]), "simple": r.chance(1, 3), "outs": rand_outs(r, n, true)})
                    }
                    9 => json!({"op": *r.pick(&["cc", "sd"])}),
                    10 => {
                        let (h, hc) = *r.pick(&[("cdn.example.com", "pub"), ("other.example.net", "pub"), ("localhost", "local"), ("127.0.0.2", "local"),
                                                ("bad host", "bad"), ("", "bad"), ("cdn10.example.com", "pub10")]);
                        json!({"op": "uh", "host": h, "hc": hc})
                    }
                    _ => {
                        let (h, hc) = *r.pick(&[("cdn.example.com", "pub"), ("other.example.net", "pub"), ("cdn10.example.com", "pub10")]);
                        let (path, pathn) = *r.pick(&[("tpr/wow", "tpr/wow"), ("tpr/other/", "tpr/other")]);
                        json!({"op": "uc", "product": *r.pick(&["wow", "wow_classic"]), "path": path, "pathn": pathn, "host": h, "hc": hc, "https": r.chance(1, 2)})
                    }
                };
                ops.push(op);
            }
        }
        _ => {
            for _ in 0..1 + r.below(2) {
                ops.push(json!({"op": "br", "n": r.below(4), "reqs": rand_reqs(r, &cfg), "outs": rand_outs(r, 2, false)}));
            }
        }
    }
    json!({"fam": fam, "cfg": cfg, "ops": ops})
}

fn main() {
    quiet_panics();
    let args: Vec<String> = std::env::args().collect();
    let mut out = Out::from_arg(arg(&args, "--out").as_ref());
    let patience = Duration::from_secs(arg_u64(&args, "--patience", 60));
    let programs: Vec<Value> = if let Some(n) = arg(&args, "--random") {
        let n: u64 = n.parse().expect("--random N");
        let mut r = Rng::new(seed_from_env());
        let ps: Vec<Value> = (0..n).map(|_| rand_program(&mut r)).collect();
        if let Some(d) = arg(&args, "--dump-programs") {
            let mut f = std::io::BufWriter::new(std::fs::File::create(d).expect("dump"));
            for p in &ps {
                use std::io::Write;
                writeln!(f, "{p}").expect("dump");
            }
        }
        ps
    } else {
        read_programs(&arg(&args, "--programs").expect("--programs <file> or --random N"))
    };
    let st = run_with_watchdog(programs, &mut out, patience, run_program);
    out.flush();
    eprintln!("{}", json!({"programs": st.programs, "events": out.events, "hangs": st.hangs, "skipped": st.skipped}));
    if st.skipped > 0 {
        std::process::exit(3);
    }
}
