//! C19 driver: executes builder programs on the real install / download / size manifest builders.
//!
//! usage: drv_manifest [--programs <file|->] [--sweep MAXN [--lite]] [--random N] --out <file|-> [--dump-programs <file>]
//!
//! Program: {"kind":"install"|"download"|"size","ver":v,"cs":bool,"fl":n,"base":p,"esb":w,"eks":k,"ops":[..]}
//! Operations (file positions are 0-based, sizes are pairs [hi, lo] with value hi * 2^24 + lo):
//!   {"op":"add_file","sz":[hi,lo],"pr":p}      {"op":"add_files","files":[[hi,lo,p],..]}
//!   {"op":"add_tag","t":name,"ty":code}        {"op":"remove_tag","t":name}
//!   {"op":"assoc","i":i,"t":name}              {"op":"assoc_set","t":name,"files":[i,..]}
//!   {"op":"dissoc","i":i,"t":name}             {"op":"remove_file","i":i}
//!   {"op":"reopen"}        build -> serialise -> parse -> builder from the parsed manifest
//!   {"op":"build","q":[[names]..],"pq":[[lo,hi]..],"plat":[[p,a]..]}
//!                          build -> serialise -> parse, then every query; nothing is decided here
//!
//! The file with id k (the k-th file ever added in the program) gets the key [k >> 8, k & 255, 0xEE, ..]
//! and, in install manifests, the path "f<k>".  The driver only executes and records; the verdict is
//! computed by spec/trace/T_Manifest.tla.
use cascette_crypto::{ContentKey, EncodingKey};
use cascette_formats::download::{DownloadManifest, DownloadManifestBuilder, PriorityCategory};
use cascette_formats::install::{InstallManifest, InstallManifestBuilder, TagType};
use cascette_formats::size::{SizeManifest, SizeManifestBuilder};
use serde_json::{Value, json};
use verif_harness::*;

#[derive(Clone, Debug)]
struct Cfg {
    kind: String,
    ver: u8,
    cs: bool,
    fl: u8,
    base: i8,
    esb: u8,
    eks: u8,
}

#[derive(Clone)]
enum SizeOp {
    Entry(Vec<u8>, u64),
    Tag(String, u16),
    TagFile(usize, usize),
}

enum St {
    Install(InstallManifestBuilder),
    Download(DownloadManifestBuilder),
    /// the size builder consumes itself and cannot be cloned: it is re-created from the call log
    Size(Vec<SizeOp>),
}

fn key16(id: u64) -> [u8; 16] {
    let mut k = [0xEEu8; 16];
    k[0] = (id >> 8) as u8;
    k[1] = id as u8;
    k
}
fn id_of(key: &[u8]) -> u64 {
    (u64::from(key[0]) << 8) | u64::from(key[1])
}
fn szval(v: &Value) -> u64 {
    (v[0].as_u64().expect("size hi") << 24) | v[1].as_u64().expect("size lo")
}
fn pair(x: u64) -> Value {
    json!([x >> 24, x & 0xFF_FFFF])
}
fn tag_type(code: u64) -> TagType {
    TagType::from_u16(code as u16).unwrap_or_else(|| panic!("driver: {code} is not a tag type code"))
}
fn names_of(v: &Value) -> Vec<String> {
    v.as_array().map(|a| a.iter().map(|x| x.as_str().unwrap_or("").to_string()).collect()).unwrap_or_default()
}

fn size_builder(cfg: &Cfg, log: &[SizeOp]) -> SizeManifestBuilder {
    let mut b = SizeManifestBuilder::new().version(cfg.ver).ekey_size(cfg.eks).esize_bytes(cfg.esb);
    for op in log {
        b = match op {
            SizeOp::Entry(k, s) => b.add_entry(k.clone(), *s),
            SizeOp::Tag(n, ty) => b.add_tag(n.clone(), tag_type(u64::from(*ty))),
            SizeOp::TagFile(t, f) => b.tag_file(*t, *f),
        };
    }
    b
}
fn size_tag_index(log: &[SizeOp], name: &str) -> Option<usize> {
    log.iter().filter_map(|o| if let SizeOp::Tag(n, _) = o { Some(n) } else { None }).position(|n| n == name)
}

fn new_state(cfg: &Cfg) -> St {
    match cfg.kind.as_str() {
        "install" => St::Install(InstallManifestBuilder::new()),
        "download" => St::Download(
            DownloadManifestBuilder::new(cfg.ver)
                .and_then(|b| b.with_checksums(cfg.cs).with_flags(cfg.fl))
                .and_then(|b| b.with_base_priority(cfg.base))
                .unwrap_or_else(|e| panic!("driver: bad download configuration {cfg:?}: {e}")),
        ),
        "size" => St::Size(vec![]),
        k => panic!("driver: unknown kind {k}"),
    }
}

/// one add_file on a download builder, with the per-entry fields the header options require
fn dl_add(b: DownloadManifestBuilder, cfg: &Cfg, id: u64, size: u64, pr: i8) -> Option<DownloadManifestBuilder> {
    let idx = b.entry_count();
    let mut b = b.add_file(EncodingKey::from_bytes(key16(id)), size, pr).ok()?;
    if cfg.cs {
        b = b.set_file_checksum(idx, 0x0102_0304u32.wrapping_add(id as u32)).ok()?;
    }
    if cfg.fl > 0 {
        b = b.set_file_flags(idx, vec![0xAA; cfg.fl as usize]).ok()?;
    }
    Some(b)
}

/// Apply one mutating operation; returns the new state (None = refused, the old state stays).
fn apply(st: &St, cfg: &Cfg, op: &Value, next_id: &mut u64) -> Option<St> {
    let name = op["op"].as_str().unwrap();
    let t = op.get("t").and_then(|x| x.as_str()).unwrap_or("");
    let i = op.get("i").and_then(Value::as_u64).unwrap_or(0) as usize;
    let mut files: Vec<(u64, i8)> = vec![];
    match name {
        "add_file" => files.push((szval(&op["sz"]), op["pr"].as_i64().unwrap() as i8)),
        "add_files" => {
            for f in op["files"].as_array().unwrap() {
                files.push(((f[0].as_u64().unwrap() << 24) | f[1].as_u64().unwrap(), f[2].as_i64().unwrap() as i8));
            }
        }
        _ => {}
    }
    let idxs: Vec<usize> = op.get("files").and_then(|f| f.as_array()).filter(|_| name == "assoc_set")
        .map(|a| a.iter().map(|x| x.as_u64().unwrap() as usize).collect()).unwrap_or_default();
    match st {
        St::Install(b) => {
            let b = b.snapshot();
            let nb = match name {
                "add_file" | "add_files" => {
                    let mut b = b;
                    for (sz, _) in &files {
                        let sz32 = u32::try_from(*sz).unwrap_or_else(|_| panic!("driver: size {sz} does not fit an install entry"));
                        b = b.add_file(format!("f{}", *next_id), ContentKey::from_bytes(key16(*next_id)), sz32);
                        *next_id += 1;
                    }
                    Some(b)
                }
                "add_tag" => Some(b.add_tag(t.to_string(), tag_type(op["ty"].as_u64().unwrap()))),
                "assoc" => b.associate_file_with_tag(i, t).ok(),
                "assoc_set" => b.associate_files_with_tag(&idxs, t).ok(),
                "dissoc" => b.remove_file_from_tag(i, t).ok(),
                "remove_file" => b.remove_file(i).ok(),
                "remove_tag" => b.remove_tag(t).ok(),
                "reopen" => b.build().ok().and_then(|m| m.build().ok()).and_then(|d| InstallManifest::parse(&d).ok())
                    .map(|m| InstallManifestBuilder::from_manifest(&m)),
                other => panic!("driver: unknown op {other}"),
            };
            nb.map(St::Install)
        }
        St::Download(b) => {
            let mut b = b.clone();
            let nb = match name {
                "add_file" | "add_files" => {
                    let mut ob = Some(b);
                    for (sz, pr) in &files {
                        ob = ob.and_then(|b| dl_add(b, cfg, *next_id, *sz, *pr));
                        *next_id += 1;
                    }
                    ob
                }
                "add_tag" => Some(b.add_tag(t.to_string(), tag_type(op["ty"].as_u64().unwrap()))),
                "assoc" => b.associate_file_with_tag(i, t).ok(),
                "assoc_set" => {
                    let mut ob = Some(b);
                    for &x in &idxs {
                        ob = ob.and_then(|b| b.associate_file_with_tag(x, t).ok());
                    }
                    ob
                }
                "dissoc" => b.disassociate_file_from_tag(i, t).ok(),
                "remove_file" => b.remove_file(i).then_some(b),
                "remove_tag" => b.remove_tag(t).then_some(b),
                "reopen" => b.build().ok().and_then(|m| m.build().ok()).and_then(|d| DownloadManifest::parse(&d).ok())
                    .map(|m| DownloadManifestBuilder::from_manifest(&m)),
                other => panic!("driver: unknown op {other}"),
            };
            nb.map(St::Download)
        }
        St::Size(log) => {
            let mut log = log.clone();
            match name {
                "add_file" | "add_files" => {
                    for (sz, _) in &files {
                        log.push(SizeOp::Entry(key16(*next_id)[..cfg.eks as usize].to_vec(), *sz));
                        *next_id += 1;
                    }
                }
                "add_tag" => log.push(SizeOp::Tag(t.to_string(), op["ty"].as_u64().unwrap() as u16)),
                "assoc" => log.push(SizeOp::TagFile(size_tag_index(&log, t)?, i)),
                "assoc_set" => {
                    let ti = size_tag_index(&log, t)?;
                    for &x in &idxs {
                        log.push(SizeOp::TagFile(ti, x));
                    }
                }
                other => panic!("driver: the size builder has no operation {other}"),
            }
            // the calls themselves happen when the builder is re-created; do it once now so that a panic
            // of the call is attributed to this operation
            let _ = size_builder(cfg, &log);
            Some(St::Size(log))
        }
    }
}

fn idx<T>(v: Vec<(usize, T)>) -> Vec<usize> {
    v.into_iter().map(|(i, _)| i).collect()
}

/// build -> serialise -> parse -> project.  Returns (res, stage, obs).
fn observe(st: &St, cfg: &Cfg, op: &Value) -> (&'static str, &'static str, Option<Value>) {
    let qs: Vec<Vec<String>> = op.get("q").and_then(|q| q.as_array()).map(|a| a.iter().map(names_of).collect()).unwrap_or_default();
    match st {
        St::Install(b) => {
            let Ok(m) = b.snapshot().build() else { return ("refused", "build", None) };
            let Ok(bytes) = m.build() else { return ("refused", "serialize", None) };
            let Ok(p) = InstallManifest::parse(&bytes) else { return ("noparse", "parse", Some(json!({"bytes": bytes}))) };
            let n = p.entries.len();
            let files: Vec<Value> = p.entries.iter().map(|e| {
                let s = u64::from(e.file_size);
                json!([id_of(e.content_key.as_bytes()), s >> 24, s & 0xFF_FFFF, 0])
            }).collect();
            let tags: Vec<Value> = p.tags.iter().map(|t| json!({"name": t.name, "ty": t.tag_type as u16, "files": t.get_files(n),
                "count": t.file_count(), "q1": idx(p.get_files_for_tag(&t.name))})).collect();
            let q: Vec<Value> = qs.iter().map(|names| {
                let r: Vec<&str> = names.iter().map(String::as_str).collect();
                json!({"all": idx(p.get_files_for_tags(&r)), "any": idx(p.get_files_for_any_tag(&r)), "size": pair(p.calculate_install_size(&r))})
            }).collect();
            ("ok", "done", Some(json!({"bytes": bytes, "files": files, "tags": tags, "total": pair(p.total_install_size()), "q": q})))
        }
        St::Download(b) => {
            let mut btags: Vec<(String, Vec<usize>)> = b.tag_names().iter()
                .map(|n| ((*n).to_string(), b.get_files_for_tag(n).unwrap_or_default())).collect();
            btags.sort();
            let Ok(m) = b.clone().build() else { return ("refused", "build", None) };
            let Ok(bytes) = m.build() else { return ("refused", "serialize", None) };
            let Ok(p) = DownloadManifest::parse(&bytes) else { return ("noparse", "parse", Some(json!({"bytes": bytes}))) };
            let n = p.entries.len();
            let files: Vec<Value> = p.entries.iter().map(|e| {
                let s = e.file_size.as_u64();
                json!([id_of(e.encoding_key.as_bytes()), s >> 24, s & 0xFF_FFFF, e.priority])
            }).collect();
            let tags: Vec<Value> = p.tags.iter().map(|t| json!({"name": t.name, "ty": t.tag_type as u16, "files": t.get_files(n),
                "count": t.file_count(), "q1": idx(p.entries_by_tag(&t.name))})).collect();
            let q: Vec<Value> = qs.iter().map(|names| {
                let r: Vec<&str> = names.iter().map(String::as_str).collect();
                json!({"all": idx(p.entries_by_tags(&r)), "size": pair(p.calculate_size_for_tags(&r))})
            }).collect();
            let cats = [("Critical", PriorityCategory::Critical), ("Essential", PriorityCategory::Essential),
                        ("High", PriorityCategory::High), ("Normal", PriorityCategory::Normal), ("Low", PriorityCategory::Low)];
            let mut cat = serde_json::Map::new();
            let an = p.analyze_priorities();
            let mut ana = serde_json::Map::new();
            for (name, c) in cats {
                cat.insert(name.into(), json!(idx(p.entries_by_priority(c))));
                let (cnt, sz) = an.categories.get(&c).map_or((0, 0), |s| (s.file_count, s.total_size));
                ana.insert(name.into(), json!([cnt, sz >> 24, sz & 0xFF_FFFF]));
            }
            ana.insert("total".into(), pair(an.total_size));
            ana.insert("essential".into(), pair(an.essential_size));
            ana.insert("streamable".into(), pair(an.streamable_size));
            let pq: Vec<Value> = op.get("pq").and_then(|x| x.as_array()).map(|a| a.iter().map(|r| {
                json!(idx(p.entries_by_priority_range(r[0].as_i64().unwrap() as i8, r[1].as_i64().unwrap() as i8)))
            }).collect()).unwrap_or_default();
            let plat: Vec<Value> = op.get("plat").and_then(|x| x.as_array()).map(|a| a.iter().map(|r| {
                json!(idx(p.entries_for_platform(r[0].as_str().unwrap(), r[1].as_str().unwrap())))
            }).collect()).unwrap_or_default();
            ("ok", "done", Some(json!({"bytes": bytes, "files": files, "tags": tags, "total": pair(p.total_download_size()), "q": q,
                "cat": cat, "ana": ana, "pq": pq, "plat": plat, "essential": pair(p.essential_download_size()), "btags": btags})))
        }
        St::Size(log) => {
            let Ok(m) = size_builder(cfg, log).build() else { return ("refused", "build", None) };
            let Ok(bytes) = m.build() else { return ("refused", "serialize", None) };
            let Ok(p) = SizeManifest::parse(&bytes) else { return ("noparse", "parse", Some(json!({"bytes": bytes}))) };
            let n = p.entries.len();
            let files: Vec<Value> = p.entries.iter().map(|e| json!([id_of(&e.key), e.esize >> 24, e.esize & 0xFF_FFFF, 0])).collect();
            let tags: Vec<Value> = p.tags.iter().map(|t| json!({"name": t.name, "ty": t.tag_type as u16, "files": t.get_files(n),
                "count": t.file_count()})).collect();
            ("ok", "done", Some(json!({"bytes": bytes, "files": files, "tags": tags, "total": pair(p.header.total_size())})))
        }
    }
}

fn cfg_of(prog: &Value) -> Cfg {
    let kind = prog["kind"].as_str().expect("program kind").to_string();
    let dl = kind == "download";
    Cfg {
        ver: prog.get("ver").and_then(Value::as_u64).unwrap_or(1) as u8,
        cs: prog.get("cs").and_then(Value::as_bool).unwrap_or(false),
        fl: prog.get("fl").and_then(Value::as_u64).unwrap_or(0) as u8,
        base: prog.get("base").and_then(Value::as_i64).unwrap_or(0) as i8,
        esb: prog.get("esb").and_then(Value::as_u64).unwrap_or(if dl { 0 } else { 4 }) as u8,
        eks: prog.get("eks").and_then(Value::as_u64).unwrap_or(16) as u8,
        kind,
    }
}

fn run_program(prog: &Value, out: &Emit) {
    let cfg = cfg_of(prog);
    assert!(cfg.kind != "size" || cfg.eks >= 2, "driver: file ids need two key bytes");
    out.ev(json!({"op": "new", "kind": cfg.kind, "ver": cfg.ver, "cs": cfg.cs, "fl": cfg.fl, "base": cfg.base, "esb": cfg.esb, "eks": cfg.eks}));
    let mut st = new_state(&cfg);
    let mut next_id = 0u64;
    let mut seq = 0u64;
    for op in prog["ops"].as_array().unwrap() {
        let mut ev = op.clone();
        out.begin(op);
        seq += 1;
        ev["seq"] = json!(seq);
        if op["op"] == "build" {
            match guarded(|| observe(&st, &cfg, op)) {
                Ok((res, stage, obs)) => {
                    ev["res"] = json!(res);
                    ev["stage"] = json!(stage);
                    if let Some(o) = obs {
                        ev["obs"] = o;
                    }
                }
                Err(msg) => {
                    ev["res"] = json!("panic");
                    ev["msg"] = json!(msg.chars().take(240).collect::<String>());
                }
            }
        } else {
            let mut nid = next_id;
            match guarded(|| apply(&st, &cfg, op, &mut nid)) {
                Ok(Some(ns)) => {
                    st = ns;
                    ev["res"] = json!("ok");
                }
                Ok(None) => ev["res"] = json!("refused"),
                Err(msg) => {
                    assert!(!msg.starts_with("driver:"), "{msg}");
                    ev["res"] = json!("panic");
                    ev["msg"] = json!(msg.chars().take(240).collect::<String>());
                }
            }
            // ids are a function of the program text only: every add_file consumes one, whatever happened
            next_id = nid.max(next_id + added(op));
        }
        out.ev(ev);
    }
}
fn added(op: &Value) -> u64 {
    match op["op"].as_str().unwrap() {
        "add_file" => 1,
        "add_files" => op["files"].as_array().unwrap().len() as u64,
        _ => 0,
    }
}

// --------------------------------------------------------------------------- generators
const WIDE: [u64; 9] = [1, 0, 0xFFFF_FFFF, 0x1_0000_0000, 0xFF_FFFF_FFFF, 1000, 0x100_0000, 0x80_0000_0000, 0xFF_FFFF];
const PRIOS: [i64; 11] = [0, -1, 1, 2, 3, 5, 6, 127, -128, 4, -2];
const TYPES: [u64; 17] = [1, 2, 3, 4, 5, 0x10, 0x20, 0x40, 0x80, 0x100, 0x200, 0x400, 0x800, 0x1000, 0x2000, 0x4000, 0x8000];

fn kinds() -> Vec<Value> {
    vec![
        json!({"kind": "install", "ver": 1}),
        json!({"kind": "download", "ver": 1, "cs": true}),
        json!({"kind": "download", "ver": 2, "cs": false, "fl": 3}),
        json!({"kind": "download", "ver": 3, "cs": true, "fl": 1, "base": -3}),
        json!({"kind": "download", "ver": 3, "cs": false, "fl": 0, "base": 5}),
        json!({"kind": "size", "ver": 1, "esb": 5, "eks": 9}),
        json!({"kind": "size", "ver": 1, "esb": 8, "eks": 16}),
        json!({"kind": "size", "ver": 2, "eks": 2}),
    ]
}
/// largest size the container's size field holds
fn max_size(k: &Value) -> u64 {
    match (k["kind"].as_str().unwrap(), k["ver"].as_u64().unwrap()) {
        ("install", _) | ("size", 2) => 0xFFFF_FFFF,
        _ => 0xFF_FFFF_FFFF,
    }
}
fn fit(sz: u64, k: &Value) -> u64 {
    sz & max_size(k)
}
fn file_of(id: u64, k: &Value) -> Value {
    let s = fit(WIDE[(id % 9) as usize], k);
    json!([s >> 24, s & 0xFF_FFFF, PRIOS[(id % 11) as usize]])
}
fn with_ops(k: &Value, ops: Vec<Value>) -> Value {
    let mut p = k.clone();
    p["ops"] = json!(ops);
    p
}
fn subsets(names: &[&str]) -> Vec<Vec<String>> {
    (0..(1u32 << names.len())).map(|m| names.iter().enumerate().filter(|(i, _)| m >> i & 1 == 1).map(|(_, n)| (*n).to_string()).collect()).collect()
}
fn build_op(q: &[Vec<String>]) -> Value {
    json!({"op": "build", "q": q, "pq": [[-128, 127], [-128, -1], [0, 0], [1, 2], [3, 5], [6, 127], [-3, 3], [5, 4]],
           "plat": [["A", "B"], ["A", "Z"], ["C", "C"]]})
}

/// deterministic sweep: every file count 0..=maxn on every container kind
fn sweep(maxn: u64, lite: bool) -> Vec<Value> {
    let mut progs = vec![];
    let q = subsets(&["A", "B", "C", "Z"]);
    // lite (quick tier): one configuration per container family and header layout that moves the tag section
    let ks: Vec<Value> = kinds().into_iter().enumerate().filter(|(i, _)| !lite || [0, 1, 3, 5, 7].contains(i)).map(|(_, k)| k).collect();
    for k in ks {
        let is_size = k["kind"] == "size";
        for n in 0..=maxn {
            let files: Vec<Value> = (0..n).map(|id| file_of(id, &k)).collect();
            let evens: Vec<u64> = (0..n).filter(|i| i % 2 == 0 || *i == n - 1).collect();
            let edges: Vec<u64> = (0..n).filter(|i| i % 8 == 0 || i % 8 == 7).collect();
            let all: Vec<u64> = (0..n).collect();
            let odds: Vec<u64> = (0..n).filter(|i| i % 2 == 1).collect();
            // (a) tags first, files second
            let mut ops = vec![json!({"op": "add_tag", "t": "A", "ty": 1}), json!({"op": "add_tag", "t": "B", "ty": 2}),
                               json!({"op": "add_tag", "t": "C", "ty": 0x8000})];
            if is_size {
                // the size builder may name positions before they exist
                ops.push(json!({"op": "assoc_set", "t": "A", "files": evens}));
                ops.push(json!({"op": "add_files", "files": files}));
            } else {
                ops.push(json!({"op": "add_files", "files": files}));
                ops.push(json!({"op": "assoc_set", "t": "A", "files": evens}));
            }
            ops.push(json!({"op": "assoc_set", "t": "B", "files": edges}));
            ops.push(json!({"op": "assoc_set", "t": "C", "files": all}));
            ops.push(build_op(&q));
            if !is_size {
                let mut cur = n;
                for pos in [n.wrapping_sub(1), 8, 7, 0, n / 2] {
                    if pos < cur {
                        ops.push(json!({"op": "remove_file", "i": pos}));
                        ops.push(build_op(&q));
                        cur -= 1;
                    }
                }
                ops.push(json!({"op": "add_files", "files": [file_of(n, &k), file_of(n + 1, &k)]}));
                ops.push(json!({"op": "assoc", "i": cur + 1, "t": "A"}));
                ops.push(json!({"op": "dissoc", "i": 0, "t": "C"}));
                ops.push(build_op(&q));
                // the first of three tags goes; the other two are then addressed by name
                ops.push(json!({"op": "remove_tag", "t": "A"}));
                ops.push(json!({"op": "assoc", "i": 0, "t": "C"}));
                ops.push(json!({"op": "dissoc", "i": cur + 1, "t": "B"}));
                ops.push(build_op(&q));
                ops.push(json!({"op": "remove_tag", "t": "B"}));
                ops.push(build_op(&q));
            }
            progs.push(with_ops(&k, ops));
            // (b) files first, tags second
            let mut ops = vec![json!({"op": "add_files", "files": files}), json!({"op": "add_tag", "t": "A", "ty": 0x100}),
                               json!({"op": "assoc_set", "t": "A", "files": odds}), json!({"op": "add_tag", "t": "B", "ty": 3})];
            if n > 0 {
                ops.push(json!({"op": "assoc", "i": n - 1, "t": "B"}));
            }
            ops.push(build_op(&q));
            if !is_size {
                if n > 0 {
                    ops.push(json!({"op": "dissoc", "i": n - 1, "t": "B"}));
                    ops.push(json!({"op": "dissoc", "i": 0, "t": "A"}));
                }
                ops.push(json!({"op": "remove_tag", "t": "A"}));
                ops.push(build_op(&q));
                ops.push(json!({"op": "reopen"}));
                ops.push(json!({"op": "add_tag", "t": "A", "ty": 4}));
                if n > 0 {
                    ops.push(json!({"op": "assoc", "i": 0, "t": "A"}));
                }
                ops.push(json!({"op": "add_file", "sz": [0, 7], "pr": -7}));
                ops.push(json!({"op": "assoc", "i": n, "t": "B"}));
                ops.push(build_op(&q));
            }
            progs.push(with_ops(&k, ops));
        }
        // (c) one bit at a time at the largest count: every bit position appears exactly once as the newest member
        let files: Vec<Value> = (0..maxn).map(|id| file_of(id, &k)).collect();
        let mut ops = vec![json!({"op": "add_files", "files": files}), json!({"op": "add_tag", "t": "A", "ty": 1})];
        let qa = vec![vec!["A".to_string()]];
        for i in 0..maxn {
            ops.push(json!({"op": "assoc", "i": i, "t": "A"}));
            ops.push(build_op(&qa));
        }
        progs.push(with_ops(&k, ops));
    }
    // (d) size manifests at the edge of the entry field: the largest size that fits, and one that does not
    for (ver, w) in [(1u64, 1u64), (1, 2), (1, 3), (1, 4), (2, 4)] {
        let k = json!({"kind": "size", "ver": ver, "esb": w, "eks": 9});
        let top = (1u64 << (8 * w)) - 1;
        let f = |s: u64| json!([s >> 24, s & 0xFF_FFFF, 0]);
        for sizes in [vec![top, 0, 5], vec![5, top + 1, top], vec![top + 1], vec![top, top, 3 * (top + 1) + 1]] {
            let files: Vec<Value> = sizes.iter().map(|s| f(*s)).collect();
            progs.push(with_ops(&k, vec![json!({"op": "add_files", "files": files}), json!({"op": "add_tag", "t": "A", "ty": 1}),
                                         json!({"op": "assoc", "i": sizes.len() - 1, "t": "A"}), build_op(&[])]));
        }
    }
    // (f) a tag name added twice (outside the documented precondition of add_tag; see finding F19c)
    for k in kinds().into_iter().enumerate().filter(|(i, _)| [0, 1, 3, 5].contains(i)).map(|(_, k)| k) {
        let qa = vec![vec!["A".to_string()], vec!["B".to_string()]];
        let f = json!({"op": "add_file", "sz": [0, 9], "pr": 1});
        progs.push(with_ops(&k, vec![json!({"op": "add_tag", "t": "A", "ty": 1}), json!({"op": "add_tag", "t": "A", "ty": 1}), f.clone(),
                                     json!({"op": "assoc", "i": 0, "t": "A"}), build_op(&qa)]));
        progs.push(with_ops(&k, vec![json!({"op": "add_tag", "t": "A", "ty": 1}), json!({"op": "add_tag", "t": "B", "ty": 2}), f.clone(),
                                     json!({"op": "assoc", "i": 0, "t": "A"}), json!({"op": "add_tag", "t": "A", "ty": 4}), f.clone(),
                                     json!({"op": "assoc", "i": 1, "t": "A"}), build_op(&qa), json!({"op": "assoc", "i": 1, "t": "B"}), build_op(&qa)]));
    }
    // (e) version 2 size manifest whose total needs more than 40 bits although every entry fits 32
    let k = json!({"kind": "size", "ver": 2, "eks": 2});
    for cnt in [256u64, 257, 300] {
        let files: Vec<Value> = (0..cnt).map(|_| json!([255, 0xFF_FFFF, 0])).collect();
        progs.push(with_ops(&k, vec![json!({"op": "add_files", "files": files}), build_op(&[])]));
    }
    progs
}

fn random_program(rng: &mut Rng) -> Value {
    let ks = kinds();
    let mut k = rng.pick(&ks).clone();
    if k["kind"] == "download" && k["ver"] == 3 {
        k["base"] = json!(*rng.pick(&[-128i64, -3, -1, 0, 1, 5, 127, 64, -64]));
    }
    let is_size = k["kind"] == "size";
    let maxn = *rng.pick(&[3u64, 9, 17, 40, 70, 150]);
    let maxt = *rng.pick(&[0u64, 1, 3, 8, 20]);
    let len = 10 + rng.below(60);
    let mut ops: Vec<Value> = vec![];
    let (mut n, mut id) = (0u64, 0u64);
    let mut tags: Vec<String> = vec![];
    let mut ever: Vec<String> = vec![];
    let rfile = |rng: &mut Rng, k: &Value| -> (u64, i64) {
        let sz = if rng.chance(1, 3) { *rng.pick(&WIDE) } else { rng.next() >> (24 + rng.below(40)) };
        let pr = if rng.chance(1, 2) { *rng.pick(&PRIOS) } else { rng.below(256) as i64 - 128 };
        (fit(sz, k), pr)
    };
    let build = |rng: &mut Rng, tags: &[String], ever: &[String]| -> Value {
        let mut q: Vec<Vec<String>> = vec![vec![]];
        for t in ever {
            q.push(vec![t.clone()]);
        }
        q.push(tags.to_vec());
        for _ in 0..10 {
            let m = 2 + rng.below(3);
            if !ever.is_empty() {
                q.push((0..m).map(|_| rng.pick(ever).clone()).collect());
            }
        }
        q.push(vec!["Zz".to_string()]);
        let pq: Vec<[i64; 2]> = (0..6).map(|_| [rng.below(256) as i64 - 128, rng.below(256) as i64 - 128]).collect();
        let mut plat = vec![];
        if ever.len() >= 2 {
            plat.push([rng.pick(ever).clone(), rng.pick(ever).clone()]);
        }
        json!({"op": "build", "q": q, "pq": pq, "plat": plat})
    };
    // a burst of files first, so that large counts are reached
    let first = rng.below(maxn + 1);
    let files: Vec<Value> = (0..first).map(|_| { let (s, p) = rfile(rng, &k); json!([s >> 24, s & 0xFF_FFFF, p]) }).collect();
    ops.push(json!({"op": "add_files", "files": files}));
    n += first;
    id += first;
    for _ in 0..len {
        let c = rng.below(100);
        if c < 14 {
            let (s, p) = rfile(rng, &k);
            ops.push(json!({"op": "add_file", "sz": [s >> 24, s & 0xFF_FFFF], "pr": p}));
            n += 1;
            id += 1;
        } else if c < 24 {
            if (tags.len() as u64) < maxt {
                let name = if rng.chance(1, 4) && ever.len() > tags.len() {
                    ever.iter().find(|t| !tags.contains(t)).unwrap().clone()
                } else if ever.len() < 20 {
                    let nm = format!("T{}", ever.len());
                    ever.push(nm.clone());
                    nm
                } else {
                    continue;
                };
                ops.push(json!({"op": "add_tag", "t": name, "ty": *rng.pick(&TYPES)}));
                tags.push(name);
            }
        } else if c < 60 {
            if !tags.is_empty() && (n > 0 || is_size) {
                let t = rng.pick(&tags).clone();
                if rng.chance(1, 3) {
                    let m = 1 + rng.below(8);
                    let fs: Vec<u64> = (0..m).map(|_| rng.below(n.max(1))).filter(|x| *x < n || is_size).collect();
                    ops.push(json!({"op": "assoc_set", "t": t, "files": fs}));
                } else {
                    // now and then an index one past the end (refused; the size builder keeps it pending)
                    let i = if rng.chance(1, 12) { n } else { rng.below(n.max(1)) };
                    ops.push(json!({"op": "assoc", "i": i, "t": t}));
                }
            }
        } else if c < 70 && !is_size {
            if !ever.is_empty() {
                let t = rng.pick(&ever).clone();
                ops.push(json!({"op": "dissoc", "i": rng.below(n + 1), "t": t}));
            }
        } else if c < 82 && !is_size {
            let i = if rng.chance(1, 10) { n } else { rng.below(n.max(1)) };
            ops.push(json!({"op": "remove_file", "i": i}));
            if i < n {
                n -= 1;
            }
        } else if c < 87 && !is_size {
            if !ever.is_empty() {
                let t = rng.pick(&ever).clone();
                ops.push(json!({"op": "remove_tag", "t": t}));
                tags.retain(|x| *x != t);
            }
        } else if c < 90 && !is_size {
            ops.push(json!({"op": "reopen"}));
        } else {
            ops.push(build(rng, &tags, &ever));
        }
    }
    let _ = id;
    ops.push(build(rng, &tags, &ever));
    with_ops(&k, ops)
}

fn main() {
    quiet_panics();
    let args: Vec<String> = std::env::args().collect();
    let mut out = Out::from_arg(arg(&args, "--out").as_ref());
    let mut programs = vec![];
    if let Some(p) = arg(&args, "--programs") {
        programs = read_programs(&p);
    }
    let mut generated = vec![];
    if let Some(maxn) = arg(&args, "--sweep") {
        generated.extend(sweep(maxn.parse().expect("--sweep MAXN"), has_flag(&args, "--lite")));
    }
    let nrand = arg_u64(&args, "--random", 0);
    if nrand > 0 {
        let mut rng = Rng::new(seed_from_env());
        for _ in 0..nrand {
            generated.push(random_program(&mut rng));
        }
    }
    if let Some(p) = arg(&args, "--dump-programs") {
        let mut d = Out::to_path(std::path::Path::new(&p));
        for g in &generated {
            d.ev(g);
        }
    }
    programs.extend(generated);
    if has_flag(&args, "--no-run") {
        eprintln!("{}", json!({"programs": programs.len(), "events": 0}));
        return;
    }
    let st = run_with_watchdog(programs, &mut out, std::time::Duration::from_secs(20), run_program);
    out.flush();
    eprintln!("{}", json!({"programs": st.programs, "events": out.events, "hangs": st.hangs, "skipped": st.skipped}));
    if st.skipped > 0 {
        std::process::exit(3);
    }
}
