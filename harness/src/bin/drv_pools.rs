//! X06 driver: memory pools, zero-copy buffers and streaming helpers of cascette-cache
//! (pool.rs, memory.rs, zerocopy.rs, streaming.rs) and the small pools of cascette-protocol (optimized.rs).
//!
//! usage: drv_pools --programs <file|-> --out <file|->
//!
//! A program is {"kind": K, "cfg": {...}, "ops": [...]}; K selects the component.  Buffers / handles live in numbered
//! slots `s` chosen by the program.  Bytes are JSON arrays of numbers; a count of -1 stands for usize::MAX.
//!
//!  "ngdp"   NgdpMemoryPool: alloc{s,n} fill{s,m} free{s} foreign{c,m} allocb{n} warm clear check;
//!           every event carries the books: "st" = per size class [allocations, bytes_allocated, reuses, pool_misses,
//!           pool_size, max_pool_size, avg_allocation_size], "tot" = total_stats() [allocations, bytes, reuses, misses, avg]
//!  "tl"     allocate_thread_local / deallocate_thread_local / clear_thread_local_pool: alloc fill free foreign clear check
//!  "bbp"    cascette-protocol ByteBufferPool, cfg.api = "obj" (own object) | "tls" (get_buffer/return_buffer) |
//!           "raii" (PooledBuffer): get{s,n} fill{s,m} ret{s} into{s} foreign{c,m} check   (run on a fresh thread)
//!  "zcp"    ZeroCopyBufferPool: get fill ret foreign clear check; "st" = [allocations, hits, misses, hit_rate ppm]
//!  "sized"  SizedMemoryPool: alloc{s,t,n} fill free{s} foreign{c} warm clear check; "st" = per content type
//!           [allocations, bytes, reuses, misses, avg], "tot" = [total_allocations, total_bytes, total_reuses, reuse_rate ppm]
//!  "zc"     ZeroCopyEntry / ZeroCopySlice / ZeroCopyReader:
//!           mk{s,d} fromm{s,d} clone{s,t} drop{s} info{s} slice{s,t,a,b} append{s,t,x} expired{s,ttl} reader{s,t} newr{t,d}
//!           seek{t,p} rexact{t,n} rrem{t} peek{t,n} read{t,n} aread{t,n}
//!  "zcc"    ZeroCopyCache(cfg.max): put{k,d} get{k,s} gslice{k,a,b} greader{k} remove{k} contains{k} clear compact{ttl}
//!           drop{s} hot{min} probe; every event carries len, mem, "st" = [gets, hits, puts, zero_copy_ops, hit_rate ppm]
//!  "stream" StreamingProcessor(cfg.chunk, cfg.maxbuf, cfg.val = "noop"|"ngdp"|"off"): proc{d,reads,exp} recon{chunks}
//!           vchunks{chunks} cstream{size,marks,ask} sstats{cp,tc,bp,cv}
//!  "str"    intern{x,api:"global"|"obj"} key{p,e} ehash{e}
//!  "conc"   real threads on one shared pool, cfg = {target:"ngdp"|"sized"|"intern", mode:"lin"|"hammer", threads, per,
//!           pre, seed}: ONE event {"op":"crun"|"hammer"|"cintern", ...} with the whole stamped history
//!  "bg"     BackgroundMemoryManager on a paused tokio clock: start shutdown submit{task,..} tune press{resp} adv{ms}
//!
//! Events: {"op":"new","kind":..,"cfg":..,"res":{"ok":true}} starts a run, then one event per operation (the operation's
//! fields + "seq" + "res" + books).  Nothing here decides anything: spec/trace/T_Pools.tla (TLC) judges the events.
use bytes::{BufMut, Bytes, BytesMut};
use cascette_cache::memory::{
    BackgroundConfig, BackgroundMemoryManager, ContentTypeHint, MemoryPool, OptimizationTask, PressureResponse, SizedMemoryPool,
};
use cascette_cache::pool::{NgdpMemoryPool, NgdpSizeClass, allocate_thread_local, clear_thread_local_pool, deallocate_thread_local};
use cascette_cache::streaming::{ContentStream, StreamingConfig, StreamingProcessor, StreamingStats};
use cascette_cache::validation::{NgdpValidationHooks, NoOpValidationHooks, ValidationHooks};
use cascette_cache::zerocopy::{ZeroCopyBufferPool, ZeroCopyCache, ZeroCopyEntry, ZeroCopyReader, ZeroCopySlice};
use cascette_crypto::ContentKey;
use cascette_protocol::optimized::{self as popt, ByteBufferPool, EndpointHashes, PooledBuffer, StringInterner};
use serde_json::{Value, json};
use std::collections::{BTreeMap, HashMap};
use std::hash::{Hash, Hasher};
use std::sync::atomic::{AtomicU64, Ordering};
use std::sync::{Arc, Barrier};
use std::time::Duration;
use verif_harness::*;

// --------------------------------------------------------------------------- small helpers
fn small(x: u64) -> Value {
    if x <= (1 << 30) { json!(x) } else { json!(-1) }
}
fn usz(v: &Value) -> usize {
    match v.as_i64() {
        Some(x) if x < 0 => usize::MAX,
        Some(x) => x as usize,
        None => panic!("driver: number expected, got {v}"),
    }
}
fn u(v: &Value) -> u64 {
    v.as_u64().unwrap_or_else(|| panic!("driver: unsigned number expected, got {v}"))
}
fn bytes_of(v: &Value) -> Vec<u8> {
    v.as_array().unwrap_or_else(|| panic!("driver: byte list expected, got {v}")).iter().map(|x| u(x) as u8).collect()
}
fn jb(b: &[u8]) -> Value {
    Value::Array(b.iter().map(|x| json!(*x)).collect())
}
fn head8(b: &[u8]) -> Value {
    jb(&b[..b.len().min(8)])
}
fn ppm(x: f64) -> Value {
    json!((x * 1_000_000.0).round() as i64)
}
fn pat(s: u64, i: usize) -> u8 {
    ((s * 37 + (i as u64) * 11) % 251) as u8
}
fn st(v: &Value) -> &str {
    v.as_str().unwrap_or_else(|| panic!("driver: string expected, got {v}"))
}
/// run one operation: panics become {"outcome":"panic"}
fn call(out: &Emit, op: &Value, f: impl FnOnce() -> Value) -> Value {
    out.begin(op);
    match guarded(f) {
        Ok(v) => v,
        Err(m) => outcome_panic(&m),
    }
}
fn begin_run(out: &Emit, kind: &str, cfg: &Value) {
    out.ev(json!({"op": "new", "kind": kind, "cfg": cfg, "res": {"ok": true}}));
}
fn ops_of(prog: &Value) -> &Vec<Value> {
    prog["ops"].as_array().expect("driver: ops")
}
fn fill_bm(b: &mut BytesMut, s: u64, m: usize) {
    let from = b.len();
    for j in 0..m {
        b.put_u8(pat(s, from + j));
    }
}
fn fill_vec(b: &mut Vec<u8>, s: u64, m: usize) {
    let from = b.len();
    for j in 0..m {
        b.push(pat(s, from + j));
    }
}
fn dirty_bm(c: usize, m: usize) -> BytesMut {
    let mut b = BytesMut::with_capacity(c);
    for _ in 0..m {
        b.put_u8(0xEE);
    }
    b
}
fn held_bm(slots: &BTreeMap<u64, BytesMut>) -> Value {
    Value::Array(slots.iter().map(|(s, b)| json!({"s": s, "len": b.len(), "d": head8(b)})).collect())
}

// --------------------------------------------------------------------------- kind "ngdp"
const CLASSES: [NgdpSizeClass; 4] = [NgdpSizeClass::Small, NgdpSizeClass::Medium, NgdpSizeClass::Large, NgdpSizeClass::Huge];
fn ngdp_books(p: &NgdpMemoryPool) -> (Value, Value) {
    let per: Vec<Value> = CLASSES
        .iter()
        .map(|c| {
            let s = p.size_class_stats(*c);
            json!([small(s.allocations), small(s.bytes_allocated), small(s.reuses), small(s.pool_misses), small(s.pool_size as u64),
                   small(s.max_pool_size as u64), small(s.avg_allocation_size as u64)])
        })
        .collect();
    let t = p.total_stats();
    (Value::Array(per), json!([small(t.allocations), small(t.bytes_allocated), small(t.reuses), small(t.pool_misses), small(t.avg_allocation_size as u64)]))
}
fn run_ngdp(prog: &Value, cfg: &Value, out: &Emit) {
    let pool = NgdpMemoryPool::new();
    let mut slots: BTreeMap<u64, BytesMut> = BTreeMap::new();
    begin_run(out, "ngdp", cfg);
    let mut seq = 0u64;
    for op in ops_of(prog) {
        let name = st(&op["op"]);
        let mut ev = op.clone();
        seq += 1;
        ev["seq"] = json!(seq);
        ev["res"] = call(out, op, || match name {
            "alloc" => {
                let b = pool.allocate(usz(&op["n"]));
                let r = json!({"cap": b.capacity(), "len": b.len()});
                slots.insert(u(&op["s"]), b);
                r
            }
            "fill" => {
                let s = u(&op["s"]);
                let b = slots.get_mut(&s).expect("driver: slot");
                fill_bm(b, s, usz(&op["m"]));
                json!({"cap": b.capacity(), "len": b.len()})
            }
            "free" => {
                let b = slots.remove(&u(&op["s"])).expect("driver: slot");
                let r = json!({"cap": b.capacity(), "len": b.len(), "d": head8(&b)});
                pool.deallocate(b);
                r
            }
            "foreign" => {
                let b = dirty_bm(usz(&op["c"]), op.get("m").map(usz).unwrap_or(0));
                let r = json!({"cap": b.capacity(), "len": b.len()});
                pool.deallocate(b);
                r
            }
            "allocb" => {
                let b = pool.allocate_bytes(usz(&op["n"]));
                json!({"len": b.len()})
            }
            "warm" => {
                pool.warm_up();
                json!({"ok": true})
            }
            "clear" => {
                pool.clear();
                json!({"ok": true})
            }
            "check" => json!({"held": held_bm(&slots)}),
            other => panic!("driver: unknown ngdp op {other}"),
        });
        match guarded(|| ngdp_books(&pool)) {
            Ok((s, t)) => {
                ev["st"] = s;
                ev["tot"] = t;
            }
            Err(m) => ev["obs_err"] = json!(m),
        }
        out.ev(ev);
    }
}

// --------------------------------------------------------------------------- kind "tl"
fn run_tl(prog: &Value, cfg: &Value, out: &Emit) {
    clear_thread_local_pool();
    let mut slots: BTreeMap<u64, BytesMut> = BTreeMap::new();
    begin_run(out, "tl", cfg);
    let mut seq = 0u64;
    for op in ops_of(prog) {
        let name = st(&op["op"]);
        let mut ev = op.clone();
        seq += 1;
        ev["seq"] = json!(seq);
        ev["res"] = call(out, op, || match name {
            "alloc" => {
                let b = allocate_thread_local(usz(&op["n"]));
                let r = json!({"cap": b.capacity(), "len": b.len()});
                slots.insert(u(&op["s"]), b);
                r
            }
            "fill" => {
                let s = u(&op["s"]);
                let b = slots.get_mut(&s).expect("driver: slot");
                fill_bm(b, s, usz(&op["m"]));
                json!({"cap": b.capacity(), "len": b.len()})
            }
            "free" => {
                let b = slots.remove(&u(&op["s"])).expect("driver: slot");
                let r = json!({"cap": b.capacity(), "len": b.len(), "d": head8(&b)});
                deallocate_thread_local(b);
                r
            }
            "foreign" => {
                let b = dirty_bm(usz(&op["c"]), op.get("m").map(usz).unwrap_or(0));
                let r = json!({"cap": b.capacity(), "len": b.len()});
                deallocate_thread_local(b);
                r
            }
            "clear" => {
                clear_thread_local_pool();
                json!({"ok": true})
            }
            "check" => json!({"held": held_bm(&slots)}),
            other => panic!("driver: unknown tl op {other}"),
        });
        out.ev(ev);
    }
    clear_thread_local_pool();
}

// --------------------------------------------------------------------------- kind "bbp"
enum PB {
    V(Vec<u8>),
    P(PooledBuffer),
}
impl PB {
    fn vec(&self) -> &Vec<u8> {
        match self {
            PB::V(v) => v,
            PB::P(p) => p.as_slice(),
        }
    }
}
fn run_bbp_body(prog: &Value, cfg: &Value, out: &Emit) {
    let api = st(&cfg["api"]).to_string();
    let mut pool = ByteBufferPool::new();
    let mut slots: BTreeMap<u64, PB> = BTreeMap::new();
    begin_run(out, "bbp", cfg);
    let mut seq = 0u64;
    for op in ops_of(prog) {
        let name = st(&op["op"]);
        let mut ev = op.clone();
        seq += 1;
        ev["seq"] = json!(seq);
        ev["res"] = call(out, op, || match name {
            "get" => {
                let n = usz(&op["n"]);
                let b = match api.as_str() {
                    "obj" => PB::V(pool.get_buffer(n)),
                    "tls" => PB::V(popt::get_buffer(n)),
                    _ => PB::P(PooledBuffer::new(n)),
                };
                let r = json!({"cap": b.vec().capacity(), "len": b.vec().len()});
                slots.insert(u(&op["s"]), b);
                r
            }
            "fill" => {
                let s = u(&op["s"]);
                let m = usz(&op["m"]);
                match slots.get_mut(&s).expect("driver: slot") {
                    PB::V(v) => fill_vec(v, s, m),
                    PB::P(p) => fill_vec(p.as_mut_slice(), s, m), // also exercised through DerefMut below
                }
                let b = slots.get(&s).expect("driver: slot");
                json!({"cap": b.vec().capacity(), "len": b.vec().len()})
            }
            "ret" => {
                let b = slots.remove(&u(&op["s"])).expect("driver: slot");
                let r = json!({"cap": b.vec().capacity(), "len": b.vec().len(), "d": head8(b.vec())});
                match b {
                    PB::V(v) => {
                        if api == "obj" {
                            pool.return_buffer(v);
                        } else {
                            popt::return_buffer(v);
                        }
                    }
                    PB::P(p) => drop(p),
                }
                r
            }
            "into" => {
                let s = u(&op["s"]);
                let b = slots.remove(&s).expect("driver: slot");
                let v = match b {
                    PB::P(p) => p.into_vec(),
                    PB::V(v) => v,
                };
                let r = json!({"cap": v.capacity(), "len": v.len(), "d": head8(&v)});
                slots.insert(s, PB::V(v));
                r
            }
            "foreign" => {
                let mut v: Vec<u8> = Vec::with_capacity(usz(&op["c"]));
                for _ in 0..op.get("m").map(usz).unwrap_or(0) {
                    v.push(0xEE);
                }
                let r = json!({"cap": v.capacity(), "len": v.len()});
                if api == "obj" {
                    pool.return_buffer(v);
                } else {
                    popt::return_buffer(v);
                }
                r
            }
            "check" => json!({"held": Value::Array(slots.iter().map(|(s, b)| json!({"s": s, "len": b.vec().len(), "d": head8(b.vec())})).collect())}),
            other => panic!("driver: unknown bbp op {other}"),
        });
        out.ev(ev);
    }
}
fn run_bbp(prog: &Value, cfg: &Value, out: &Emit) {
    // the thread-local pool of cascette-protocol cannot be cleared: every program gets a fresh thread
    std::thread::scope(|sc| {
        let h = std::thread::Builder::new().spawn_scoped(sc, || run_bbp_body(prog, cfg, out)).expect("driver: spawn");
        if h.join().is_err() {
            panic!("driver: bbp program thread died");
        }
    });
}

// --------------------------------------------------------------------------- kind "zcp"
fn run_zcp(prog: &Value, cfg: &Value, out: &Emit) {
    let mut pool = ZeroCopyBufferPool::new();
    let mut slots: BTreeMap<u64, BytesMut> = BTreeMap::new();
    begin_run(out, "zcp", cfg);
    let mut seq = 0u64;
    for op in ops_of(prog) {
        let name = st(&op["op"]);
        let mut ev = op.clone();
        seq += 1;
        ev["seq"] = json!(seq);
        ev["res"] = call(out, op, || match name {
            "get" => {
                let b = pool.get_buffer(usz(&op["n"]));
                let r = json!({"cap": b.capacity(), "len": b.len()});
                slots.insert(u(&op["s"]), b);
                r
            }
            "fill" => {
                let s = u(&op["s"]);
                let b = slots.get_mut(&s).expect("driver: slot");
                fill_bm(b, s, usz(&op["m"]));
                json!({"cap": b.capacity(), "len": b.len()})
            }
            "ret" => {
                let b = slots.remove(&u(&op["s"])).expect("driver: slot");
                let r = json!({"cap": b.capacity(), "len": b.len(), "d": head8(&b)});
                pool.return_buffer(b);
                r
            }
            "foreign" => {
                let b = dirty_bm(usz(&op["c"]), op.get("m").map(usz).unwrap_or(0));
                let r = json!({"cap": b.capacity(), "len": b.len()});
                pool.return_buffer(b);
                r
            }
            "clear" => {
                pool.clear();
                json!({"ok": true})
            }
            "check" => json!({"held": held_bm(&slots)}),
            other => panic!("driver: unknown zcp op {other}"),
        });
        match guarded(|| {
            let s = pool.stats();
            json!([small(s.allocations), small(s.hits), small(s.misses), ppm(pool.hit_rate())])
        }) {
            Ok(s) => ev["st"] = s,
            Err(m) => ev["obs_err"] = json!(m),
        }
        out.ev(ev);
    }
}

// --------------------------------------------------------------------------- kind "sized"
const CTYPES: [(&str, ContentTypeHint); 8] = [
    ("config", ContentTypeHint::Config),
    ("encoding", ContentTypeHint::Encoding),
    ("archive", ContentTypeHint::Archive),
    ("root", ContentTypeHint::Root),
    ("install", ContentTypeHint::Install),
    ("download", ContentTypeHint::Download),
    ("blte", ContentTypeHint::Blte),
    ("generic", ContentTypeHint::Generic),
];
fn ctype(name: &str) -> ContentTypeHint {
    CTYPES.iter().find(|(n, _)| *n == name).unwrap_or_else(|| panic!("driver: content type {name}")).1
}
fn sized_books(rt: &tokio::runtime::Runtime, p: &SizedMemoryPool) -> (Value, Value) {
    let s = rt.block_on(p.get_stats()).expect("driver: get_stats");
    let per: Vec<Value> = CTYPES
        .iter()
        .map(|(_, t)| {
            json!([small(*s.allocations_by_type.get(t).unwrap_or(&0)), small(*s.bytes_by_type.get(t).unwrap_or(&0)),
                   small(*s.reuses_by_type.get(t).unwrap_or(&0)), small(*s.misses_by_type.get(t).unwrap_or(&0)),
                   small(*s.avg_size_by_type.get(t).unwrap_or(&0) as u64)])
        })
        .collect();
    (Value::Array(per), json!([small(s.total_allocations()), small(s.total_bytes()), small(s.total_reuses()), ppm(s.reuse_rate())]))
}
fn run_sized(prog: &Value, cfg: &Value, out: &Emit) {
    let rt = rt();
    let pool = SizedMemoryPool::new();
    let mut slots: BTreeMap<u64, BytesMut> = BTreeMap::new();
    begin_run(out, "sized", cfg);
    let mut seq = 0u64;
    for op in ops_of(prog) {
        let name = st(&op["op"]);
        let mut ev = op.clone();
        seq += 1;
        ev["seq"] = json!(seq);
        ev["res"] = call(out, op, || match name {
            "alloc" => match rt.block_on(pool.allocate_for_type(ctype(st(&op["t"])), usz(&op["n"]))) {
                Ok(b) => {
                    let r = json!({"cap": b.capacity(), "len": b.len()});
                    slots.insert(u(&op["s"]), b);
                    r
                }
                Err(e) => json!({"err": e.to_string()}),
            },
            "fill" => {
                let s = u(&op["s"]);
                let b = slots.get_mut(&s).expect("driver: slot");
                fill_bm(b, s, usz(&op["m"]));
                json!({"cap": b.capacity(), "len": b.len()})
            }
            "free" => {
                let b = slots.remove(&u(&op["s"])).expect("driver: slot");
                let r = json!({"cap": b.capacity(), "len": b.len(), "d": head8(&b)});
                match rt.block_on(pool.deallocate(b)) {
                    Ok(()) => r,
                    Err(e) => json!({"err": e.to_string()}),
                }
            }
            "foreign" => {
                let b = dirty_bm(usz(&op["c"]), op.get("m").map(usz).unwrap_or(0));
                let r = json!({"cap": b.capacity(), "len": b.len()});
                match rt.block_on(pool.deallocate(b)) {
                    Ok(()) => r,
                    Err(e) => json!({"err": e.to_string()}),
                }
            }
            "warm" => match rt.block_on(pool.warm_up()) {
                Ok(()) => json!({"ok": true}),
                Err(e) => json!({"err": e.to_string()}),
            },
            "clear" => match rt.block_on(pool.clear()) {
                Ok(()) => json!({"ok": true}),
                Err(e) => json!({"err": e.to_string()}),
            },
            "check" => json!({"held": held_bm(&slots)}),
            other => panic!("driver: unknown sized op {other}"),
        });
        match guarded(|| sized_books(&rt, &pool)) {
            Ok((s, t)) => {
                ev["st"] = s;
                ev["tot"] = t;
            }
            Err(m) => ev["obs_err"] = json!(m),
        }
        out.ev(ev);
    }
}

// --------------------------------------------------------------------------- kind "zc"
enum ZS {
    E(ZeroCopyEntry),
    S(ZeroCopySlice),
    R(ZeroCopyReader),
}
fn ent_info(e: &ZeroCopyEntry) -> Value {
    let dr: &[u8] = e;
    let da: &[u8] = e.as_ref();
    json!({"d": jb(e.as_slice()), "d2": jb(&e.data()), "dr": jb(dr), "da": jb(da), "n": e.size(), "orig": e.original_size(),
           "rc": small(e.ref_count() as u64), "uniq": e.is_unique()})
}
fn sl_info(s: &ZeroCopySlice) -> Value {
    let dr: &[u8] = s;
    let da: &[u8] = s.as_ref();
    let r = s.range();
    json!({"some": true, "d": jb(s.as_slice()), "d2": jb(&s.data()), "dr": jb(dr), "da": jb(da), "n": s.size(), "range": [r.start, r.end]})
}
fn rd_books(r: &ZeroCopyReader) -> Value {
    json!({"pos": r.position(), "rem": r.remaining(), "empty": r.is_empty()})
}
fn io_err(e: &std::io::Error) -> Value {
    let k = match e.kind() {
        std::io::ErrorKind::InvalidInput => "input",
        std::io::ErrorKind::UnexpectedEof => "eof",
        _ => "other",
    };
    json!({"err": k})
}
fn range_of(op: &Value) -> std::ops::Range<usize> {
    usz(&op["a"])..usz(&op["b"])
}
fn run_zc(prog: &Value, cfg: &Value, out: &Emit) {
    let rt = rt();
    let mut slots: BTreeMap<u64, ZS> = BTreeMap::new();
    begin_run(out, "zc", cfg);
    let mut seq = 0u64;
    for op in ops_of(prog) {
        let name = st(&op["op"]);
        let mut ev = op.clone();
        seq += 1;
        ev["seq"] = json!(seq);
        ev["res"] = call(out, op, || match name {
            "mk" => {
                let e = ZeroCopyEntry::new(Bytes::from(bytes_of(&op["d"])));
                let r = ent_info(&e);
                slots.insert(u(&op["s"]), ZS::E(e));
                r
            }
            "fromm" => {
                let e = ZeroCopyEntry::from_bytes_mut(BytesMut::from(&bytes_of(&op["d"])[..]));
                let r = ent_info(&e);
                slots.insert(u(&op["s"]), ZS::E(e));
                r
            }
            "clone" => {
                let c = match slots.get(&u(&op["s"])) {
                    Some(ZS::E(e)) => ZS::E(e.clone()),
                    Some(ZS::S(s)) => ZS::S(s.clone()),
                    _ => panic!("driver: clone of a reader / empty slot"),
                };
                let r = match &c {
                    ZS::E(e) => ent_info(e),
                    ZS::S(s) => sl_info(s),
                    ZS::R(_) => unreachable!(),
                };
                slots.insert(u(&op["t"]), c);
                r
            }
            "drop" => {
                slots.remove(&u(&op["s"])).expect("driver: slot");
                json!({"ok": true})
            }
            "info" => match slots.get(&u(&op["s"])) {
                Some(ZS::E(e)) => ent_info(e),
                Some(ZS::S(s)) => sl_info(s),
                _ => panic!("driver: info of a reader / empty slot"),
            },
            "slice" => {
                let r = match slots.get(&u(&op["s"])) {
                    Some(ZS::E(e)) => e.slice(range_of(op)),
                    _ => panic!("driver: entry slot expected"),
                };
                match r {
                    Some(s) => {
                        let i = sl_info(&s);
                        slots.insert(u(&op["t"]), ZS::S(s));
                        i
                    }
                    None => json!({"none": true}),
                }
            }
            "append" => {
                let n = match slots.get(&u(&op["s"])) {
                    Some(ZS::E(e)) => e.append(&bytes_of(&op["x"])),
                    _ => panic!("driver: entry slot expected"),
                };
                let r = ent_info(&n);
                slots.insert(u(&op["t"]), ZS::E(n));
                r
            }
            "expired" => {
                let zero = st(&op["ttl"]) == "zero";
                if zero {
                    std::thread::sleep(Duration::from_millis(2));
                }
                match slots.get(&u(&op["s"])) {
                    Some(ZS::E(e)) => json!({"b": e.is_expired(if zero { Duration::ZERO } else { Duration::from_secs(3600) })}),
                    _ => panic!("driver: entry slot expected"),
                }
            }
            "reader" => {
                let r = match slots.get(&u(&op["s"])) {
                    Some(ZS::E(e)) => e.reader(),
                    _ => panic!("driver: entry slot expected"),
                };
                let b = rd_books(&r);
                slots.insert(u(&op["t"]), ZS::R(r));
                b
            }
            "newr" => {
                let r = ZeroCopyReader::new(Bytes::from(bytes_of(&op["d"])));
                let b = rd_books(&r);
                slots.insert(u(&op["t"]), ZS::R(r));
                b
            }
            "seek" | "rexact" | "rrem" | "peek" | "read" | "aread" => {
                let r = match slots.get_mut(&u(&op["t"])) {
                    Some(ZS::R(r)) => r,
                    _ => panic!("driver: reader slot expected"),
                };
                let mut v = match name {
                    "seek" => match r.seek(usz(&op["p"])) {
                        Ok(()) => json!({"ok": true}),
                        Err(e) => io_err(&e),
                    },
                    "rexact" => match r.read_exact_bytes(usz(&op["n"])) {
                        Ok(b) => json!({"d": jb(&b)}),
                        Err(e) => io_err(&e),
                    },
                    "rrem" => json!({"d": jb(&r.read_remaining())}),
                    "peek" => match r.peek(usz(&op["n"])) {
                        Some(b) => json!({"d": jb(&b)}),
                        None => json!({"none": true}),
                    },
                    "read" => {
                        let mut buf = vec![0xEEu8; usz(&op["n"])];
                        match std::io::Read::read(r, &mut buf) {
                            Ok(k) => json!({"d": jb(&buf[..k]), "k": k}),
                            Err(e) => io_err(&e),
                        }
                    }
                    _ => {
                        let mut buf = vec![0xEEu8; usz(&op["n"])];
                        match rt.block_on(tokio::io::AsyncReadExt::read(r, &mut buf)) {
                            Ok(k) => json!({"d": jb(&buf[..k]), "k": k}),
                            Err(e) => io_err(&e),
                        }
                    }
                };
                let b = rd_books(r);
                v["pos"] = b["pos"].clone();
                v["rem"] = b["rem"].clone();
                v["empty"] = b["empty"].clone();
                v
            }
            other => panic!("driver: unknown zc op {other}"),
        });
        out.ev(ev);
    }
}

// --------------------------------------------------------------------------- kind "zcc"
fn run_zcc(prog: &Value, cfg: &Value, out: &Emit) {
    let mut cache = ZeroCopyCache::new(usz(&cfg["max"]));
    let mut held: BTreeMap<u64, ZeroCopyEntry> = BTreeMap::new();
    let keys: Vec<u64> = prog["keys"].as_array().map(|a| a.iter().map(u).collect()).unwrap_or_default();
    out.ev(json!({"op": "new", "kind": "zcc", "cfg": cfg, "keys": keys, "res": {"ok": true}}));
    let mut seq = 0u64;
    let get_res = |e: Option<&ZeroCopyEntry>| match e {
        Some(e) => json!({"hit": true, "n": e.size(), "h": jb(e.as_slice())}),
        None => json!({"hit": false}),
    };
    for op in ops_of(prog) {
        let name = st(&op["op"]);
        let mut ev = op.clone();
        seq += 1;
        ev["seq"] = json!(seq);
        ev["res"] = call(out, op, || match name {
            "put" => {
                cache.put(u(&op["k"]), Bytes::from(bytes_of(&op["d"])));
                json!({"ok": true})
            }
            "get" => {
                let e = cache.get(u(&op["k"]));
                let r = get_res(e.as_ref());
                if let Some(e) = e {
                    held.insert(u(&op["s"]), e); // kept alive until drop{s}
                }
                r
            }
            "gslice" => match cache.get_slice(u(&op["k"]), range_of(op)) {
                Some(s) => sl_info(&s),
                None => json!({"none": true}),
            },
            "greader" => match cache.get_reader(u(&op["k"])) {
                Some(mut r) => json!({"some": true, "d": jb(&r.read_remaining())}),
                None => json!({"none": true}),
            },
            "remove" => json!({"b": cache.remove(u(&op["k"]))}),
            "contains" => json!({"b": cache.contains(u(&op["k"]))}),
            "clear" => {
                cache.clear();
                json!({"ok": true})
            }
            "compact" => {
                let zero = st(&op["ttl"]) == "zero";
                if zero {
                    std::thread::sleep(Duration::from_millis(2));
                }
                cache.compact(if zero { Duration::ZERO } else { Duration::from_secs(3600) });
                json!({"ok": true})
            }
            "drop" => {
                held.remove(&u(&op["s"]));
                json!({"ok": true})
            }
            "hot" => {
                let mut l = cache.get_highly_referenced_entries(usz(&op["min"]));
                l.sort_unstable();
                json!({"list": Value::Array(l.iter().map(|(k, rc)| json!([k, small(*rc as u64)])).collect())})
            }
            "probe" => {
                // one get per key of the universe (the handles are dropped at once) - counted like any other get
                let mut vals = serde_json::Map::new();
                let mut rcs = serde_json::Map::new();
                for k in &keys {
                    let e = cache.get(*k);
                    vals.insert(k.to_string(), get_res(e.as_ref()));
                    if let Some(e) = &e {
                        rcs.insert(k.to_string(), small(e.ref_count() as u64));
                    }
                }
                json!({"vals": vals, "rcs": rcs})
            }
            other => panic!("driver: unknown zcc op {other}"),
        });
        match guarded(|| {
            let s = cache.stats();
            (cache.len(), cache.memory_usage(), cache.is_empty(),
             json!([small(s.gets), small(s.hits), small(s.puts), small(s.zero_copy_ops), ppm(cache.hit_rate())]))
        }) {
            Ok((l, m, e, s)) => {
                ev["len"] = json!(l);
                ev["mem"] = small(m as u64);
                ev["empty"] = json!(e);
                ev["st"] = s;
            }
            Err(m) => ev["obs_err"] = json!(m),
        }
        out.ev(ev);
    }
}

// --------------------------------------------------------------------------- kind "stream"
/// delivers the stream in the scripted portions (then whatever is asked for)
struct Scripted {
    data: Vec<u8>,
    pos: usize,
    reads: std::collections::VecDeque<usize>,
    calls: usize,
}
impl tokio::io::AsyncRead for Scripted {
    fn poll_read(mut self: std::pin::Pin<&mut Self>, _cx: &mut std::task::Context<'_>, buf: &mut tokio::io::ReadBuf<'_>) -> std::task::Poll<std::io::Result<()>> {
        self.calls += 1;
        let want = self.reads.pop_front().unwrap_or(usize::MAX);
        let k = buf.remaining().min(want).min(self.data.len() - self.pos);
        let (a, b) = (self.pos, self.pos + k);
        buf.put_slice(&self.data[a..b]);
        self.pos = b;
        std::task::Poll::Ready(Ok(()))
    }
}
fn chunks_of(v: &Value) -> Vec<Bytes> {
    v.as_array().expect("driver: chunks").iter().map(|c| Bytes::from(bytes_of(c))).collect()
}
fn opt_u64(v: &Value) -> Option<u64> {
    v.as_array().expect("driver: option (list)").first().map(u)
}
fn stream_ops<V: ValidationHooks>(prog: &Value, cfg: &Value, out: &Emit, hooks: V, validate: bool) {
    let rt = rt();
    let scfg = StreamingConfig { chunk_size: usz(&cfg["chunk"]), max_buffered_chunks: usz(&cfg["maxbuf"]), validate_chunks: validate, min_chunk_size: 1 };
    let proc_ = StreamingProcessor::new(hooks, scfg.clone());
    begin_run(out, "stream", cfg);
    let mut seq = 0u64;
    for op in ops_of(prog) {
        let name = st(&op["op"]);
        let mut ev = op.clone();
        seq += 1;
        ev["seq"] = json!(seq);
        ev["res"] = call(out, op, || match name {
            "proc" => {
                let d = bytes_of(&op["d"]);
                let reads = op["reads"].as_array().expect("driver: reads").iter().map(usz).collect();
                let rd = Scripted { data: d.clone(), pos: 0, reads, calls: 0 };
                match rt.block_on(proc_.process_stream(ContentKey::from_data(&d), rd, opt_u64(&op["exp"]))) {
                    Ok(ch) => json!({"chunks": Value::Array(ch.iter().map(|c| jb(c)).collect())}),
                    Err(e) => json!({"err": e.to_string().chars().take(120).collect::<String>()}),
                }
            }
            "recon" => json!({"d": jb(&proc_.reconstruct_content(&chunks_of(&op["chunks"])))}),
            "vchunks" => match rt.block_on(proc_.validate_chunks(&chunks_of(&op["chunks"]))) {
                Ok(rs) => json!({"valid": Value::Array(rs.iter().map(|r| json!(r.is_valid)).collect())}),
                Err(e) => json!({"err": e.to_string().chars().take(120).collect::<String>()}),
            },
            "cstream" => {
                let mut s = ContentStream::new(ContentKey::from_data(b"x06"), opt_u64(&op["size"]), scfg.clone());
                for m in op["marks"].as_array().expect("driver: marks") {
                    s.mark_chunk_validated(u(m) as u32);
                }
                let stats = proc_.get_stats(&s);
                json!({"total": s.total_chunks().map(|t| vec![t]).unwrap_or_default(),
                       "prog": s.progress().map(|p| vec![(f64::from(p) * 1e6).round() as i64]).unwrap_or_default(),
                       "complete": s.is_complete(), "cur": s.current_chunk_index(), "bytes": s.bytes_processed(),
                       "validated": Value::Array(op["ask"].as_array().expect("driver: ask").iter().map(|i| json!(s.is_chunk_validated(u(i) as u32))).collect()),
                       "gs": {"cp": stats.chunks_processed, "tc": stats.total_chunks.map(|t| vec![t]).unwrap_or_default(), "bp": stats.bytes_processed,
                              "cv": stats.chunks_validated, "vr": (f64::from(stats.validation_rate) * 1e6).round() as i64,
                              "pr": (f64::from(stats.progress) * 1e6).round() as i64}})
            }
            "sstats" => {
                let s = StreamingStats { chunks_processed: u(&op["cp"]) as u32, total_chunks: opt_u64(&op["tc"]).map(|t| t as u32), bytes_processed: u(&op["bp"]),
                                         chunks_validated: u(&op["cv"]) as u32, validation_rate: 0.0, progress: 0.0 };
                json!({"all": s.all_chunks_validated(), "avg": s.average_chunk_size().map(|x| vec![x]).unwrap_or_default(),
                       "est": s.estimated_total_size().map(|x| vec![x]).unwrap_or_default()})
            }
            other => panic!("driver: unknown stream op {other}"),
        });
        out.ev(ev);
    }
}
fn run_stream(prog: &Value, cfg: &Value, out: &Emit) {
    match st(&cfg["val"]) {
        "noop" => stream_ops(prog, cfg, out, NoOpValidationHooks, true),
        "ngdp" => stream_ops(prog, cfg, out, NgdpValidationHooks::default(), true),
        _ => stream_ops(prog, cfg, out, NoOpValidationHooks, false),
    }
}

// --------------------------------------------------------------------------- kind "str"
fn default_hash(s: &str) -> u64 {
    let mut h = std::collections::hash_map::DefaultHasher::new();
    s.hash(&mut h);
    h.finish()
}
fn run_str(prog: &Value, cfg: &Value, out: &Emit) {
    let mut obj = StringInterner::new();
    let hashes = EndpointHashes::new();
    let mut alive: Vec<Arc<str>> = Vec::new(); // handles are kept so that an address is never reused within the run
    let mut ids: HashMap<usize, usize> = HashMap::new();
    begin_run(out, "str", cfg);
    let mut seq = 0u64;
    for op in ops_of(prog) {
        let name = st(&op["op"]);
        let mut ev = op.clone();
        seq += 1;
        ev["seq"] = json!(seq);
        ev["res"] = call(out, op, || match name {
            "intern" => {
                let x = st(&op["x"]);
                let a = if st(&op["api"]) == "obj" { obj.intern(x) } else { popt::intern_string(x) };
                let addr = a.as_ptr() as usize;
                let n = ids.len() + 1;
                let id = *ids.entry(addr).or_insert(n);
                let r = json!({"id": id, "s": &*a});
                alive.push(a);
                r
            }
            "key" => json!({"s": popt::format_cache_key(st(&op["p"]), st(&op["e"]))}),
            "ehash" => {
                let e = st(&op["e"]);
                json!({"h": popt::endpoint_hash(e).to_string(), "h2": hashes.get_hash(e).to_string(), "h3": default_hash(e).to_string()})
            }
            other => panic!("driver: unknown str op {other}"),
        });
        out.ev(ev);
    }
}

// --------------------------------------------------------------------------- kind "conc"
struct Stamp(AtomicU64);
impl Stamp {
    fn tick(&self) -> u64 {
        self.0.fetch_add(1, Ordering::SeqCst) + 1
    }
}
fn jitter(rng: &mut Rng) {
    match rng.below(4) {
        0 => std::thread::yield_now(),
        1 => {
            for _ in 0..rng.below(200) {
                std::hint::spin_loop();
            }
        }
        _ => {}
    }
}
fn snap_class(p: &NgdpMemoryPool, c: usize) -> Value {
    let s = p.size_class_stats(CLASSES[c - 1]);
    json!([small(s.allocations), small(s.reuses), small(s.pool_misses), small(s.pool_size as u64)])
}
const CSIZES: [usize; 2] = [100, 20000]; // Small, Medium
fn conc_lin(cfg: &Value, out: &Emit) {
    let threads = u(&cfg["threads"]) as usize;
    let per = u(&cfg["per"]) as usize;
    let seed = u(&cfg["seed"]);
    let nclasses = cfg.get("classes").map(u).unwrap_or(1) as usize;
    let pool = Arc::new(NgdpMemoryPool::new());
    let stamp = Arc::new(Stamp(AtomicU64::new(0)));
    let mut all: Vec<Value> = Vec::new();
    // sequential prefix (thread 0): `pre` foreign buffers per class
    let mut i0 = 0u64;
    for c in 0..nclasses {
        for _ in 0..u(&cfg["pre"]) {
            let b = BytesMut::with_capacity(NgdpSizeClass::from_size(CSIZES[c]).buffer_size());
            let cap = b.capacity();
            let inv = stamp.tick();
            pool.deallocate(b);
            let ret = stamp.tick();
            all.push(json!({"t": 0, "i": i0, "op": "free", "cap": cap, "inv": inv, "ret": ret, "panic": false}));
            i0 += 1;
        }
    }
    let bar = Arc::new(Barrier::new(threads));
    let arrived = Arc::new(AtomicU64::new(0));
    let mut hs = Vec::new();
    for t in 1..=threads {
        let (pool, stamp, bar, arrived) = (pool.clone(), stamp.clone(), bar.clone(), arrived.clone());
        hs.push(std::thread::spawn(move || {
            let mut rng = Rng::new(seed.wrapping_mul(1_000_003).wrapping_add(t as u64));
            let mut held: Vec<BytesMut> = Vec::new();
            let mut ops: Vec<Value> = Vec::new();
            bar.wait();
            for i in 0..per {
                // rounds in lock step (spin barrier), then a seeded perturbation: the calls of one round start together
                arrived.fetch_add(1, Ordering::SeqCst);
                let t_spin = std::time::Instant::now();
                while arrived.load(Ordering::SeqCst) < (threads * (i + 1)) as u64 && t_spin.elapsed() < Duration::from_millis(200) {
                    std::hint::spin_loop();
                }
                for _ in 0..rng.below(60) {
                    std::hint::spin_loop();
                }
                if rng.below(6) == 0 {
                    jitter(&mut rng);
                }
                let k = rng.below(10);
                if k < 4 || (k < 7 && held.is_empty()) {
                    let n = CSIZES[rng.below(nclasses as u64) as usize];
                    let inv = stamp.tick();
                    let r = guarded(|| pool.allocate(n));
                    let ret = stamp.tick();
                    match r {
                        Ok(mut b) => {
                            ops.push(json!({"t": t, "i": i, "op": "alloc", "n": n, "cap": b.capacity(), "len": b.len(), "inv": inv, "ret": ret}));
                            b.put_u8(t as u8);
                            held.push(b);
                        }
                        Err(m) => ops.push(json!({"t": t, "i": i, "op": "alloc", "n": n, "panic": m, "inv": inv, "ret": ret})),
                    }
                } else if k < 7 {
                    let b = held.swap_remove(rng.below(held.len() as u64) as usize);
                    let (cap, d) = (b.capacity(), head8(&b));
                    let inv = stamp.tick();
                    let r = guarded(|| pool.deallocate(b));
                    let ret = stamp.tick();
                    ops.push(json!({"t": t, "i": i, "op": "free", "cap": cap, "d": d, "own": t, "inv": inv, "ret": ret, "panic": r.is_err()}));
                } else {
                    let c = 1 + rng.below(nclasses as u64) as usize;
                    let inv = stamp.tick();
                    let s = guarded(|| snap_class(&pool, c));
                    let ret = stamp.tick();
                    ops.push(json!({"t": t, "i": i, "op": "snap", "c": c, "st": s.unwrap_or(json!([-2, -2, -2, -2])), "inv": inv, "ret": ret}));
                }
            }
            ops
        }));
    }
    for h in hs {
        all.extend(h.join().expect("driver: conc thread"));
    }
    // quiescent suffix (thread 0): a snapshot per class, then drain: pool_size + 1 allocations, each followed by a snapshot
    let mut i = 100u64;
    for c in 1..=nclasses {
        let inv = stamp.tick();
        let s = snap_class(&pool, c);
        let ret = stamp.tick();
        let idle = s[3].as_u64().unwrap_or(0);
        all.push(json!({"t": 0, "i": i, "op": "snap", "c": c, "st": s, "inv": inv, "ret": ret}));
        i += 1;
        for _ in 0..=idle {
            let inv = stamp.tick();
            let b = pool.allocate(CSIZES[c - 1]);
            let ret = stamp.tick();
            all.push(json!({"t": 0, "i": i, "op": "alloc", "n": CSIZES[c - 1], "cap": b.capacity(), "len": b.len(), "inv": inv, "ret": ret}));
            i += 1;
            drop(b); // not returned to the pool
            let inv = stamp.tick();
            let s = snap_class(&pool, c);
            let ret = stamp.tick();
            all.push(json!({"t": 0, "i": i, "op": "snap", "c": c, "st": s, "inv": inv, "ret": ret}));
            i += 1;
        }
    }
    out.ev(json!({"op": "crun", "target": "ngdp", "threads": threads, "cfg": cfg, "ops": all}));
}
fn conc_hammer(cfg: &Value, out: &Emit) {
    let threads = u(&cfg["threads"]) as usize;
    let per = u(&cfg["per"]) as usize;
    let seed = u(&cfg["seed"]);
    let target = st(&cfg["target"]).to_string();
    let ngdp = Arc::new(NgdpMemoryPool::new());
    let sized = Arc::new(SizedMemoryPool::new());
    // content types used on the sized pool: one per size class so that the class of a request names its type
    const HT: [(usize, &str, usize); 2] = [(0, "config", 100), (5, "download", 20000)];
    // sequential prefix (thread 0): `pre` buffers per class returned to the pool; with cfg.lock the rounds run in lock step
    let pre = cfg.get("pre").map(u).unwrap_or(0);
    let lock = cfg.get("lock").and_then(Value::as_bool).unwrap_or(false);
    let mut all: Vec<Value> = Vec::new();
    {
        let r0 = rt();
        for c in 0..2usize {
            for _ in 0..pre {
                let b = BytesMut::with_capacity(NgdpSizeClass::from_size(HT[c].2).buffer_size());
                let cap = b.capacity();
                if target == "ngdp" {
                    ngdp.deallocate(b);
                } else {
                    r0.block_on(sized.deallocate(b)).expect("driver: deallocate");
                }
                all.push(json!([0, 1, c + 1, cap, 0, 0, 0]));
            }
        }
    }
    let bar = Arc::new(Barrier::new(threads));
    let arrived = Arc::new(AtomicU64::new(0));
    let mut hs = Vec::new();
    for t in 1..=threads {
        let (ngdp, sized, bar, target, arrived) = (ngdp.clone(), sized.clone(), bar.clone(), target.clone(), arrived.clone());
        hs.push(std::thread::spawn(move || {
            let mut rng = Rng::new(seed.wrapping_mul(7_000_003).wrapping_add(t as u64));
            let mut held: Vec<(BytesMut, usize)> = Vec::new();
            let mut tagc = 0usize;
            // alloc: [t, 0, class, n, cap, len] (2 = panicked); free: [t, 1, class, cap, byte0, byte1, tag] (3 = panicked)
            let mut ops: Vec<Value> = Vec::new();
            let lrt = rt();
            bar.wait();
            for i in 0..per {
                if lock {
                    arrived.fetch_add(1, Ordering::SeqCst);
                    let t_spin = std::time::Instant::now();
                    while arrived.load(Ordering::SeqCst) < (threads * (i + 1)) as u64 && t_spin.elapsed() < Duration::from_millis(200) {
                        std::hint::spin_loop();
                    }
                    for _ in 0..rng.below(40) {
                        std::hint::spin_loop();
                    }
                }
                if rng.below(8) == 0 {
                    jitter(&mut rng);
                }
                if held.len() < 6 && (held.is_empty() || rng.below(2) == 0) {
                    let ci = rng.below(2) as usize;
                    let n = HT[ci].2 + rng.below(50) as usize;
                    let r = if target == "ngdp" {
                        guarded(|| ngdp.allocate(n))
                    } else {
                        guarded(|| lrt.block_on(sized.allocate_for_type(ctype(HT[ci].1), n)).expect("driver: allocate_for_type"))
                    };
                    match r {
                        Ok(mut b) => {
                            ops.push(json!([t, 0, ci + 1, n, b.capacity(), b.len()]));
                            tagc = tagc % 250 + 1;
                            b.put_u8(t as u8);
                            b.put_u8(tagc as u8);
                            held.push((b, tagc));
                        }
                        Err(_) => ops.push(json!([t, 2, ci + 1, n, 0, 0])),
                    }
                } else {
                    let (b, tag) = held.swap_remove(rng.below(held.len() as u64) as usize);
                    let cap = b.capacity();
                    let (b0, b1) = (b.first().copied().unwrap_or(0), b.get(1).copied().unwrap_or(0));
                    let ci = if cap <= 16384 { 1 } else { 2 };
                    let r = if target == "ngdp" {
                        guarded(|| ngdp.deallocate(b))
                    } else {
                        guarded(|| lrt.block_on(sized.deallocate(b)).expect("driver: deallocate"))
                    };
                    ops.push(json!([t, if r.is_ok() { 1 } else { 3 }, ci, cap, b0, b1, tag]));
                }
            }
            // buffers still held are dropped, not returned
            ops
        }));
    }
    for h in hs {
        all.extend(h.join().expect("driver: hammer thread"));
    }
    let mut ev = json!({"op": "hammer", "target": target, "threads": threads, "cfg": cfg, "ops": all});
    if target == "ngdp" {
        let (s, t) = ngdp_books(&ngdp);
        ev["st"] = s.clone();
        ev["tot"] = t;
        // drain: per class pool_size + 1 allocations; each answers [reuses, misses, pool_size] afterwards
        let mut drain = Vec::new();
        for c in 1..=2usize {
            let idle = s[c - 1][4].as_u64().unwrap_or(0);
            let mut l = Vec::new();
            for _ in 0..=idle {
                drop(ngdp.allocate(HT[c - 1].2)); // not returned to the pool
                let x = ngdp.size_class_stats(CLASSES[c - 1]);
                l.push(json!([small(x.reuses), small(x.pool_misses), small(x.pool_size as u64)]));
            }
            drain.push(Value::Array(l));
        }
        ev["drain"] = Value::Array(drain);
    } else {
        let r = rt();
        let (s, t) = sized_books(&r, &sized);
        ev["st"] = s;
        ev["tot"] = t;
    }
    out.ev(ev);
}
fn conc_intern(cfg: &Value, out: &Emit) {
    let threads = u(&cfg["threads"]) as usize;
    let per = u(&cfg["per"]) as usize;
    let seed = u(&cfg["seed"]);
    let words: Vec<String> = (0..6).map(|i| format!("x06-{seed}-{}", i % 5)).collect(); // two equal texts from different Strings
    let bar = Arc::new(Barrier::new(threads));
    let mut hs = Vec::new();
    for t in 1..=threads {
        let (bar, words) = (bar.clone(), words.clone());
        hs.push(std::thread::spawn(move || {
            let mut rng = Rng::new(seed.wrapping_mul(31).wrapping_add(t as u64));
            let mut got: Vec<(String, Arc<str>)> = Vec::new();
            bar.wait();
            for _ in 0..per {
                jitter(&mut rng);
                let w = rng.pick(&words).clone();
                let a = popt::intern_string(&w);
                got.push((w, a));
            }
            got
        }));
    }
    let mut all = Vec::new();
    let mut keep = Vec::new();
    for (t, h) in hs.into_iter().enumerate() {
        for (w, a) in h.join().expect("driver: intern thread") {
            all.push(json!([t + 1, w, &*a, (a.as_ptr() as usize).to_string()]));
            keep.push(a);
        }
    }
    out.ev(json!({"op": "cintern", "threads": threads, "cfg": cfg, "ops": all}));
}
fn run_conc(_prog: &Value, cfg: &Value, out: &Emit) {
    out.begin(&json!({"op": "conc", "cfg": cfg}));
    match (st(&cfg["target"]), st(&cfg["mode"])) {
        ("intern", _) => conc_intern(cfg, out),
        (_, "lin") => conc_lin(cfg, out),
        _ => conc_hammer(cfg, out),
    }
}

// --------------------------------------------------------------------------- kind "bg"
fn bg_task(op: &Value) -> OptimizationTask {
    let t = ctype(op.get("t").map(st).unwrap_or("config"));
    match st(&op["task"]) {
        "monitor" => OptimizationTask::MonitorUsage { content_type: t, interval: Duration::from_millis(u(&op["ms"])) },
        "tune" => OptimizationTask::TunePoolSize { content_type: t, target_reuse_rate: 0.7, max_adjustment: 0.3 },
        "defrag" => OptimizationTask::DefragmentPool { content_type: t, fragmentation_threshold: 0.5 },
        "warm" => OptimizationTask::WarmUpPools { predictions: vec![(t, u(&op["n"]) as usize)] },
        "press" => OptimizationTask::MemoryPressureCheck { pressure_threshold: 0.0, response: bg_resp(st(&op["resp"])) },
        "cleanup" => OptimizationTask::CleanupUnused { max_age: Duration::from_secs(600), min_pool_size: 1 },
        other => panic!("driver: unknown task {other}"),
    }
}
fn bg_resp(r: &str) -> PressureResponse {
    match r {
        "log" => PressureResponse::LogWarning,
        "clear" => PressureResponse::ClearSmallPools,
        "reduce" => PressureResponse::ReducePools(50),
        "emergency" => PressureResponse::EmergencyMode,
        other => panic!("driver: unknown response {other}"),
    }
}
fn run_bg(prog: &Value, cfg: &Value, out: &Emit) {
    let rt = tokio::runtime::Builder::new_current_thread().enable_time().start_paused(true).build().expect("paused runtime");
    begin_run(out, "bg", cfg);
    let r = guarded(|| rt.block_on(async {
        let pool = Arc::new(SizedMemoryPool::new());
        let bc = BackgroundConfig {
            pattern_monitoring_interval: Duration::from_millis(u(&cfg["mon"])),
            pressure_check_interval: Duration::from_millis(u(&cfg["press"])),
            cleanup_interval: Duration::from_millis(u(&cfg["clean"])),
            enable_auto_warmup: cfg["warmup"].as_bool().unwrap_or(true),
            ..BackgroundConfig::default()
        };
        let mut mgr = BackgroundMemoryManager::with_config(pool.clone(), bc).expect("driver: manager");
        let t0 = tokio::time::Instant::now();
        let mut seq = 0u64;
        for op in ops_of(prog) {
            let name = st(&op["op"]);
            let mut ev = op.clone();
            seq += 1;
            ev["seq"] = json!(seq);
            out.begin(op);
            let before = tokio::time::Instant::now();
            // (no catch_unwind across an await: a panic here ends the program and is reported as a dead worker)
            let res = match name {
                "start" => match mgr.start_optimization() {
                    Ok(()) => json!({"ok": true}),
                    Err(e) => json!({"err": e.to_string()}),
                },
                "shutdown" => match mgr.shutdown().await {
                    Ok(()) => json!({"ok": true}),
                    Err(e) => json!({"err": e.to_string()}),
                },
                "submit" => match mgr.submit_task(bg_task(op)) {
                    Ok(()) => json!({"ok": true}),
                    Err(e) => json!({"err": e.to_string()}),
                },
                "tune" => match mgr.trigger_tuning() {
                    Ok(()) => json!({"ok": true}),
                    Err(e) => json!({"err": e.to_string()}),
                },
                "press" => match mgr.trigger_pressure_response(bg_resp(st(&op["resp"]))) {
                    Ok(()) => json!({"ok": true}),
                    Err(e) => json!({"err": e.to_string()}),
                },
                "adv" => {
                    tokio::time::sleep(Duration::from_millis(u(&op["ms"]))).await;
                    json!({"ok": true})
                }
                "alloc" => {
                    let t = ctype(st(&op["t"]));
                    let b = pool.allocate_for_type(t, 100).await.expect("driver: allocate_for_type");
                    pool.deallocate(b).await.expect("driver: deallocate");
                    json!({"ok": true})
                }
                other => panic!("driver: unknown bg op {other}"),
            };
            // let the worker run as far as it can without time passing
            for _ in 0..64 {
                tokio::task::yield_now().await;
            }
            ev["res"] = res;
            ev["dt"] = json!(before.elapsed().as_millis() as u64);
            ev["now"] = json!(t0.elapsed().as_millis() as u64);
            ev["run"] = json!(mgr.is_running());
            let bs = mgr.get_background_stats().expect("driver: background stats");
            ev["te"] = json!(bs.tasks_executed);
            let pats = mgr.get_usage_patterns().expect("driver: usage patterns");
            ev["samples"] = Value::Array(CTYPES.iter().map(|(_, t)| json!(pats.get(t).map(|p| p.recent_sizes.len()).unwrap_or(0))).collect());
            let s = pool.get_stats().await.expect("driver: get_stats");
            ev["allocs"] = json!(s.total_allocations());
            out.ev(ev);
        }
        drop(mgr);
    }));
    if let Err(m) = r {
        out.ev(json!({"op": "bgpanic", "seq": 0, "res": outcome_panic(&m)}));
    }
}

// --------------------------------------------------------------------------- main
fn run_program(prog: &Value, out: &Emit) {
    let cfg = prog["cfg"].clone();
    match prog["kind"].as_str().unwrap_or("?") {
        "ngdp" => run_ngdp(prog, &cfg, out),
        "tl" => run_tl(prog, &cfg, out),
        "bbp" => run_bbp(prog, &cfg, out),
        "zcp" => run_zcp(prog, &cfg, out),
        "sized" => run_sized(prog, &cfg, out),
        "zc" => run_zc(prog, &cfg, out),
        "zcc" => run_zcc(prog, &cfg, out),
        "stream" => run_stream(prog, &cfg, out),
        "str" => run_str(prog, &cfg, out),
        "conc" => run_conc(prog, &cfg, out),
        "bg" => run_bg(prog, &cfg, out),
        other => panic!("driver: unknown program kind {other}"),
    }
}

fn main() {
    quiet_panics();
    let args: Vec<String> = std::env::args().collect();
    let mut out = Out::from_arg(arg(&args, "--out").as_ref());
    let programs = read_programs(&arg(&args, "--programs").expect("--programs"));
    let st = run_with_watchdog(programs, &mut out, Duration::from_secs(20), run_program);
    out.flush();
    eprintln!("{}", json!({"programs": st.programs, "events": out.events, "hangs": st.hangs, "skipped": st.skipped}));
    if st.skipped > 0 {
        std::process::exit(3);
    }
}
