// temporary probe (will be replaced by the real driver)
use bytes::{Bytes, BytesMut};
use cascette_cache::pool::*;
use cascette_cache::zerocopy::*;
use cascette_cache::memory::*;
use cascette_protocol::optimized::*;
fn main() {
    // reserve bug
    let mut p = ZeroCopyBufferPool::new();
    let b = p.get_buffer(1500);
    println!("zcp get(1500) cap={}", b.capacity());
    p.return_buffer(b);
    let b = p.get_buffer(2000);
    println!("zcp get(2000) cap={} len={}", b.capacity(), b.len());
    deallocate_thread_local(BytesMut::with_capacity(100));
    let b = allocate_thread_local(1000);
    println!("tl alloc(1000) cap={}", b.capacity());
    let mut bp = ByteBufferPool::new();
    let v = bp.get_buffer(100);
    println!("bbp get(100) cap={}", v.capacity());
    bp.return_buffer(v);
    let v = bp.get_buffer(1000);
    println!("bbp get(1000) cap={}", v.capacity());
    // refcount
    let e = ZeroCopyEntry::new(Bytes::from_static(b"hello"));
    let c = e.clone();
    println!("rc after clone {} unique {}", e.ref_count(), e.is_unique());
    drop(c);
    println!("rc after drop clone {}", e.ref_count());
    let c2 = e.clone(); drop(c2);
    println!("rc after 2nd drop {}", e.ref_count());
    let r = std::panic::catch_unwind(|| { let e = ZeroCopyEntry::new(Bytes::from_static(b"hello")); e.slice(3..1).is_some() });
    println!("slice(3..1) -> {:?}", r.is_ok());
    let mut zc = ZeroCopyCache::new(4);
    zc.put(1, Bytes::from_static(b"ab"));
    zc.put(2, Bytes::from_static(b"abcdefgh"));
    println!("zcc mem {} len {} max 4", zc.memory_usage(), zc.len());
    let rt = tokio::runtime::Builder::new_current_thread().enable_all().build().unwrap();
    rt.block_on(async {
        let sp = SizedMemoryPool::new();
        for t in [ContentTypeHint::Config, ContentTypeHint::Root, ContentTypeHint::Generic] {
            let b = sp.allocate_for_type(t, 100).await.unwrap();
            sp.deallocate(b).await.unwrap();
            let _b = sp.allocate_for_type(t, 100).await.unwrap();
            let st = sp.get_stats().await.unwrap();
            println!("{:?} reuses {:?} misses {:?}", t, st.reuses_by_type.get(&t), st.misses_by_type.get(&t));
        }
    });
    let np = NgdpMemoryPool::new();
    let b = np.allocate_bytes(100);
    println!("allocate_bytes(100).len() = {}", b.len());
    println!("{}", format_cache_key("a:b", "c") == format_cache_key("a", "b:c"));
}
