//! X02 driver: executes programs on the real CDN streaming components of cascette-protocol
//! (feature `streaming`): range planning (RangeCoalescer, AdvancedRangeCoalescer, HttpRange),
//! retry delays (RetryManager), fail-over bookkeeping (FailoverManager), the recovery loop
//! (ErrorRecoverySystem::execute_with_recovery over a scripted HttpClient, tokio's paused clock)
//! and the connection pool's accounting (ConnectionPool, paused clock).
//!
//! usage: drv_streaming --programs <file> --out <file>
//!        drv_streaming --random N --out <file> [--dump-programs <file>]     (seeded by VERIF_SEED)
//!
//! A program is {"fam":F,"cfg":{..},"ops":[{"op":..,..},..]}; families and their operations:
//!
//!  plan  cfg {impl:"basic"|"adv", thr, max, maxn, bw, shift:"0"|"2p32"|"top", lim}
//!        All offsets in a program are RELATIVE to a base (0, 2^32, or u64::MAX - lim) that the driver adds
//!        before calling the code and subtracts from what comes back (-1 = outside [base, base + 2^30]).
//!        ops  coalesce {reqs:[[s,e]..]}           -> res {kind:"Ok",plan:[[s,e]..]} | {kind:"Err",err} | panic
//!                                                    obs {stats:[processed,coalesced,saved]} (adv)
//!                                                        {eff:[reduction_milli, efficiency_milli]} (basic, Ok)
//!             mk {how:"new"|"ol", a, b}            -> res {kind:"Ok",r:[s,e]} | panic
//!             split {r:[s,e], n}                   -> res {kind:"Ok",parts:[[s,e]..]} | panic
//!  rm    cfg {base_ms, max_ms, jit:"0"|"0.1"|"0.5"|"1", ros:[codes]}
//!        ops  delay {a, cond}                      -> res {kind:"Ok",ms} | panic
//!             retryable {err:{kind,code}}          -> res {kind:"Ok",b}
//!  fo    cfg {servers:[{h,https,prio}..]}
//!        ops  fail {h, err:{kind,code}} | healthy {h} | select {set:[h..]} | cleanup | wait {ms} (real clock)
//!                                                  -> res {kind:"Ok"[,h]}; obs {health:{h:[state,rem_s]},w10:{h:n},stats:[f,r]}
//!  rec   cfg {servers, maxatt, base_ms, max_ms, jit, ros, timeout_ms}
//!        ops  exec {outs:[{kind,code}..], set:[h..], urlhost:h, range:[s,e]|[]}
//!                   -> one {"op":"call",i,t,to,range_ok,o} event per get_range seen by the scripted client, then
//!                      {"op":"exec",..,"res":{kind,id|code},"t":ms,"obs":{srv:{h:[total,failed,w10]},retry:[t,s,f],fo:[f,r]}}
//!             cleanup
//!  pool  cfg {per_host, total}
//!        ops  add {h} | get {h} | drop {g} | record {h, ok} | remove {h} | check {fail:[h..]} | advance {ms} | shutdown
//!                   -> res {kind:"Ok"[,g]} | {kind:"Err",err}; obs {active, mactive, srv:{h:[state,req,succ,fail]}, m:[succ,fail,act,rec,rem]}
//!
//!  cdn   cfg {servers:[{h,prio,beh}..]}   one loopback HTTP/1.1 mock per server (real sockets, real clock), beh one of
//!            ok206 (honours Range) | ok200 (ignores Range, whole resource) | h404 | h429 | h500 | h503 | close (no answer)
//!        ops  get {range:[s,e]|[]}                  ReqwestHttpClient::get_cdn_content over the servers
//!                   -> res {kind:"Ok",body:[byte..],len} | {kind:"Err",err[,server]}; obs {contacted:[h..] in order of arrival, hdr_ok}
//!        The resource is the 32 bytes 00 01 .. 1f.
//!
//! Events (judged by spec/trace/T_Streaming.tla; nothing is decided here):
//!   {"op":"new","fam":F,"cfg":{..}} then one event per operation {"op":..,args..,"seq":n,"res":..,"obs":..}.
use async_trait::async_trait;
use bytes::Bytes;
use cascette_protocol::cdn::streaming::pool::ConnectionGuard;
use cascette_protocol::cdn::streaming::{
    ContentType, ReqwestHttpClient,
    AdvancedRangeCoalescer, BandwidthMonitor, CdnServer, ConnectionPool, ConnectionPoolConfig, ConnectionState,
    ErrorRecoverySystem, FailoverManager, HttpClient, HttpRange, NetworkCondition, RangeCoalescer, RetryConfig,
    RetryManager, ServerHealth, StreamingConfig, StreamingError, StreamingMetrics,
};
use serde_json::{Map, Value, json};
use std::collections::BTreeMap;
use std::sync::atomic::{AtomicBool, AtomicU64, Ordering};
use std::sync::{Arc, Mutex};
use std::time::Duration;
use verif_harness::*;

const WINDOW: u64 = 1 << 30;
const SAT: u64 = 2_000_000_000;

fn sat(x: u64) -> u64 {
    x.min(SAT)
}
fn u(v: &Value, k: &str) -> u64 {
    v[k].as_u64().unwrap_or_else(|| panic!("driver: field {k} missing in {v}"))
}
fn s<'a>(v: &'a Value, k: &str) -> &'a str {
    v[k].as_str().unwrap_or_else(|| panic!("driver: field {k} missing in {v}"))
}

// ------------------------------------------------------------------------------------------------
// plan
// ------------------------------------------------------------------------------------------------
fn plan_base(cfg: &Value) -> u64 {
    match s(cfg, "shift") {
        "0" => 0,
        "2p32" => 1u64 << 32,
        "top" => u64::MAX - u(cfg, "lim"),
        x => panic!("driver: shift {x}"),
    }
}
fn rel(base: u64, v: u64) -> i64 {
    if v >= base && v - base <= WINDOW { (v - base) as i64 } else { -1 }
}
fn rel_ranges(base: u64, rs: &[HttpRange]) -> Value {
    Value::Array(rs.iter().map(|r| json!([rel(base, r.start), rel(base, r.end)])).collect())
}
fn raw_ranges(rs: &[HttpRange]) -> Value {
    Value::Array(rs.iter().take(8).map(|r| json!(format!("{}-{}", r.start, r.end))).collect())
}
fn streaming_cfg(cfg: &Value) -> StreamingConfig {
    StreamingConfig {
        range_coalesce_threshold: u(cfg, "thr"),
        max_range_size: u(cfg, "max"),
        max_ranges_per_request: u(cfg, "maxn") as usize,
        ..StreamingConfig::default()
    }
}
fn err_kind(e: &StreamingError) -> (&'static str, u64) {
    match e {
        StreamingError::NetworkRequest { .. } => ("NetworkRequest", 0),
        StreamingError::HttpClientSetup { .. } => ("HttpClientSetup", 0),
        StreamingError::HttpStatus { status_code, .. } => ("HttpStatus", u64::from(*status_code)),
        StreamingError::RangeNotSupported { .. } => ("RangeNotSupported", 0),
        StreamingError::InvalidRange { .. } => ("InvalidRange", 0),
        StreamingError::MissingContentLength { .. } => ("MissingContentLength", 0),
        StreamingError::Timeout { .. } => ("Timeout", 0),
        StreamingError::ConnectionPoolExhausted { .. } => ("ConnectionPoolExhausted", 0),
        StreamingError::RangeCoalescingFailed { .. } => ("RangeCoalescingFailed", 0),
        StreamingError::BufferOverflow { .. } => ("BufferOverflow", 0),
        StreamingError::ArchiveFormat { .. } => ("ArchiveFormat", 0),
        StreamingError::Io { .. } => ("Io", 0),
        StreamingError::Configuration { .. } => ("Configuration", 0),
        StreamingError::CdnFailover { .. } => ("CdnFailover", 0),
        StreamingError::AllCdnServersFailed { .. } => ("AllCdnServersFailed", 0),
        StreamingError::CdnPathNotCached { .. } => ("CdnPathNotCached", 0),
        StreamingError::CdnPathResolution { .. } => ("CdnPathResolution", 0),
        StreamingError::InvalidHashFormat { .. } => ("InvalidHashFormat", 0),
        StreamingError::CdnRegionUnavailable { .. } => ("CdnRegionUnavailable", 0),
        StreamingError::RateLimitExceeded { .. } => ("RateLimitExceeded", 0),
        StreamingError::ContentVerificationFailed { .. } => ("ContentVerificationFailed", 0),
        StreamingError::MirrorSyncLag { .. } => ("MirrorSyncLag", 0),
        StreamingError::BlteError { .. } => ("BlteError", 0),
        StreamingError::ServerUnavailable { .. } => ("ServerUnavailable", 0),
        StreamingError::ConnectionLimit { .. } => ("ConnectionLimit", 0),
    }
}
fn make_err(o: &Value, tag: &str) -> StreamingError {
    let code = o["code"].as_u64().unwrap_or(0) as u16;
    let t = tag.to_string();
    match s(o, "kind") {
        "Timeout" | "Hang" => StreamingError::Timeout { timeout_ms: 1, url: t },
        "HttpStatus" => StreamingError::HttpStatus { status_code: code, url: t },
        "ServerUnavailable" => StreamingError::ServerUnavailable { server: t, reason: "scripted".into() },
        "ConnectionLimit" => StreamingError::ConnectionLimit { server: t, limit: 1 },
        "ConnectionPoolExhausted" => StreamingError::ConnectionPoolExhausted { reason: t },
        "RateLimitExceeded" => StreamingError::RateLimitExceeded { url: t, retry_after_ms: 10 },
        "MirrorSyncLag" => StreamingError::MirrorSyncLag { mirror: t, hash: "00".into() },
        "CdnFailover" => StreamingError::CdnFailover {
            server: t.clone(),
            source: Box::new(StreamingError::Timeout { timeout_ms: 1, url: t }),
        },
        "InvalidRange" => StreamingError::InvalidRange { reason: t },
        "Configuration" => StreamingError::Configuration { reason: t },
        "MissingContentLength" => StreamingError::MissingContentLength { url: t },
        "RangeNotSupported" => StreamingError::RangeNotSupported { url: t },
        "RangeCoalescingFailed" => StreamingError::RangeCoalescingFailed { reason: t },
        "BufferOverflow" => StreamingError::BufferOverflow { buffer_size: 1 },
        "AllCdnServersFailed" => StreamingError::AllCdnServersFailed { attempts: 1, last_server: t, last_error: "x".into() },
        "CdnPathNotCached" => StreamingError::CdnPathNotCached { product: t },
        "CdnPathResolution" => StreamingError::CdnPathResolution { product: t, reason: "x".into() },
        "InvalidHashFormat" => StreamingError::InvalidHashFormat { hash: t },
        "CdnRegionUnavailable" => StreamingError::CdnRegionUnavailable { region: t, reason: "x".into() },
        "ContentVerificationFailed" => StreamingError::ContentVerificationFailed { expected: t, actual: "x".into() },
        "Io" => StreamingError::Io { source: std::io::Error::other(t) },
        "Beyond" => StreamingError::Configuration { reason: format!("beyond {t}") },
        other => panic!("driver: unknown error kind {other}"),
    }
}

fn milli(x: f64) -> i64 {
    if x.is_nan() { -999_999 } else { (x * 1000.0).round().clamp(-1.0e9, 1.0e9) as i64 }
}

fn run_plan(p: &Value, em: &Emit) {
    let cfg = &p["cfg"];
    let base = plan_base(cfg);
    let adv = s(cfg, "impl") == "adv";
    let sc = streaming_cfg(cfg);
    let basic = RangeCoalescer::new(sc.clone());
    let mon = Arc::new(BandwidthMonitor::new(Duration::from_secs(60)));
    let bw = cfg["bw"].as_u64().unwrap_or(0);
    if bw > 0 {
        rt().block_on(mon.record_sample(bw, Duration::from_secs(1)));
    }
    let advc = AdvancedRangeCoalescer::new(sc, mon.clone());
    em.ev(json!({"op": "new", "fam": "plan", "cfg": cfg, "valid": streaming_cfg(cfg).validate().is_ok(),
                 "bw_seen": sat(mon.current_bandwidth())}));
    let mut seq = 0u64;
    for op in p["ops"].as_array().expect("ops") {
        em.begin(op);
        seq += 1;
        let mut ev = op.as_object().expect("op object").clone();
        ev.insert("seq".into(), json!(seq));
        match s(op, "op") {
            "coalesce" => {
                // the requested ranges are built from their fields: constructor contracts are exercised by "mk"
                let reqs: Vec<HttpRange> = op["reqs"]
                    .as_array()
                    .expect("reqs")
                    .iter()
                    .map(|r| HttpRange { start: base + r[0].as_u64().expect("s"), end: base + r[1].as_u64().expect("e") })
                    .collect();
                let r = guarded(|| if adv { advc.coalesce_ranges(reqs.clone()) } else { basic.coalesce(reqs.clone()) });
                let mut obs = Map::new();
                let res = match &r {
                    Ok(Ok(plan)) => {
                        if !adv && !plan.is_empty() && !reqs.is_empty() {
                            let e = guarded(|| basic.efficiency_gain(&reqs, plan));
                            obs.insert("eff".into(), match e {
                                Ok((a, b)) => json!([milli(a), milli(b)]),
                                Err(m) => json!({"panic": m.chars().take(120).collect::<String>()}),
                            });
                        }
                        json!({"kind": "Ok", "plan": rel_ranges(base, plan), "n": plan.len(), "raw": raw_ranges(plan)})
                    }
                    Ok(Err(e)) => json!({"kind": "Err", "err": err_kind(e).0}),
                    Err(m) => json!({"kind": "panic", "msg": m.chars().take(200).collect::<String>()}),
                };
                if adv {
                    let (a, b, c) = advc.statistics();
                    obs.insert("stats".into(), json!([sat(a), sat(b), sat(c)]));
                }
                ev.insert("res".into(), res);
                ev.insert("obs".into(), Value::Object(obs));
            }
            "mk" => {
                let (a, b) = (u(op, "a"), u(op, "b"));
                let how = s(op, "how").to_string();
                let r = guarded(|| if how == "new" { HttpRange::new(base + a, base + b) } else { HttpRange::from_offset_length(base + a, b) });
                ev.insert("res".into(), match r {
                    Ok(r) => json!({"kind": "Ok", "r": [rel(base, r.start), rel(base, r.end)], "len": guarded(|| r.length()).map_or(-1, |l| sat(l) as i64)}),
                    Err(m) => json!({"kind": "panic", "msg": m.chars().take(200).collect::<String>()}),
                });
            }
            "split" => {
                let r = HttpRange { start: base + op["r"][0].as_u64().expect("s"), end: base + op["r"][1].as_u64().expect("e") };
                let n = u(op, "n");
                let out = guarded(|| r.split(n));
                ev.insert("res".into(), match out {
                    Ok(parts) => json!({"kind": "Ok", "parts": rel_ranges(base, &parts)}),
                    Err(m) => json!({"kind": "panic", "msg": m.chars().take(200).collect::<String>()}),
                });
            }
            other => panic!("driver: plan op {other}"),
        }
        em.ev(Value::Object(ev));
    }
}

// ------------------------------------------------------------------------------------------------
// rm
// ------------------------------------------------------------------------------------------------
fn retry_cfg(cfg: &Value) -> RetryConfig {
    RetryConfig {
        max_attempts: cfg["maxatt"].as_u64().unwrap_or(3) as u32,
        base_delay: dur_ms(cfg, "base_ms"),
        max_delay: dur_ms(cfg, "max_ms"),
        jitter_factor: s(cfg, "jit").parse::<f64>().expect("jit token"),
        retry_on_status: cfg["ros"].as_array().expect("ros").iter().map(|c| c.as_u64().expect("code") as u16).collect(),
    }
}
/// -2 = the largest Duration
fn dur_ms(cfg: &Value, k: &str) -> Duration {
    let v = cfg[k].as_i64().unwrap_or_else(|| panic!("driver: {k}"));
    if v == -2 { Duration::MAX } else { Duration::from_millis(v as u64) }
}
fn cond_of(c: &str) -> NetworkCondition {
    match c {
        "Excellent" => NetworkCondition::Excellent,
        "Good" => NetworkCondition::Good,
        "Fair" => NetworkCondition::Fair,
        "Poor" => NetworkCondition::Poor,
        "VeryPoor" => NetworkCondition::VeryPoor,
        x => panic!("driver: cond {x}"),
    }
}
fn run_rm(p: &Value, em: &Emit) {
    let cfg = &p["cfg"];
    let rm = RetryManager::new(retry_cfg(cfg));
    em.ev(json!({"op": "new", "fam": "rm", "cfg": cfg}));
    let mut seq = 0u64;
    for op in p["ops"].as_array().expect("ops") {
        em.begin(op);
        seq += 1;
        let mut ev = op.as_object().expect("op").clone();
        ev.insert("seq".into(), json!(seq));
        match s(op, "op") {
            "delay" => {
                let a = u(op, "a") as u32;
                let c = cond_of(s(op, "cond"));
                let r = guarded(|| rm.calculate_delay(a, c));
                ev.insert("res".into(), match r {
                    Ok(d) => json!({"kind": "Ok", "ms": sat(d.as_millis().min(u128::from(SAT)) as u64)}),
                    Err(m) => json!({"kind": "panic", "msg": m.chars().take(200).collect::<String>()}),
                });
            }
            "retryable" => {
                let e = make_err(&op["err"], "x");
                let r = guarded(|| rm.is_retryable(&e));
                ev.insert("res".into(), match r {
                    Ok(b) => json!({"kind": "Ok", "b": b, "self": e.is_retryable()}),
                    Err(m) => json!({"kind": "panic", "msg": m}),
                });
            }
            other => panic!("driver: rm op {other}"),
        }
        em.ev(Value::Object(ev));
    }
}

// ------------------------------------------------------------------------------------------------
// fo
// ------------------------------------------------------------------------------------------------
fn servers_of(cfg: &Value) -> Vec<CdnServer> {
    cfg["servers"]
        .as_array()
        .expect("servers")
        .iter()
        .map(|x| CdnServer::new(s(x, "h").to_string(), x["https"].as_bool().unwrap_or(true), u(x, "prio") as u32))
        .collect()
}
fn subset(all: &[CdnServer], set: &Value) -> Vec<CdnServer> {
    set.as_array()
        .expect("set")
        .iter()
        .map(|h| {
            let h = h.as_str().expect("host");
            all.iter().find(|x| x.host == h).cloned().unwrap_or_else(|| CdnServer::https(h.to_string()))
        })
        .collect()
}
fn w10(w: f64) -> i64 {
    if w.is_nan() { -1 } else { (w * 10.0).round().min(2.0e9) as i64 }
}
async fn fo_obs(fm: &FailoverManager, all: &[CdnServer]) -> Value {
    let mut health = Map::new();
    let now = std::time::Instant::now();
    for sv in all {
        let h = fm.get_server_health(&sv.host).await;
        health.insert(sv.host.clone(), match h {
            ServerHealth::Healthy => json!(["H", 0]),
            ServerHealth::Degraded { .. } => json!(["D", 0]),
            ServerHealth::Unavailable { until } => json!(["U", until.saturating_duration_since(now).as_secs()]),
        });
    }
    let m = fm.get_all_metrics().await;
    let mut w = Map::new();
    for sv in all {
        w.insert(sv.host.clone(), json!(m.get(&sv.host).map_or(0, |x| w10(x.total_failure_weight))));
    }
    let (f, r) = fm.statistics();
    json!({"health": health, "w10": w, "stats": [sat(f), sat(r)]})
}
fn run_fo(p: &Value, em: &Emit) {
    let cfg = &p["cfg"];
    let all = servers_of(cfg);
    let fm = FailoverManager::new(StreamingConfig::default());
    em.ev(json!({"op": "new", "fam": "fo", "cfg": cfg}));
    let rt = rt();
    let mut seq = 0u64;
    for op in p["ops"].as_array().expect("ops") {
        em.begin(op);
        seq += 1;
        let mut ev = op.as_object().expect("op").clone();
        ev.insert("seq".into(), json!(seq));
        let r = guarded(|| {
            rt.block_on(async {
                match s(op, "op") {
                    "fail" => {
                        fm.mark_server_failed(s(op, "h"), &make_err(&op["err"], "x")).await;
                        json!({"kind": "Ok"})
                    }
                    "healthy" => {
                        fm.mark_server_healthy(s(op, "h")).await;
                        json!({"kind": "Ok"})
                    }
                    "select" => {
                        let set = subset(&all, &op["set"]);
                        match fm.select_best_server(&set).await {
                            Some(x) => json!({"kind": "Ok", "h": x.host}),
                            None => json!({"kind": "Ok", "h": "none"}),
                        }
                    }
                    "cleanup" => {
                        fm.cleanup_expired().await;
                        json!({"kind": "Ok"})
                    }
                    "wait" => {
                        std::thread::sleep(Duration::from_millis(u(op, "ms")));
                        json!({"kind": "Ok"})
                    }
                    other => panic!("driver: fo op {other}"),
                }
            })
        });
        ev.insert("res".into(), r.unwrap_or_else(|m| json!({"kind": "panic", "msg": m.chars().take(200).collect::<String>()})));
        ev.insert("obs".into(), rt.block_on(fo_obs(&fm, &all)));
        em.ev(Value::Object(ev));
    }
}

// ------------------------------------------------------------------------------------------------
// rec
// ------------------------------------------------------------------------------------------------
struct Scripted {
    script: Mutex<Vec<Value>>,
    n: AtomicU64,
    log: Mutex<Vec<Value>>,
    t0: Mutex<tokio::time::Instant>,
    want_range: Mutex<Option<HttpRange>>,
}
fn host_of(url: &str) -> String {
    url.split("://").nth(1).unwrap_or("").split('/').next().unwrap_or("").to_string()
}
#[async_trait]
impl HttpClient for Scripted {
    async fn get_range(&self, url: &str, range: Option<HttpRange>) -> Result<Bytes, StreamingError> {
        let i = self.n.fetch_add(1, Ordering::SeqCst) + 1;
        let (o, len) = {
            let sc = self.script.lock().expect("script");
            (sc.get(i as usize - 1).cloned().unwrap_or_else(|| json!({"kind": "Beyond", "code": 0})), sc.len() as u64)
        };
        // a runaway loop of the code under test must end: recorded as a panic of the run
        assert!(i <= len + 8, "driver: more than script+8 attempts (runaway retry loop)");
        let t = tokio::time::Instant::now().duration_since(*self.t0.lock().expect("t0")).as_millis() as u64;
        let range_ok = range == *self.want_range.lock().expect("range");
        self.log.lock().expect("log").push(json!({"op": "call", "i": i, "t": sat(t), "to": host_of(url), "range_ok": range_ok, "o": o}));
        match s(&o, "kind") {
            "Ok" => Ok(Bytes::from(format!("c{i}"))),
            "Hang" => std::future::pending().await,
            "Slow" => {
                tokio::time::sleep(Duration::from_millis(u(&o, "ms"))).await;
                Ok(Bytes::from(format!("c{i}")))
            }
            _ => Err(make_err(&o, &format!("c{i}"))),
        }
    }
    async fn get_content_length(&self, _url: &str) -> Result<u64, StreamingError> {
        Ok(0)
    }
    async fn supports_ranges(&self, _url: &str) -> Result<bool, StreamingError> {
        Ok(true)
    }
}
fn run_rec(p: &Value, em: &Emit) {
    let cfg = &p["cfg"];
    let all = servers_of(cfg);
    let mut sc = StreamingConfig::default();
    sc.retry = retry_cfg(cfg);
    sc.request_timeout = Duration::from_millis(u(cfg, "timeout_ms"));
    em.ev(json!({"op": "new", "fam": "rec", "cfg": cfg, "valid": sc.validate().is_ok()}));
    let rt = tokio::runtime::Builder::new_current_thread().enable_time().start_paused(true).build().expect("paused runtime");
    let client = Arc::new(Scripted {
        script: Mutex::new(Vec::new()),
        n: AtomicU64::new(0),
        log: Mutex::new(Vec::new()),
        t0: Mutex::new(rt.block_on(async { tokio::time::Instant::now() })),
        want_range: Mutex::new(None),
    });
    let sys = ErrorRecoverySystem::new(client.clone(), sc, Arc::new(StreamingMetrics::new()));
    let mut seq = 0u64;
    for op in p["ops"].as_array().expect("ops") {
        em.begin(op);
        let mut ev = op.as_object().expect("op").clone();
        match s(op, "op") {
            "exec" => {
                let set = subset(&all, &op["set"]);
                let url = format!("http://{}/tpr/x/data/ab/cd/abcd", s(op, "urlhost"));
                let range = op["range"].as_array().filter(|r| r.len() == 2).map(|r| HttpRange { start: r[0].as_u64().expect("s"), end: r[1].as_u64().expect("e") });
                *client.script.lock().expect("script") = op["outs"].as_array().expect("outs").clone();
                client.n.store(0, Ordering::SeqCst);
                *client.want_range.lock().expect("range") = range;
                let r = guarded(|| {
                    rt.block_on(async {
                        let t0 = tokio::time::Instant::now();
                        *client.t0.lock().expect("t0") = t0;
                        let r = sys.execute_with_recovery(url.clone(), range, set.clone(), None).await;
                        (r, tokio::time::Instant::now().duration_since(t0).as_millis() as u64)
                    })
                });
                for c in client.log.lock().expect("log").drain(..) {
                    seq += 1;
                    let mut c = c.as_object().expect("call").clone();
                    c.insert("seq".into(), json!(seq));
                    em.ev(Value::Object(c));
                }
                let (res, t) = match r {
                    Ok((Ok(b), t)) => {
                        let txt = String::from_utf8_lossy(&b).to_string();
                        (json!({"kind": "Ok", "id": txt.trim_start_matches('c').parse::<u64>().unwrap_or(0)}), t)
                    }
                    Ok((Err(e), t)) => {
                        let (k, c) = err_kind(&e);
                        (json!({"kind": "Err", "err": k, "code": c, "beyond": e.to_string().contains("beyond")}), t)
                    }
                    Err(m) => (json!({"kind": "panic", "msg": m.chars().take(200).collect::<String>()}), 0),
                };
                ev.insert("res".into(), res);
                ev.insert("t".into(), json!(sat(t)));
            }
            "cleanup" => {
                let r = guarded(|| rt.block_on(sys.cleanup()));
                ev.insert("res".into(), r.map_or_else(|m| json!({"kind": "panic", "msg": m}), |()| json!({"kind": "Ok"})));
            }
            other => panic!("driver: rec op {other}"),
        }
        seq += 1;
        ev.insert("seq".into(), json!(seq));
        let st = rt.block_on(sys.statistics());
        let mut srv = Map::new();
        for sv in &all {
            let m = st.server_metrics.get(&sv.host);
            srv.insert(sv.host.clone(), json!([m.map_or(0, |x| sat(x.total_requests)), m.map_or(0, |x| sat(x.failed_requests)),
                                               m.map_or(0, |x| w10(x.total_failure_weight))]));
        }
        ev.insert("obs".into(), json!({"srv": srv, "retry": [sat(st.retry_total), sat(st.retry_successful), sat(st.retry_failed)],
                                        "fo": [sat(st.failover_count), sat(st.recovery_count)]}));
        em.ev(Value::Object(ev));
    }
}

// ------------------------------------------------------------------------------------------------
// pool
// ------------------------------------------------------------------------------------------------
struct Probe {
    fail: Arc<AtomicBool>,
}
#[async_trait]
impl HttpClient for Probe {
    async fn get_range(&self, _url: &str, _range: Option<HttpRange>) -> Result<Bytes, StreamingError> {
        Ok(Bytes::new())
    }
    async fn get_content_length(&self, url: &str) -> Result<u64, StreamingError> {
        if self.fail.load(Ordering::SeqCst) { Err(StreamingError::HttpStatus { status_code: 503, url: url.to_string() }) } else { Ok(1) }
    }
    async fn supports_ranges(&self, _url: &str) -> Result<bool, StreamingError> {
        Ok(true)
    }
}
fn run_pool(p: &Value, em: &Emit) {
    let cfg = &p["cfg"];
    let pc = ConnectionPoolConfig {
        max_total_connections: u(cfg, "total") as usize,
        max_connections_per_host: u(cfg, "per_host") as usize,
        ..ConnectionPoolConfig::default()
    };
    em.ev(json!({"op": "new", "fam": "pool", "cfg": cfg}));
    let rt = tokio::runtime::Builder::new_current_thread().enable_time().start_paused(true).build().expect("paused runtime");
    let hosts: Vec<String> = cfg["hosts"].as_array().expect("hosts").iter().map(|h| h.as_str().expect("h").to_string()).collect();
    let flags: BTreeMap<String, Arc<AtomicBool>> = hosts.iter().map(|h| (h.clone(), Arc::new(AtomicBool::new(false)))).collect();
    let pool: ConnectionPool<Probe> = rt.block_on(async { ConnectionPool::new(pc) });
    let mut guards: BTreeMap<u64, ConnectionGuard> = BTreeMap::new();
    let mut next_g = 0u64;
    let mut seq = 0u64;
    for op in p["ops"].as_array().expect("ops") {
        em.begin(op);
        seq += 1;
        let mut ev = op.as_object().expect("op").clone();
        ev.insert("seq".into(), json!(seq));
        let srv = |h: &str| CdnServer::https(h.to_string());
        let r = guarded(|| {
            rt.block_on(async {
                match s(op, "op") {
                    "add" => {
                        let h = s(op, "h");
                        pool.add_client(&srv(h), Probe { fail: flags[h].clone() });
                        json!({"kind": "Ok"})
                    }
                    "get" => match pool.get_client(&srv(s(op, "h"))).await {
                        Ok((_c, g)) => {
                            next_g += 1;
                            guards.insert(next_g, g);
                            json!({"kind": "Ok", "g": next_g})
                        }
                        Err(e) => json!({"kind": "Err", "err": err_kind(&e).0}),
                    },
                    "drop" => {
                        let had = guards.remove(&u(op, "g")).is_some();
                        json!({"kind": "Ok", "had": had})
                    }
                    "record" => {
                        pool.record_result(&srv(s(op, "h")), op["ok"].as_bool().expect("ok"), Duration::from_millis(10)).await;
                        json!({"kind": "Ok"})
                    }
                    "remove" => {
                        pool.remove_server(&srv(s(op, "h"))).await;
                        json!({"kind": "Ok"})
                    }
                    "check" => {
                        let failing: Vec<&str> = op["fail"].as_array().expect("fail").iter().map(|x| x.as_str().expect("h")).collect();
                        for (h, f) in &flags {
                            f.store(failing.contains(&h.as_str()), Ordering::SeqCst);
                        }
                        match pool.health_check("http://x/health").await {
                            Ok(()) => json!({"kind": "Ok"}),
                            Err(e) => json!({"kind": "Err", "err": err_kind(&e).0}),
                        }
                    }
                    "advance" => {
                        tokio::time::sleep(Duration::from_millis(u(op, "ms"))).await;
                        json!({"kind": "Ok"})
                    }
                    "wait" => {
                        std::thread::sleep(Duration::from_millis(u(op, "ms")));
                        json!({"kind": "Ok"})
                    }
                    "shutdown" => {
                        pool.shutdown().await;
                        json!({"kind": "Ok"})
                    }
                    other => panic!("driver: pool op {other}"),
                }
            })
        });
        ev.insert("res".into(), r.unwrap_or_else(|m| json!({"kind": "panic", "msg": m.chars().take(200).collect::<String>()})));
        let obs = rt.block_on(async {
            let mut srvs = Map::new();
            for h in &hosts {
                let st = pool.get_stats(&srv(h)).await;
                srvs.insert(h.clone(), match st {
                    None => json!(["-", 0, 0, 0]),
                    Some(x) => json!([match x.state {
                        ConnectionState::Healthy => "H",
                        ConnectionState::CircuitOpen { .. } => "O",
                        ConnectionState::Checking => "C",
                        ConnectionState::Removed => "R",
                    }, sat(x.requests), sat(x.successes), sat(x.failures)]),
                });
            }
            let m = pool.metrics();
            json!({"active": sat(pool.active_request_count() as u64), "mactive": sat(m.active_connections.load(Ordering::SeqCst)),
                   "live": guards.len(), "srv": srvs,
                   "m": [sat(m.total_successful_requests.load(Ordering::SeqCst)), sat(m.total_failed_requests.load(Ordering::SeqCst)),
                         sat(m.circuit_breakers_activated.load(Ordering::SeqCst)), sat(m.circuit_breakers_recovered.load(Ordering::SeqCst)),
                         sat(m.servers_removed.load(Ordering::SeqCst))]})
        });
        ev.insert("obs".into(), obs);
        em.ev(Value::Object(ev));
    }
    drop(guards);
    drop(pool);
}

// ------------------------------------------------------------------------------------------------
// cdn: ReqwestHttpClient::get_cdn_content against loopback mocks
// ------------------------------------------------------------------------------------------------
const RES_LEN: usize = 32;
struct Hit {
    srv: String,
    range: Option<(u64, u64)>,
    path_ok: bool,
}
fn serve_one(mut c: std::net::TcpStream, name: &str, beh: &str, hits: &Mutex<Vec<Hit>>) {
    use std::io::{Read, Write};
    let _ = c.set_read_timeout(Some(Duration::from_secs(5)));
    let mut buf = Vec::new();
    let mut tmp = [0u8; 1024];
    while !buf.windows(4).any(|w| w == b"\r\n\r\n") {
        match c.read(&mut tmp) {
            Ok(0) | Err(_) => return,
            Ok(n) => buf.extend_from_slice(&tmp[..n]),
        }
        if buf.len() > 65536 {
            return;
        }
    }
    let text = String::from_utf8_lossy(&buf).to_string();
    let mut lines = text.split("\r\n");
    let reqline = lines.next().unwrap_or("");
    let mut range = None;
    for l in lines {
        if let Some((k, v)) = l.split_once(':')
            && k.trim().eq_ignore_ascii_case("range")
            && let Some(spec) = v.trim().strip_prefix("bytes=")
            && let Some((a, b)) = spec.split_once('-')
            && let (Ok(a), Ok(b)) = (a.trim().parse::<u64>(), b.trim().parse::<u64>())
        {
            range = Some((a, b));
        }
    }
    hits.lock().expect("hits").push(Hit {
        srv: name.to_string(),
        range,
        path_ok: reqline.starts_with("GET /tpr/wow/data/01/23/0123456789abcdef0123456789abcdef "),
    });
    let res: Vec<u8> = (0..RES_LEN as u8).collect();
    let (code, body): (u16, Vec<u8>) = match beh {
        "ok206" => match range {
            Some((a, b)) if (a as usize) < RES_LEN && a <= b => (206, res[a as usize..=(b as usize).min(RES_LEN - 1)].to_vec()),
            Some(_) => (416, Vec::new()),
            None => (200, res),
        },
        "ok200" => (200, res),
        "h404" => (404, b"nf".to_vec()),
        "h429" => (429, b"slow".to_vec()),
        "h500" => (500, b"err".to_vec()),
        "h503" => (503, b"busy".to_vec()),
        "close" => return,
        other => panic!("driver: cdn behaviour {other}"),
    };
    let mut head = format!("HTTP/1.1 {code} X\r\nContent-Length: {}\r\nConnection: close\r\n", body.len());
    if code == 206 && let Some((a, _)) = range {
        head += &format!("Content-Range: bytes {}-{}/{}\r\n", a, a as usize + body.len() - 1, RES_LEN);
    }
    head += "\r\n";
    let _ = c.write_all(head.as_bytes());
    let _ = c.write_all(&body);
    let _ = c.flush();
}
fn spawn_mock(name: String, beh: String, hits: Arc<Mutex<Vec<Hit>>>, stop: Arc<AtomicBool>) -> u16 {
    let l = std::net::TcpListener::bind("127.0.0.1:0").expect("bind mock");
    let port = l.local_addr().expect("addr").port();
    l.set_nonblocking(true).expect("nonblocking");
    std::thread::spawn(move || {
        while !stop.load(Ordering::SeqCst) {
            match l.accept() {
                Ok((c, _)) => {
                    let _ = c.set_nonblocking(false);
                    serve_one(c, &name, &beh, &hits);
                }
                Err(_) => std::thread::sleep(Duration::from_millis(1)),
            }
        }
    });
    port
}
fn run_cdn(p: &Value, em: &Emit) {
    let cfg = &p["cfg"];
    em.ev(json!({"op": "new", "fam": "cdn", "cfg": cfg}));
    let hits: Arc<Mutex<Vec<Hit>>> = Arc::new(Mutex::new(Vec::new()));
    let stop = Arc::new(AtomicBool::new(false));
    let mut servers = Vec::new();
    for sv in cfg["servers"].as_array().expect("servers") {
        let port = spawn_mock(s(sv, "h").to_string(), s(sv, "beh").to_string(), hits.clone(), stop.clone());
        servers.push(CdnServer::new(format!("127.0.0.1:{port}"), false, u(sv, "prio") as u32));
    }
    let names: BTreeMap<String, String> = servers
        .iter()
        .zip(cfg["servers"].as_array().expect("servers"))
        .map(|(c, v)| (c.host.clone(), s(v, "h").to_string()))
        .collect();
    let sc = StreamingConfig { request_timeout: Duration::from_secs(10), connect_timeout: Duration::from_secs(5), ..StreamingConfig::default() };
    let rt = rt();
    let mut client = ReqwestHttpClient::with_cdn_servers(sc, servers).expect("client");
    client.cache_cdn_path("wow".to_string(), "tpr/wow".to_string());
    let mut seq = 0u64;
    for op in p["ops"].as_array().expect("ops") {
        em.begin(op);
        seq += 1;
        let mut ev = op.as_object().expect("op").clone();
        ev.insert("seq".into(), json!(seq));
        let range = op["range"].as_array().filter(|r| r.len() == 2).map(|r| HttpRange { start: r[0].as_u64().expect("s"), end: r[1].as_u64().expect("e") });
        hits.lock().expect("hits").clear();
        let r = guarded(|| rt.block_on(client.get_cdn_content("wow", ContentType::Data, "0123456789abcdef0123456789abcdef", range, false)));
        ev.insert("res".into(), match r {
            Ok(Ok(b)) => json!({"kind": "Ok", "body": b.iter().take(64).map(|x| u64::from(*x)).collect::<Vec<_>>(), "len": b.len()}),
            Ok(Err(e)) => {
                let server = match &e {
                    StreamingError::CdnFailover { server, .. } => names.get(server).cloned().unwrap_or_else(|| "?".into()),
                    _ => "-".into(),
                };
                json!({"kind": "Err", "err": err_kind(&e).0, "server": server})
            }
            Err(m) => json!({"kind": "panic", "msg": m.chars().take(200).collect::<String>()}),
        });
        let want = range.map(|r| (r.start, r.end));
        let h = hits.lock().expect("hits");
        ev.insert("obs".into(), json!({"contacted": h.iter().map(|x| x.srv.clone()).collect::<Vec<_>>(),
                                        "hdr_ok": h.iter().all(|x| x.range == want && x.path_ok)}));
        drop(h);
        em.ev(Value::Object(ev));
    }
    stop.store(true, Ordering::SeqCst);
}

// ------------------------------------------------------------------------------------------------
// seeded random programs (large numbers, long histories)
// ------------------------------------------------------------------------------------------------
fn rand_range(r: &mut Rng, hull: u64) -> Value {
    let a = r.below(hull);
    let len = match r.below(4) {
        0 => 1,
        1 => 1 + r.below(16),
        2 => 1 + r.below(5000),
        _ => 1 + r.below(hull / 2 + 1),
    };
    json!([a, (a + len - 1).min(hull - 1)])
}
fn random_program(r: &mut Rng) -> Value {
    match r.below(10) {
        0..=5 => {
            let hull = *r.pick(&[64u64, 4096, 1 << 20, 1 << 24]);
            let thr = *r.pick(&[0u64, 1, 16, 1024, 65536]);
            let max = thr.max(*r.pick(&[1u64, 7, 4096, 1 << 20, 10 << 20]));
            let maxn = *r.pick(&[1u64, 2, 6, 64]);
            let shift = *r.pick(&["0", "0", "2p32", "top", "top"]);
            let imp = *r.pick(&["basic", "adv"]);
            let bw = if imp == "adv" && r.chance(1, 4) { *r.pick(&[1u64 << 19, 5 << 20, 20 << 20, 100 << 20]) } else { 0 };
            let mut ops = Vec::new();
            for _ in 0..1 + r.below(4) {
                let n = r.below(7);
                let reqs: Vec<Value> = (0..n).map(|_| rand_range(r, hull)).collect();
                ops.push(json!({"op": "coalesce", "reqs": reqs}));
            }
            let lim = hull - 1 + r.below(2);
            json!({"fam": "plan", "cfg": {"impl": imp, "thr": thr, "max": max, "maxn": maxn, "bw": bw, "shift": shift, "lim": lim}, "ops": ops})
        }
        6..=7 => {
            let base = *r.pick(&[0i64, 1, 100, 250, 1000]);
            let max = *r.pick(&[0i64, 100, 1000, 30000]);
            let jit = *r.pick(&["0", "0.1", "0.5", "1"]);
            let conds = ["Excellent", "Good", "Fair", "Poor", "VeryPoor"];
            let ops: Vec<Value> = (0..6).map(|_| json!({"op": "delay", "a": r.below(12), "cond": *r.pick(&conds)})).collect();
            json!({"fam": "rm", "cfg": {"base_ms": base, "max_ms": max, "jit": jit, "ros": [429, 500, 502, 503, 504]}, "ops": ops})
        }
        _ => {
            let hosts = ["a", "b", "c"];
            let per = 1 + r.below(3);
            let mut ops = vec![json!({"op": "add", "h": "a"}), json!({"op": "add", "h": "b"})];
            let mut issued = 0u64;
            for _ in 0..40 {
                ops.push(match r.below(10) {
                    0..=3 => {
                        issued += 1;
                        json!({"op": "get", "h": *r.pick(&hosts)})
                    }
                    4..=6 => json!({"op": "drop", "g": 1 + r.below(issued.max(1))}),
                    7..=8 => json!({"op": "record", "h": *r.pick(&hosts), "ok": r.chance(1, 3)}),
                    _ => json!({"op": "advance", "ms": 31000}),
                });
            }
            json!({"fam": "pool", "cfg": {"per_host": per, "total": 10, "hosts": hosts}, "ops": ops})
        }
    }
}

fn main() {
    quiet_panics();
    // the mocks are on loopback: no proxy may be consulted
    for v in ["http_proxy", "https_proxy", "HTTP_PROXY", "HTTPS_PROXY", "all_proxy", "ALL_PROXY"] {
        // SAFETY: single-threaded at this point
        unsafe { std::env::remove_var(v) };
    }
    let args: Vec<String> = std::env::args().collect();
    let mut out = Out::from_arg(arg(&args, "--out").as_ref());
    let programs = if let Some(p) = arg(&args, "--programs") {
        read_programs(&p)
    } else {
        let n = arg_u64(&args, "--random", 100);
        let mut r = Rng::new(seed_from_env());
        let ps: Vec<Value> = (0..n).map(|_| random_program(&mut r)).collect();
        if let Some(d) = arg(&args, "--dump-programs") {
            let mut f = std::fs::File::create(d).expect("dump");
            for p in &ps {
                use std::io::Write;
                writeln!(f, "{p}").expect("dump");
            }
        }
        ps
    };
    let patience = Duration::from_secs(arg_u64(&args, "--patience", 30));
    let stats = run_with_watchdog(programs, &mut out, patience, |p, em| match s(p, "fam") {
        "plan" => run_plan(p, em),
        "rm" => run_rm(p, em),
        "fo" => run_fo(p, em),
        "rec" => run_rec(p, em),
        "pool" => run_pool(p, em),
        "cdn" => run_cdn(p, em),
        other => panic!("driver: unknown family {other}"),
    });
    out.flush();
    eprintln!("{}", json!({"programs": stats.programs, "events": out.events, "hangs": stats.hangs, "skipped": stats.skipped}));
    if stats.skipped > 0 {
        std::process::exit(3);
    }
}
