//! C15 driver: runs the real `cascette-ribbit` server (library entry points `Server::new` for loading, then
//! `tcp::start_server` + `http::start_server`, the two tasks `Server::run` spawns) on loopback ports and talks to it with this project's own clients (`RibbitClient` for TCP v1/v2 incl. the
//! V1 MIME checksum verification, `TactClient` for HTTP) and, for malformed requests, with raw sockets.
//!
//! usage: drv_ribbit --programs <file|-> --out <file|-> [--par N] [--big BYTES] [--flood]
//!   --par N     programs run concurrently (each has its own server, ports and server threads `srv-<index>`)
//!   --big BYTES length of the oversized request line
//!   --flood     family "flood" (one program at a time): while a connection group of n sockets is open, the soft limit
//!               on open descriptors is what is open already + n for the client ends + n/2 for the server: the
//!               clients always get their sockets, the server's accept() runs into EMFILE after n/2 connections
//!
//! Program (one JSON object per line, produced by TLC from spec/mc/MC_Ribbit.tla):
//!   {"fam":"fields",
//!    "cfg":{"hosts":"cdn.example.com","path":"tpr/wow"},
//!    "db":[{"id":1,"product":"wow","version":"1.0|x","build":"42","bc":"<32 hex>","cc":"<32 hex>",
//!           "keyring":[]|["<s>"],"pc":[]|["<32 hex>"],"time":"2024-01-01T00:00:00+00:00","cdn_path":[]|["<s>"]}, ...],
//!    "steps":[{"op":"query","tr":"v1"|"v2"|"http","product":"wow","ep":"versions"|"cdns"|"bgdl"|"summary"},
//!             {"op":"open","c":1,"tr":"tcp"|"http","n":1},
//!             {"op":"send","c":1,"cls":"unknown_product"|"wrong_arity"|...},
//!             {"op":"finish","c":1}]}
//!
//! Events (judged by spec/trace/T_Ribbit.tla; nothing is decided here):
//!   {"op":"new","fam":..,"cfg":{..},"db":[..],"accepted":bool,"why":"<error text>"}
//!   {"op":"query","seq":n,..step..,"ms":t[,"starved":{"retries":k,"lag_ms":l}],"res":{"out":"rows","rows":[[{"n":name,"k":"str|hex|dec|empty","v":text[,"raw":text]},..],..]}
//!                                              |{"out":"err","err":text}|{"out":"panic","msg":..}|{"out":"timeout"}}
//!   {"op":"open","seq":n,"c":c,"tr":..,"n":k,"res":{"connected":k}}
//!   {"op":"send","seq":n,"c":c,"cls":..,"res":{"sent":k}}
//!   {"op":"finish","seq":n,"c":c,"ms":t,"ticks":server_ticks,"res":{"outs":[{"out":"closed"|"reply"|"open","status":s,"rows":r,"bytes":b},..]}}
//!   {"op":"end","seq":n,"res":{"panics":[..],"server_exited":bool,"tcp_exited":bool}}   (listener tasks returned)
//!   {"op":"hang","res":{"outcome":"hang"}}
//! `v` of a typed value is its canonical text: the string itself, lower-case hex of the bytes, the
//! decimal rendering of the i64.  Non-ASCII characters are written as \uXXXX escapes.
use cascette_formats::bpsv::{BpsvDocument, BpsvValue};
use cascette_protocol::{RibbitClient, TactClient};
use cascette_ribbit::{AppState, Server, ServerConfig};
use futures::FutureExt;
use serde_json::{Value, json};
use std::collections::HashMap;
use std::io::Write as _;
use std::panic::AssertUnwindSafe;
use std::sync::{Arc, Mutex, OnceLock};
use std::time::{Duration, Instant};
use tokio::io::{AsyncReadExt, AsyncWriteExt};
use tokio::net::TcpStream;
use verif_harness::{arg, arg_u64, read_programs};

/// Time is measured on the *server's* runtime: a ticker task there counts 100 ms ticks (missed ticks are not made
/// up for).  A pause of the whole process or machine (observed: 170 s), or a starved server thread, stops that clock
/// too, so that no deadline below can expire merely because nobody was running.
const TICK: Duration = Duration::from_millis(100);
/// a concurrent valid probe must be answered within 30 s of server time (generous: shared, loaded machine)
const PROBE_TICKS: u64 = 300;
/// the server's read timeout is 10 s; a connection is recorded as still "open" only after 4.5x that of server time
/// during which no socket of its group was answered or closed (counted from the moment the group was opened)
const FINISH_TICKS: u64 = 450;
/// wall-clock bound for kernel-only operations (connect / write on loopback) and for a whole program
const PROBE_DEADLINE: Duration = Duration::from_secs(30);
const PROGRAM_DEADLINE: Duration = Duration::from_secs(1200);
/// a step during which the server clock lost more than this against the wall clock was starved
const STARVED_MS: u64 = 3000;
const EKEY: &str = "aaaabbbbccccddddeeeeffffaaaaffff";

// --------------------------------------------------------------------------- panics are data
static PANICS: OnceLock<Mutex<HashMap<String, Vec<String>>>> = OnceLock::new();
thread_local! { static LAST_PANIC: std::cell::RefCell<String> = const { std::cell::RefCell::new(String::new()) }; }

fn install_panic_hook() {
    PANICS.get_or_init(|| Mutex::new(HashMap::new()));
    std::panic::set_hook(Box::new(|info| {
        let loc = info.location().map(|l| format!("{}:{}", l.file(), l.line())).unwrap_or_default();
        let msg = if let Some(s) = info.payload().downcast_ref::<&str>() {
            (*s).to_string()
        } else if let Some(s) = info.payload().downcast_ref::<String>() {
            s.clone()
        } else {
            "panic".to_string()
        };
        let text: String = format!("{msg} @ {loc}").chars().take(240).collect();
        LAST_PANIC.with(|l| *l.borrow_mut() = text.clone());
        let name = std::thread::current().name().unwrap_or("").to_string();
        if name.starts_with("srv-")
            && let Some(m) = PANICS.get()
        {
            m.lock().unwrap_or_else(|e| e.into_inner()).entry(name).or_default().push(text);
        }
    }));
}

fn server_panics(idx: usize) -> Vec<String> {
    PANICS
        .get()
        .and_then(|m| m.lock().unwrap_or_else(|e| e.into_inner()).get(&format!("srv-{idx}")).cloned())
        .unwrap_or_default()
}

// --------------------------------------------------------------------------- the server under test
struct Srv {
    rt: Option<tokio::runtime::Runtime>,
    tcp: u16,
    http: u16,
    tcp_task: tokio::task::JoinHandle<()>,
    http_task: tokio::task::JoinHandle<()>,
    /// 100 ms ticks of the server runtime since start
    ticks: Arc<std::sync::atomic::AtomicU64>,
    _dir: tempfile::TempDir,
}

impl Srv {
    fn now(&self) -> u64 {
        self.ticks.load(std::sync::atomic::Ordering::Relaxed)
    }
}

fn scratch() -> std::path::PathBuf {
    let p = std::path::Path::new("/dev/shm");
    if p.is_dir() { p.to_path_buf() } else { std::env::temp_dir() }
}

fn opt_str(v: &Value) -> Value {
    match v.as_array().and_then(|a| a.first()) {
        Some(s) => s.clone(),
        None => Value::Null,
    }
}

fn db_json(prog: &Value) -> Value {
    let mut out = vec![];
    for b in prog["db"].as_array().expect("db") {
        let mut r = json!({
            "id": b["id"], "product": b["product"], "version": b["version"], "build": b["build"],
            "build_config": b["bc"], "cdn_config": b["cc"], "keyring": opt_str(&b["keyring"]),
            "product_config": opt_str(&b["pc"]), "build_time": b["time"],
            "encoding_ekey": EKEY, "root_ekey": EKEY, "install_ekey": EKEY, "download_ekey": EKEY,
        });
        let cp = opt_str(&b["cdn_path"]);
        if !cp.is_null() {
            r["cdn_path"] = cp;
        }
        out.push(r);
    }
    Value::Array(out)
}

/// Ports come from a range below the kernel's ephemeral range (so nobody's `bind(0)` or outgoing connection takes
/// them), walked by a process-wide counter; `--port-base` / `--port-span` keep concurrent driver processes apart.
/// A port that cannot be bound is skipped; a listener that fails to bind makes its start function return an
/// error, which is noticed below and answered by another attempt - a program never talks to another program's server.
static FLOOD: std::sync::atomic::AtomicBool = std::sync::atomic::AtomicBool::new(false);
static NEXT_PORT: std::sync::atomic::AtomicU32 = std::sync::atomic::AtomicU32::new(0);
static PORT_BASE: std::sync::atomic::AtomicU32 = std::sync::atomic::AtomicU32::new(10000);
static PORT_SPAN: std::sync::atomic::AtomicU32 = std::sync::atomic::AtomicU32::new(22000);

fn next_port() -> u16 {
    use std::sync::atomic::Ordering::Relaxed;
    loop {
        let k = NEXT_PORT.fetch_add(1, Relaxed) % PORT_SPAN.load(Relaxed);
        let p = (PORT_BASE.load(Relaxed) + k) as u16;
        if std::net::TcpListener::bind(("127.0.0.1", p)).is_ok() {
            return p;
        }
    }
}

enum Started {
    Up(Srv),
    Rejected(String),
}

async fn start_server(idx: usize, prog: &Value) -> Started {
    let dir = tempfile::tempdir_in(scratch()).expect("tempdir");
    let path = dir.path().join("builds.json");
    std::fs::write(&path, serde_json::to_vec(&db_json(prog)).expect("db json")).expect("write db");
    for _attempt in 0..20 {
        let (tcp, http) = (next_port(), next_port());
        let config = ServerConfig {
            http_bind: format!("127.0.0.1:{http}").parse().expect("addr"),
            tcp_bind: format!("127.0.0.1:{tcp}").parse().expect("addr"),
            builds: path.clone(),
            cdn_hosts: prog["cfg"]["hosts"].as_str().expect("cfg.hosts").to_string(),
            cdn_path: prog["cfg"]["path"].as_str().expect("cfg.path").to_string(),
            tls_cert: None,
            tls_key: None,
        };
        if let Err(e) = config.validate() {
            return Started::Rejected(format!("config: {e}"));
        }
        // Server::new = AppState::new + bookkeeping; Server::run = spawn(http::start_server) + spawn(tcp::start_server)
        // + wait for ctrl-c, and it only *logs* a failed bind.  The two listeners are started here directly so
        // that a failed bind is seen (their start functions return it).
        if let Err(e) = Server::new(config.clone()) {
            return Started::Rejected(e.to_string());
        }
        let state = match AppState::new(&config) {
            Ok(s) => Arc::new(s),
            Err(e) => return Started::Rejected(e.to_string()),
        };
        let rt = tokio::runtime::Builder::new_multi_thread()
            .worker_threads(1)
            .thread_name(format!("srv-{idx}"))
            .enable_all()
            .build()
            .expect("server runtime");
        let (s1, s2) = (state.clone(), state.clone());
        let (a1, a2) = (config.tcp_bind, config.http_bind);
        let tcp_task = rt.spawn(async move {
            let _ = cascette_ribbit::tcp::start_server(a1, s1).await;
        });
        let http_task = rt.spawn(async move {
            let _ = cascette_ribbit::http::start_server(a2, s2).await;
        });
        // The server runtime has ONE worker thread and runs tasks spawned from outside in FIFO order: when this
        // marker task has run, both start functions have been polled once, i.e. they are past their bind (a
        // failed bind returns immediately and finishes the task).
        let (tx, rx) = tokio::sync::oneshot::channel::<()>();
        rt.spawn(async move {
            let _ = tx.send(());
        });
        let polled = tokio::time::timeout(Duration::from_secs(60), rx).await.is_ok();
        if polled && !tcp_task.is_finished() && !http_task.is_finished() {
            // both listeners are ours; they accept from now on (connections queue in the backlog)
            let a = TcpStream::connect(("127.0.0.1", tcp)).await.is_ok();
            let b = TcpStream::connect(("127.0.0.1", http)).await.is_ok();
            if a && b {
                let ticks = Arc::new(std::sync::atomic::AtomicU64::new(0));
                let t2 = ticks.clone();
                rt.spawn(async move {
                    let mut iv = tokio::time::interval(TICK);
                    iv.set_missed_tick_behavior(tokio::time::MissedTickBehavior::Delay);
                    iv.tick().await;
                    loop {
                        iv.tick().await;
                        t2.fetch_add(1, std::sync::atomic::Ordering::Relaxed);
                    }
                });
                return Started::Up(Srv { rt: Some(rt), tcp, http, tcp_task, http_task, ticks, _dir: dir });
            }
        }
        rt.shutdown_background();
    }
    eprintln!("drv_ribbit: could not start the server on free loopback ports");
    std::process::exit(4);
}

// --------------------------------------------------------------------------- projections
fn doc_rows(doc: &BpsvDocument) -> Value {
    let fields = doc.schema().fields();
    let mut rows = vec![];
    for r in doc.rows() {
        let mut row = vec![];
        for (i, f) in fields.iter().enumerate() {
            let (k, v) = match r.get(i) {
                Some(BpsvValue::String(s)) => ("str", s.clone()),
                Some(BpsvValue::Hex(b)) => ("hex", hex::encode(b)),
                Some(BpsvValue::Dec(n)) => ("dec", n.to_string()),
                Some(BpsvValue::Empty) => ("empty", String::new()),
                None => ("missing", String::new()),
            };
            // `raw` (the text between the pipes) is informational; logged only where it differs from `v`
            let raw = r.get_raw(i).unwrap_or("");
            if raw == v {
                row.push(json!({"n": f.name, "k": k, "v": v}));
            } else {
                row.push(json!({"n": f.name, "k": k, "v": v, "raw": raw}));
            }
        }
        rows.push(Value::Array(row));
    }
    Value::Array(rows)
}

fn clip(s: &str) -> String {
    s.chars().take(200).collect()
}

/// One valid request through the project's own client.
async fn own_client_query(srv: &Srv, tr: &str, product: &str, ep: &str) -> Value {
    let endpoint = match (tr, ep) {
        ("v2", _) => format!("v2/products/{product}/{ep}"),
        (_, "summary") => "v1/summary".to_string(),
        _ => format!("v1/products/{product}/{ep}"),
    };
    let fut = async {
        match tr {
            "http" => match TactClient::new(format!("http://127.0.0.1:{}", srv.http), false) {
                Ok(c) => c.query(&endpoint).await,
                Err(e) => Err(e),
            },
            _ => match RibbitClient::new(format!("tcp://127.0.0.1:{}", srv.tcp)) {
                Ok(c) => c.query(&endpoint).await,
                Err(e) => Err(e),
            },
        }
    };
    let guarded = AssertUnwindSafe(fut).catch_unwind();
    tokio::pin!(guarded);
    let start = srv.now();
    let r = loop {
        tokio::select! {
            r = &mut guarded => break Some(r),
            () = tokio::time::sleep(Duration::from_millis(200)) => {
                if srv.now().saturating_sub(start) >= PROBE_TICKS {
                    break None;
                }
            }
        }
    };
    match r {
        None => json!({"out": "timeout"}),
        Some(Err(_)) => json!({"out": "panic", "msg": LAST_PANIC.with(|l| l.borrow().clone())}),
        Some(Ok(Err(e))) => json!({"out": "err", "err": clip(&e.to_string())}),
        Some(Ok(Ok(doc))) => json!({"out": "rows", "rows": doc_rows(&doc)}),
    }
}

/// One valid request; an attempt that failed while the server was not running (process paused, thread starved:
/// the clients under test have wall-clock time-outs of their own) says nothing and is repeated.
async fn probe(srv: &Srv, tr: &str, product: &str, ep: &str) -> (Value, u64, u64) {
    let mut retries = 0u64;
    loop {
        let (w0, t0) = (Instant::now(), srv.now());
        let r = own_client_query(srv, tr, product, ep).await;
        let lag = (w0.elapsed().as_millis() as u64).saturating_sub((srv.now() - t0) * TICK.as_millis() as u64);
        let failed = matches!(r["out"].as_str(), Some("err") | Some("timeout"));
        if failed && lag > STARVED_MS && retries < 5 {
            retries += 1;
            continue;
        }
        return (r, retries, lag);
    }
}

/// Bytes of a malformed / unknown request of class `cls` on a raw socket.
fn request_bytes(tr: &str, cls: &str, big: usize) -> (Vec<u8>, bool) {
    // (bytes, half_close_after_send)
    let http = |target: &str| format!("GET {target} HTTP/1.1\r\nHost: localhost\r\nConnection: close\r\n\r\n").into_bytes();
    match (tr, cls) {
        ("tcp", "unknown_product") => (b"v1/products/nosuch/versions\r\n".to_vec(), false),
        ("tcp", "unknown_product_v2") => (b"v2/products/nosuch/cdns\r\n".to_vec(), false),
        ("tcp", "unknown_endpoint") => (b"v1/products/wow/nosuch\r\n".to_vec(), false),
        ("tcp", "unknown_version") => (b"v3/products/wow/versions\r\n".to_vec(), false),
        ("tcp", "wrong_arity_short") => (b"v1/products/wow\r\n".to_vec(), false),
        ("tcp", "wrong_arity_long") => (b"v2/products/wow/versions/extra\r\n".to_vec(), false),
        ("tcp", "empty") => (b"\r\n".to_vec(), false),
        ("tcp", "eof") => (vec![], true),
        ("tcp", "oversized") => {
            let mut v = b"v1/products/".to_vec();
            v.resize(v.len() + big, b'A');
            v.extend_from_slice(b"/versions\r\n");
            (v, false)
        }
        ("tcp", "nonutf8") => (b"v1/products/\xff\xfe\x80/versions\r\n".to_vec(), false),
        ("tcp", "nul") => (b"v1/products/w\0w/versions\r\n".to_vec(), false),
        ("tcp", "never_terminated") => (b"v1/products/wow/versions".to_vec(), false),
        ("tcp", "silent") => (vec![], false),
        ("http", "unknown_product") => (http("/nosuch/versions"), false),
        ("http", "unknown_endpoint") => (http("/wow/nosuch"), false),
        ("http", "wrong_arity_short") => (http("/wow"), false),
        ("http", "wrong_arity_long") => (http("/wow/versions/extra"), false),
        ("http", "empty") => (http("/"), false),
        ("http", "eof") => (vec![], true),
        ("http", "bad_method") => (b"POST /wow/versions HTTP/1.1\r\nHost: localhost\r\nContent-Length: 0\r\nConnection: close\r\n\r\n".to_vec(), false),
        ("http", "oversized") => {
            let mut v = b"GET /".to_vec();
            v.resize(v.len() + big, b'A');
            v.extend_from_slice(b"/versions HTTP/1.1\r\nHost: localhost\r\nConnection: close\r\n\r\n");
            (v, false)
        }
        ("http", "nonutf8") => (b"GET /\xff\xfe\x80/versions HTTP/1.1\r\nHost: localhost\r\nConnection: close\r\n\r\n".to_vec(), false),
        ("http", "nonutf8_pct") => (http("/%FF%FE%80/versions"), false),
        ("http", "garbage") => (b"\x00\x01\x02 not http at all\r\n\r\n".to_vec(), false),
        ("http", "never_terminated") => (b"GET /wow/versions HTTP/1.1\r\nHost: localhost\r\n".to_vec(), false),
        ("http", "silent") => (vec![], false),
        other => panic!("driver: unknown request class {other:?}"),
    }
}

/// What came back on a raw socket: nothing + EOF, some reply, or still open at the deadline.
/// `progress` is the server tick at which any socket of the group last received data or was closed (initially the
/// tick at which the group was opened); `floor` is the earliest tick at which giving up is allowed at all.  A socket
/// is recorded as still open only when the whole group has seen nothing for FINISH_TICKS of *server* time: when
/// connections wait in the listen backlog (descriptor exhaustion) the server closes them in waves of one read
/// time-out each, and every wave is progress.
async fn finish_one(
    mut s: TcpStream,
    tr: String,
    ticks: Arc<std::sync::atomic::AtomicU64>,
    progress: Arc<std::sync::atomic::AtomicU64>,
    floor: u64,
) -> Value {
    use std::sync::atomic::Ordering::Relaxed;
    let mut buf = Vec::new();
    let mut tmp = [0u8; 8192];
    let mut eof = false;
    let mut last_round = false;
    loop {
        // short waits; whether to give up is decided on the server's clock.  `timeout` polls the read first, so
        // data or a close that is already there is never missed, however late this task runs.
        match tokio::time::timeout(Duration::from_millis(250), s.read(&mut tmp)).await {
            Err(_) => {
                let now = ticks.load(Relaxed);
                if now >= progress.load(Relaxed) + FINISH_TICKS && now >= floor {
                    if last_round {
                        break;
                    }
                    last_round = true;
                } else {
                    last_round = false;
                }
            }
            Ok(Ok(0)) => {
                progress.fetch_max(ticks.load(Relaxed), Relaxed);
                eof = true;
                break;
            }
            Ok(Ok(n)) => {
                progress.fetch_max(ticks.load(Relaxed), Relaxed);
                buf.extend_from_slice(&tmp[..n]);
                if buf.len() > (64 << 20) {
                    break;
                }
            }
            Ok(Err(_)) => {
                // reset by peer: the connection is gone
                progress.fetch_max(ticks.load(Relaxed), Relaxed);
                eof = true;
                break;
            }
        }
    }
    let mut status = 0u64;
    let mut rows = 0usize;
    if tr == "http" {
        let head = String::from_utf8_lossy(&buf[..buf.len().min(32)]).to_string();
        if head.starts_with("HTTP/1.") {
            status = head.get(9..12).and_then(|x| x.parse().ok()).unwrap_or(0);
        }
    } else if !buf.is_empty() {
        // would this project's own client read rows out of the reply?
        let parsed = std::panic::catch_unwind(|| {
            if cascette_protocol::mime_parser::is_v1_mime_response(&buf) {
                cascette_protocol::mime_parser::parse_v1_mime_to_bpsv(&buf).ok()
            } else {
                <BpsvDocument as cascette_formats::CascFormat>::parse(&buf).ok()
            }
        });
        if let Ok(Some(doc)) = parsed {
            rows = doc.row_count();
        }
    }
    let out = if !buf.is_empty() {
        "reply"
    } else if eof {
        "closed"
    } else {
        "open"
    };
    json!({"out": out, "status": status, "rows": rows, "bytes": buf.len().min(1_000_000_000)})
}

struct RawConn {
    tr: String,
    socks: Vec<TcpStream>,
    /// server tick at which the group was opened
    opened: u64,
    /// the descriptor limit was lowered for this group (family "flood")
    exhausted: bool,
}

fn open_descriptors() -> usize {
    std::fs::read_dir("/proc/self/fd").map(|d| d.count()).unwrap_or(0)
}

fn ascii_json(v: &Value) -> String {
    let s = serde_json::to_string(v).expect("json");
    if s.is_ascii() {
        return s;
    }
    let mut o = String::with_capacity(s.len() + 16);
    for c in s.chars() {
        if c.is_ascii() {
            o.push(c);
        } else {
            let mut b = [0u16; 2];
            for u in c.encode_utf16(&mut b) {
                o.push_str(&format!("\\u{u:04x}"));
            }
        }
    }
    o
}

async fn run_program(idx: usize, prog: Value, big: usize, evs: Arc<Mutex<Vec<String>>>) {
    let push = |v: Value| evs.lock().unwrap_or_else(|e| e.into_inner()).push(ascii_json(&v));
    let mut new = json!({"op": "new", "fam": prog["fam"], "cfg": prog["cfg"], "db": prog["db"]});
    let srv = match start_server(idx, &prog).await {
        Started::Up(s) => {
            new["accepted"] = json!(true);
            new["why"] = json!("");
            push(new);
            s
        }
        Started::Rejected(why) => {
            new["accepted"] = json!(false);
            new["why"] = json!(clip(&why));
            push(new);
            return;
        }
    };
    let mut conns: HashMap<u64, RawConn> = HashMap::new();
    let mut seq = 0u64;
    let base_fds = open_descriptors();
    for step in prog["steps"].as_array().expect("steps") {
        let mut ev = step.clone();
        seq += 1;
        ev["seq"] = json!(seq);
        let t0 = Instant::now();
        match step["op"].as_str().expect("op") {
            "query" => {
                let (r, retries, lag) = probe(
                    &srv,
                    step["tr"].as_str().expect("tr"),
                    step["product"].as_str().expect("product"),
                    step["ep"].as_str().expect("ep"),
                )
                .await;
                ev["res"] = r;
                ev["ms"] = json!(t0.elapsed().as_millis() as u64);
                if retries > 0 || lag > STARVED_MS {
                    ev["starved"] = json!({"retries": retries, "lag_ms": lag});
                }
            }
            "open" => {
                let tr = step["tr"].as_str().expect("tr").to_string();
                let n = step["n"].as_u64().unwrap_or(1);
                let port = if tr == "http" { srv.http } else { srv.tcp };
                let flood = FLOOD.load(std::sync::atomic::Ordering::Relaxed);
                let addr: std::net::SocketAddr = format!("127.0.0.1:{port}").parse().expect("addr");
                // the client ends get their descriptors first (unconnected sockets) ...
                let mut fresh = vec![];
                for _ in 0..n {
                    if let Ok(sock) = tokio::net::TcpSocket::new_v4() {
                        fresh.push(sock);
                    }
                }
                if flood {
                    // ... then the limit leaves room for half as many server ends: however client and server tasks
                    // are scheduled, every connection is established (the kernel completes the handshakes) and the
                    // server's accept() fails with EMFILE while the other half is still waiting in the backlog
                    limit_descriptors(open_descriptors() as u64 + n / 2);
                }
                let mut socks = vec![];
                for sock in fresh {
                    if let Ok(Ok(s)) = tokio::time::timeout(PROBE_DEADLINE, sock.connect(addr)).await {
                        let _ = s.set_nodelay(true);
                        socks.push(s);
                    }
                }
                ev["res"] = json!({"connected": socks.len()});
                let exhausted = flood;
                conns.insert(step["c"].as_u64().expect("c"), RawConn { tr, socks, opened: srv.now(), exhausted });
            }
            "send" => {
                let c = conns.get_mut(&step["c"].as_u64().expect("c")).expect("send on a connection that was not opened");
                let (bytes, half_close) = request_bytes(&c.tr, step["cls"].as_str().expect("cls"), big);
                let mut sent = 0u64;
                for s in &mut c.socks {
                    // a server that stops reading must not block the driver: bounded write
                    let w = tokio::time::timeout(PROBE_DEADLINE, async {
                        s.write_all(&bytes).await?;
                        s.flush().await?;
                        if half_close {
                            s.shutdown().await?;
                        }
                        Ok::<(), std::io::Error>(())
                    })
                    .await;
                    if matches!(w, Ok(Ok(()))) {
                        sent += 1;
                    }
                }
                ev["res"] = json!({"sent": sent});
            }
            "finish" => {
                let c = conns.remove(&step["c"].as_u64().expect("c")).expect("finish on a connection that was not opened");
                let tick0 = srv.now();
                let progress = Arc::new(std::sync::atomic::AtomicU64::new(c.opened));
                let mut outs: Vec<Value> = vec![];
                let results = futures::future::join_all(
                    c.socks.into_iter().map(|s| finish_one(s, c.tr.clone(), srv.ticks.clone(), progress.clone(), tick0 + 20)),
                )
                .await;
                for r in results {
                    if !outs.contains(&r) {
                        outs.push(r);
                    }
                }
                if c.exhausted {
                    // environment, not verdict: server and clients share this process' descriptor table; before the
                    // next step give the server's tasks time to notice the closed sockets and release their ends
                    // (a server that never releases them keeps the table full and the following probes fail)
                    let t1 = srv.now();
                    while open_descriptors() > base_fds + 8 && srv.now() - t1 < PROBE_TICKS {
                        tokio::time::sleep(Duration::from_millis(50)).await;
                    }
                    raise_descriptors();
                }
                ev["res"] = json!({"outs": outs});
                ev["ms"] = json!(t0.elapsed().as_millis() as u64);
                ev["ticks"] = json!(srv.now() - tick0);
            }
            other => panic!("driver: unknown op {other}"),
        }
        push(ev);
    }
    seq += 1;
    push(json!({"op": "end", "seq": seq, "res": {"panics": server_panics(idx), "server_exited": srv.http_task.is_finished(), "tcp_exited": srv.tcp_task.is_finished()}}));
    drop(conns);
    let mut srv = srv;
    if let Some(rt) = srv.rt.take() {
        rt.shutdown_background();
    }
}

#[repr(C)]
struct RLimit {
    cur: u64,
    max: u64,
}
unsafe extern "C" {
    fn getrlimit(resource: i32, rlim: *mut RLimit) -> i32;
    fn setrlimit(resource: i32, rlim: *const RLimit) -> i32;
}
/// Set the soft limit on open descriptors of this process (family "flood"); Linux: RLIMIT_NOFILE = 7.
fn limit_descriptors(n: u64) {
    let mut r = RLimit { cur: 0, max: 0 };
    // SAFETY: plain libc calls on a properly laid out struct rlimit (two 64-bit words on 64-bit Linux)
    let ok = unsafe { getrlimit(7, &mut r) == 0 && setrlimit(7, &RLimit { cur: n.min(r.max), max: r.max }) == 0 };
    if !ok {
        eprintln!("drv_ribbit: could not set RLIMIT_NOFILE");
        std::process::exit(4);
    }
}

/// Raise the soft descriptor limit to the hard one and return it (every program holds up to ~120 descriptors:
/// a group of 40 raw sockets has 40 client and 40 server ends in this one process).
fn raise_descriptors() -> u64 {
    let mut r = RLimit { cur: 0, max: 0 };
    // SAFETY: as above
    unsafe {
        if getrlimit(7, &mut r) != 0 {
            return 1024;
        }
        if r.cur < r.max && setrlimit(7, &RLimit { cur: r.max, max: r.max }) == 0 {
            return r.max;
        }
    }
    r.cur
}

fn main() {
    install_panic_hook();
    let args: Vec<String> = std::env::args().collect();
    let par_cap = if verif_harness::has_flag(&args, "--flood") {
        FLOOD.store(true, std::sync::atomic::Ordering::Relaxed);
        raise_descriptors();
        1 // one program at a time: the limit is per process
    } else {
        // never let the driver itself run out of descriptors: fewer programs at a time on a small limit
        (raise_descriptors().saturating_sub(100) / 120).max(1) as usize
    };
    let programs = arg(&args, "--programs").map(|p| read_programs(&p)).unwrap_or_default();
    let par = (arg_u64(&args, "--par", 16) as usize).min(par_cap);
    let big = arg_u64(&args, "--big", 1 << 20) as usize;
    PORT_BASE.store(arg_u64(&args, "--port-base", 10000) as u32, std::sync::atomic::Ordering::Relaxed);
    PORT_SPAN.store(arg_u64(&args, "--port-span", 22000).max(2) as u32, std::sync::atomic::Ordering::Relaxed);
    // start somewhere inside the span that differs between processes started at the same time
    NEXT_PORT.store((std::process::id() * 7919) % 22000, std::sync::atomic::Ordering::Relaxed);
    let workers = std::env::var("VERIF_WORKERS").ok().and_then(|s| s.parse::<usize>().ok()).filter(|n| *n > 0).unwrap_or(4).min(8);
    let out_path = arg(&args, "--out");
    let mut out: Box<dyn std::io::Write> = match out_path.as_deref() {
        Some(p) if p != "-" => Box::new(std::io::BufWriter::new(std::fs::File::create(p).expect("create trace file"))),
        _ => Box::new(std::io::BufWriter::new(std::io::stdout())),
    };
    let rt = tokio::runtime::Builder::new_multi_thread().worker_threads(workers).thread_name("cli").enable_all().build().expect("runtime");
    let (mut nprog, mut nev, mut hangs) = (0u64, 0u64, 0u64);
    rt.block_on(async {
        let sem = Arc::new(tokio::sync::Semaphore::new(par.max(1)));
        let mut handles = std::collections::VecDeque::new();
        let mut it = programs.into_iter().enumerate();
        loop {
            // keep at most 4*par finished-or-running programs buffered, write results in program order
            while handles.len() < par * 4 {
                let Some((i, prog)) = it.next() else { break };
                let permit = sem.clone().acquire_owned().await.expect("semaphore");
                let evs = Arc::new(Mutex::new(Vec::<String>::new()));
                let evs2 = evs.clone();
                let h = tokio::spawn(async move {
                    let r = tokio::time::timeout(PROGRAM_DEADLINE, AssertUnwindSafe(run_program(i, prog, big, evs2)).catch_unwind()).await;
                    drop(permit);
                    match r {
                        Ok(Ok(())) => 0u8,
                        Ok(Err(_)) => 2, // the driver itself panicked
                        Err(_) => 1,     // the program did not finish
                    }
                });
                handles.push_back((h, evs));
            }
            let Some((h, evs)) = handles.pop_front() else { break };
            let code = h.await.unwrap_or(2);
            let mut lines = std::mem::take(&mut *evs.lock().unwrap_or_else(|e| e.into_inner()));
            if code == 2 {
                eprintln!("drv_ribbit: driver failure in a program: {}", LAST_PANIC.with(|l| l.borrow().clone()));
                std::process::exit(4);
            }
            if code == 1 {
                hangs += 1;
                if lines.is_empty() {
                    lines.push(r#"{"op":"new","fam":"?","cfg":{"hosts":"","path":""},"db":[],"accepted":true,"why":""}"#.to_string());
                }
                lines.push(r#"{"op":"hang","res":{"outcome":"hang"}}"#.to_string());
            }
            nprog += 1;
            for l in lines {
                out.write_all(l.as_bytes()).expect("write event");
                out.write_all(b"\n").expect("write event");
                nev += 1;
            }
        }
    });
    out.flush().expect("flush");
    eprintln!("{}", json!({"programs": nprog, "events": nev, "hangs": hangs}));
    // server runtimes were shut down in the background; do not wait for their threads
    std::process::exit(0);
}
