//! C02 / C08 driver: every parser of cascette-rs on structured boundary vectors, seeded mutations and
//! builder programs, in an isolated child process under a counting allocator.
//!
//! Parent (`drv_parse --out trace.ndjson ...`): plans the inputs
//!   * `fixture`  every seed as it is (real CDN fixtures of /repo's test_fixtures + small builder outputs)
//!   * `model`    field vectors enumerated by TLC from spec/mc/MC_ParserGuard.tla (`--vectors`), patched into
//!                the seeds of the format through the layout table below
//!   * `mut`      seeded mutations (bit flips, byte/word overwrites, truncations, splices, length-field
//!                tweaks, checksum re-sealing) of the same seeds (`--mutations N`, `VERIF_SEED`)
//!   * `bprog`    builder programs enumerated by TLC from spec/mc/MC_RoundTrip.tla (`--bprogs`)
//! and feeds them to `--jobs` child processes (`drv_parse --child`).  A child runs each real parser under
//! `catch_unwind` with the allocator counters reset; a single request above 2 GiB (or more than 3 GiB live)
//! is refused, which the standard library turns into an abort - the parent observes the death of the child
//! (abort, stack overflow, timeout) as the *outcome* of that input, restarts the child and re-runs the input
//! alone before it records a hang or an abort.  For every accepted input of a format with a serialiser the
//! child also performs parse -> build -> parse -> build and logs digests (C08).
//!
//! The driver records; it never judges.  spec/trace/T_ParserGuard.tla and T_RoundTrip.tla do.

use cascette_formats::CascFormat;
use serde_json::{Map, Value, json};
use std::alloc::{GlobalAlloc, Layout, System};
use std::any::Any;
use std::io::{BufRead, BufReader, Read, Write};
use std::path::{Path, PathBuf};
use std::sync::atomic::{AtomicU64, AtomicUsize, Ordering::Relaxed};
use std::time::{Duration, Instant};
use verif_harness::{Rng, arg, arg_u64, guarded, has_flag, md5hex, quiet_panics, seed_from_env};

// ------------------------------------------------------------------------------------------------
// counting allocator
// ------------------------------------------------------------------------------------------------
struct Counting;
static CUR: AtomicUsize = AtomicUsize::new(0);
static PEAK: AtomicUsize = AtomicUsize::new(0);
static LARGEST: AtomicUsize = AtomicUsize::new(0);
static NALLOC: AtomicU64 = AtomicU64::new(0);
const MAX_SINGLE: usize = 2 << 30;
const MAX_LIVE: usize = 3 << 30;

#[inline]
fn admit(req: usize, delta: usize) -> bool {
    LARGEST.fetch_max(req, Relaxed);
    NALLOC.fetch_add(1, Relaxed);
    let c = CUR.fetch_add(delta, Relaxed) + delta;
    if req > MAX_SINGLE || c > MAX_LIVE {
        CUR.fetch_sub(delta, Relaxed);
        return false;
    }
    PEAK.fetch_max(c, Relaxed);
    true
}
unsafe impl GlobalAlloc for Counting {
    unsafe fn alloc(&self, l: Layout) -> *mut u8 {
        if !admit(l.size(), l.size()) {
            return std::ptr::null_mut();
        }
        let p = unsafe { System.alloc(l) };
        if p.is_null() {
            CUR.fetch_sub(l.size(), Relaxed);
        }
        p
    }
    unsafe fn alloc_zeroed(&self, l: Layout) -> *mut u8 {
        if !admit(l.size(), l.size()) {
            return std::ptr::null_mut();
        }
        let p = unsafe { System.alloc_zeroed(l) };
        if p.is_null() {
            CUR.fetch_sub(l.size(), Relaxed);
        }
        p
    }
    unsafe fn dealloc(&self, p: *mut u8, l: Layout) {
        CUR.fetch_sub(l.size(), Relaxed);
        unsafe { System.dealloc(p, l) }
    }
    unsafe fn realloc(&self, p: *mut u8, l: Layout, new: usize) -> *mut u8 {
        if new > l.size() {
            if !admit(new, new - l.size()) {
                return std::ptr::null_mut();
            }
            let q = unsafe { System.realloc(p, l, new) };
            if q.is_null() {
                CUR.fetch_sub(new - l.size(), Relaxed);
            }
            q
        } else {
            let q = unsafe { System.realloc(p, l, new) };
            if !q.is_null() {
                CUR.fetch_sub(l.size() - new, Relaxed);
            }
            q
        }
    }
}
#[global_allocator]
static ALLOC: Counting = Counting;

fn meter_reset() -> usize {
    let base = CUR.load(Relaxed);
    PEAK.store(base, Relaxed);
    LARGEST.store(0, Relaxed);
    NALLOC.store(0, Relaxed);
    base
}
fn meter_read(base: usize) -> (usize, usize, u64) {
    (PEAK.load(Relaxed).saturating_sub(base), LARGEST.load(Relaxed), NALLOC.load(Relaxed))
}

// ------------------------------------------------------------------------------------------------
// small helpers
// ------------------------------------------------------------------------------------------------
fn trunc(s: &str, n: usize) -> String {
    s.chars().take(n).collect()
}
fn kib(n: usize) -> u64 {
    (n as u64).div_ceil(1024)
}
fn repo_root() -> PathBuf {
    PathBuf::from(std::env::var("VERIF_REPO").unwrap_or_else(|_| "/repo".into()))
}
/// 16-bit limbs, most significant first (TLC integers are 32-bit).
fn limbs(v: u64, width: usize) -> Value {
    let n = width.div_ceil(2).max(1);
    Value::Array((0..n).rev().map(|i| json!((v >> (16 * i)) & 0xFFFF)).collect())
}

struct Env {
    tmp: PathBuf,
    rt: tokio::runtime::Runtime,
    olds: Vec<Vec<u8>>,
}

type Val = Box<dyn Any>;
type ParseFn = fn(&[u8], &Env) -> Result<Val, String>;
type RtFn = fn(Val, &[u8], &Env) -> Value;

struct Fmt {
    name: &'static str,
    /// the entry point decompresses: the documented 1 GiB cap is added to the allocation bound
    decomp: bool,
    text: bool,
    parse: ParseFn,
    rt: Option<RtFn>,
    weight: u32,
}

fn stage_out<T>(r: Result<Result<T, String>, String>) -> (Value, Option<T>) {
    match r {
        Ok(Ok(v)) => (json!({"o": "ok"}), Some(v)),
        Ok(Err(e)) => (json!({"o": "err", "msg": trunc(&e, 160)}), None),
        Err(p) => (json!({"o": "panic", "msg": trunc(&p, 200)}), None),
    }
}

/// parse -> build -> parse -> build with digests (C08).  `logical(v, texts)` is the format's logical
/// content as a canonical string (entries, keys, sizes, flags, tags - no layout, no lookup tables).
fn rt_run<T>(
    v: T,
    b: &[u8],
    parse: &dyn Fn(&[u8]) -> Result<T, String>,
    build: &dyn Fn(&T) -> Result<Vec<u8>, String>,
    logical: &dyn Fn(&T, &[&[u8]]) -> String,
) -> Value {
    let mut o = Map::new();
    let (s2, b2) = stage_out(guarded(|| build(&v)));
    let mut s2 = s2;
    if let Some(ref x) = b2 {
        s2["d"] = json!(md5hex(x));
        s2["n"] = json!(x.len());
    }
    o.insert("b2".into(), s2);
    let texts: Vec<&[u8]> = match b2 {
        Some(ref x) => vec![b, x.as_slice()],
        None => vec![b],
    };
    match guarded(|| logical(&v, &texts)) {
        Ok(s) => {
            o.insert("l1".into(), json!(md5hex(s.as_bytes())));
            if std::env::var("VERIF_PARSE_SHOW_LOGICAL").is_ok() {
                o.insert("l1_text".into(), json!(trunc(&s, 4000)));
            }
        }
        Err(p) => {
            o.insert("l1".into(), json!(format!("panic: {}", trunc(&p, 120))));
        }
    }
    let Some(b2) = b2 else { return Value::Object(o) };
    let (s, v2) = stage_out(guarded(|| parse(&b2)));
    o.insert("p2".into(), s);
    let Some(v2) = v2 else { return Value::Object(o) };
    match guarded(|| logical(&v2, &texts)) {
        Ok(s) => {
            o.insert("l2".into(), json!(md5hex(s.as_bytes())));
            if std::env::var("VERIF_PARSE_SHOW_LOGICAL").is_ok() {
                o.insert("l2_text".into(), json!(trunc(&s, 4000)));
            }
        }
        Err(p) => {
            o.insert("l2".into(), json!(format!("panic: {}", trunc(&p, 120))));
        }
    }
    let (s3, b3) = stage_out(guarded(|| build(&v2)));
    let mut s3 = s3;
    if let Some(ref x) = b3 {
        s3["d"] = json!(md5hex(x));
        s3["n"] = json!(x.len());
    }
    o.insert("b3".into(), s3);
    Value::Object(o)
}

macro_rules! casc_fmt {
    ($m:ident, $T:ty, $logical:expr) => {
        mod $m {
            use super::*;
            pub fn parse(b: &[u8], _: &Env) -> Result<Val, String> {
                <$T as CascFormat>::parse(b).map(|v| Box::new(v) as Val).map_err(|e| e.to_string())
            }
            pub fn rt(v: Val, b: &[u8], _: &Env) -> Value {
                let v = *v.downcast::<$T>().expect("value type");
                rt_run::<$T>(
                    v,
                    b,
                    &|x| <$T as CascFormat>::parse(x).map_err(|e| e.to_string()),
                    &|v| <$T as CascFormat>::build(v).map_err(|e| e.to_string()),
                    &$logical,
                )
            }
        }
    };
}

// ------------------------------------------------------------------------------------------------
// logical projections
// ------------------------------------------------------------------------------------------------
use cascette_formats::archive::{ArchiveGroup, ArchiveIndex};
use cascette_formats::blte::BlteFile;
use cascette_formats::bpsv::BpsvDocument;
use cascette_formats::config::{BuildConfig, CdnConfig, KeyringConfig, PatchConfig, ProductConfig};
use cascette_formats::download::DownloadManifest;
use cascette_formats::encoding::EncodingFile;
use cascette_formats::espec::ESpec;
use cascette_formats::install::InstallManifest;
use cascette_formats::patch_archive::PatchArchive;
use cascette_formats::patch_index::PatchIndex;
use cascette_formats::root::RootFile;
use cascette_formats::size::SizeManifest;
use cascette_formats::tvfs::TvfsFile;
use cascette_formats::zbsdiff::ZbsDiff;

fn l_blte(v: &BlteFile, _: &[&[u8]]) -> String {
    let chunks: Vec<(u8, String)> = v.chunks.iter().map(|c| (c.mode.as_byte(), md5hex(&c.data))).collect();
    format!("{:?}|{:?}", v.header, chunks)
}
fn l_encoding(v: &EncodingFile, _: &[&[u8]]) -> String {
    let h = &v.header;
    let ck: Vec<_> = v.ckey_pages.iter().map(|p| format!("{:?}", p.entries)).collect();
    let ek: Vec<_> = v.ekey_pages.iter().map(|p| format!("{:?}", p.entries)).collect();
    format!(
        "v{} ch{} eh{} cp{} ep{} fl{}|{:?}|{:?}|{:?}|{:?}",
        h.version, h.ckey_hash_size, h.ekey_hash_size, h.ckey_page_size_kb, h.ekey_page_size_kb, h.flags, v.espec_table.entries, ck, ek, v.trailing_espec
    )
}
fn l_aidx(v: &ArchiveIndex, _: &[&[u8]]) -> String {
    let f = &v.footer;
    format!("v{} ob{} sb{} kl{}|{:?}", f.version, f.offset_bytes, f.size_bytes, f.ekey_length, v.entries)
}
fn l_root(v: &RootFile, _: &[&[u8]]) -> String {
    let mut recs: Vec<String> = Vec::new();
    for b in &v.blocks {
        for r in &b.records {
            recs.push(format!("{:?}|{:?}|{:?}|{:?}|{:?}", r.file_data_id, r.content_key, r.name_hash, b.locale_flags(), b.content_flags()));
        }
    }
    recs.sort();
    format!("{:?}|{:?}", v.version, recs)
}
fn l_install(v: &InstallManifest, _: &[&[u8]]) -> String {
    format!("v{}|{:?}|{:?}", v.header.version, v.tags, v.entries)
}
fn l_download(v: &DownloadManifest, _: &[&[u8]]) -> String {
    format!("{:?}|{:?}|{:?}", v.header, v.entries, v.tags)
}
fn l_size(v: &SizeManifest, _: &[&[u8]]) -> String {
    format!("{:?}", v)
}
fn l_tvfs(v: &TvfsFile, _: &[&[u8]]) -> String {
    use std::collections::HashMap;
    let vfs: HashMap<u32, usize> = v.vfs_table.entries.iter().enumerate().map(|(i, e)| (e.offset, i)).collect();
    let cft: HashMap<u32, usize> = v.container_table.entries.iter().enumerate().map(|(i, e)| (e.offset, i)).collect();
    let mut files: Vec<String> = Vec::new();
    for f in &v.path_table.files {
        let mut s = format!("{:?}=>", f.path);
        match vfs.get(&f.vfs_offset) {
            None => s.push_str("novfs"),
            Some(&i) => {
                for sp in &v.vfs_table.entries[i].spans {
                    s.push_str(&format!("[{}+{}:", sp.file_offset, sp.span_length));
                    match cft.get(&sp.cft_offset) {
                        None => s.push_str("nocft"),
                        Some(&j) => {
                            let c = &v.container_table.entries[j];
                            let est = c.est_index.map(|x| v.est_table.as_ref().and_then(|t| t.specs.get(x as usize).cloned()));
                            s.push_str(&format!("{:?} {} {:?} {:?} {:?}", c.ekey, c.encoded_size, c.content_key, est, c.patch_offset.is_some()));
                        }
                    }
                    s.push(']');
                }
            }
        }
        files.push(s);
    }
    files.sort();
    format!("v{} ek{} pk{} fl{}|{:?}", v.header.format_version, v.header.ekey_size, v.header.pkey_size, v.header.flags, files)
}
fn l_pa(v: &PatchArchive, _: &[&[u8]]) -> String {
    let h = &v.header;
    let fe: Vec<_> = v.all_file_entries().collect();
    format!("v{} fk{} ok{} pk{} bb{} fl{}|{:?}|{:?}", h.version, h.file_key_size, h.old_key_size, h.patch_key_size, h.block_size_bits, h.flags, v.encoding_info, fe)
}
fn l_pi(v: &PatchIndex, _: &[&[u8]]) -> String {
    format!("v{} ks{}|{:?}", v.header.version, v.key_size, v.entries)
}
fn l_zbs(v: &ZbsDiff, _: &[&[u8]]) -> String {
    format!("{:?}|{}|{}|{}", v.header, md5hex(&v.control_data), md5hex(&v.diff_data), md5hex(&v.extra_data))
}
/// candidate keys of a `key = value` text: everything before the first " = " of each line
fn cand_keys(texts: &[&[u8]]) -> Vec<String> {
    let mut ks = std::collections::BTreeSet::new();
    for t in texts {
        let s = String::from_utf8_lossy(t);
        for line in s.split(['\n', '\r']) {
            let line = line.trim();
            if let Some(k) = line.split(" = ").next() {
                ks.insert(k.trim().to_string());
            }
        }
    }
    ks.into_iter().collect()
}
fn l_buildcfg(v: &BuildConfig, t: &[&[u8]]) -> String {
    let kv: Vec<_> = cand_keys(t).into_iter().filter_map(|k| v.get(&k).map(|x| (k.clone(), x.clone()))).collect();
    format!("{:?}", kv)
}
fn l_cdncfg(v: &CdnConfig, t: &[&[u8]]) -> String {
    let kv: Vec<_> = cand_keys(t).into_iter().filter_map(|k| v.get(&k).map(|x| (k.clone(), x.clone()))).collect();
    format!("{:?}", kv)
}
fn l_patchcfg(v: &PatchConfig, t: &[&[u8]]) -> String {
    let kv: Vec<_> = cand_keys(t).into_iter().filter_map(|k| v.get_property(&k).map(|x| (k.clone(), x.to_string()))).collect();
    format!("{:?}|{:?}|{}", kv, v.entries(), v.property_count())
}
fn l_productcfg(v: &ProductConfig, _: &[&[u8]]) -> String {
    serde_json::to_value(v).map(|x| x.to_string()).unwrap_or_else(|e| format!("unserialisable: {e}"))
}
fn l_keyring(v: &KeyringConfig, _: &[&[u8]]) -> String {
    format!("{:?}", v.entries())
}
fn l_bpsv(v: &BpsvDocument, _: &[&[u8]]) -> String {
    let rows: Vec<_> = v.rows().iter().map(|r| format!("{:?}|{:?}", r.raw_values(), r.values())).collect();
    format!("{:?}|{:?}|{:?}", v.schema().fields(), v.sequence_number(), rows)
}
fn l_espec(v: &ESpec, _: &[&[u8]]) -> String {
    format!("{:?}", v)
}

casc_fmt!(f_blte, BlteFile, l_blte);
casc_fmt!(f_aidx, ArchiveIndex, l_aidx);
casc_fmt!(f_root, RootFile, l_root);
casc_fmt!(f_install, InstallManifest, l_install);
casc_fmt!(f_download, DownloadManifest, l_download);
casc_fmt!(f_size, SizeManifest, l_size);
casc_fmt!(f_tvfs, TvfsFile, l_tvfs);
casc_fmt!(f_pa, PatchArchive, l_pa);
casc_fmt!(f_pi, PatchIndex, l_pi);
casc_fmt!(f_zbs, ZbsDiff, l_zbs);
casc_fmt!(f_buildcfg, BuildConfig, l_buildcfg);
casc_fmt!(f_cdncfg, CdnConfig, l_cdncfg);
casc_fmt!(f_patchcfg, PatchConfig, l_patchcfg);
casc_fmt!(f_productcfg, ProductConfig, l_productcfg);
casc_fmt!(f_keyring, KeyringConfig, l_keyring);
casc_fmt!(f_bpsv, BpsvDocument, l_bpsv);
casc_fmt!(f_espec, ESpec, l_espec);

// the encoding file's inherent parse/build are what callers use (CascFormat delegates to them)
mod f_encoding {
    use super::*;
    pub fn parse(b: &[u8], _: &Env) -> Result<Val, String> {
        EncodingFile::parse(b).map(|v| Box::new(v) as Val).map_err(|e| e.to_string())
    }
    pub fn rt(v: Val, b: &[u8], _: &Env) -> Value {
        let v = *v.downcast::<EncodingFile>().expect("value type");
        rt_run::<EncodingFile>(v, b, &|x| EncodingFile::parse(x).map_err(|e| e.to_string()), &|v| v.build().map_err(|e| e.to_string()), &l_encoding)
    }
}

// ------------------------------------------------------------------------------------------------
// entry points without a serialiser (C02 only)
// ------------------------------------------------------------------------------------------------
fn unit() -> Val {
    Box::new(())
}
fn p_blte_decompress(b: &[u8], _: &Env) -> Result<Val, String> {
    let f = <BlteFile as CascFormat>::parse(b).map_err(|e| e.to_string())?;
    let plain = f.decompress().map_err(|e| e.to_string());
    let ks = cascette_crypto::TactKeyStore::new();
    let keyed = f.decompress_with_keys(&ks).map_err(|e| e.to_string());
    match (plain, keyed) {
        (Ok(_), _) | (_, Ok(_)) => Ok(unit()),
        (Err(e), Err(_)) => Err(e),
    }
}
fn p_encoding_blte(b: &[u8], _: &Env) -> Result<Val, String> {
    EncodingFile::parse_blte(b).map(|_| unit()).map_err(|e| e.to_string())
}
fn p_tvfs_blte(b: &[u8], _: &Env) -> Result<Val, String> {
    TvfsFile::load_from_blte(b).map(|_| unit()).map_err(|e| e.to_string())
}
fn p_agroup(b: &[u8], _: &Env) -> Result<Val, String> {
    let mut c = std::io::Cursor::new(b);
    ArchiveGroup::parse(&mut c).map(|_| unit()).map_err(|e| e.to_string())
}
fn p_zbs_apply(b: &[u8], env: &Env) -> Result<Val, String> {
    // input = patch; applied to every old file of the fixtures (and an empty one): Ok if any application succeeds
    let p = ZbsDiff::parse(b).map_err(|e| e.to_string())?;
    let mut last = String::from("no old data");
    let mut ok = false;
    for old in env.olds.iter().take(3) {
        match p.apply(old) {
            Ok(_) => ok = true,
            Err(e) => last = e.to_string(),
        }
    }
    match cascette_formats::zbsdiff::apply_patch_memory(&env.olds[0], b) {
        Ok(_) => ok = true,
        Err(e) => last = e.to_string(),
    }
    if ok { Ok(unit()) } else { Err(last) }
}
fn p_mime(b: &[u8], _: &Env) -> Result<Val, String> {
    use cascette_protocol::mime_parser::{is_v1_mime_response, parse_v1_mime_response, parse_v1_mime_to_bpsv};
    let _ = is_v1_mime_response(b);
    let r = parse_v1_mime_response(b).map(|_| ()).map_err(|e| e.to_string());
    let _ = parse_v1_mime_to_bpsv(b);
    r.map(|()| unit())
}
fn p_local_idx(b: &[u8], env: &Env) -> Result<Val, String> {
    use cascette_client_storage::index::IndexManager;
    let dir = env.tmp.join("idx");
    std::fs::create_dir_all(&dir).map_err(|e| e.to_string())?;
    let path = dir.join("0100000001.idx");
    std::fs::write(&path, b).map_err(|e| e.to_string())?;
    let mut m = IndexManager::new(&dir);
    let r = m.load_index(1, &path).map_err(|e| e.to_string());
    if r.is_ok() {
        let _ = m.entry_count();
        let _ = m.iter_entries().count();
    }
    r.map(|()| unit())
}
fn p_update_section(b: &[u8], _: &Env) -> Result<Val, String> {
    use cascette_client_storage::index::update::{UpdatePage, UpdateSection};
    let s = UpdateSection::from_bytes(b);
    let _ = s.entry_count();
    let _ = s.all_entries().filter(|e| e.validate_hash_guard()).count();
    let _ = s.to_bytes();
    match UpdatePage::from_bytes(b) {
        Some(p) => {
            let _ = p.to_bytes();
            Ok(unit())
        }
        None => Err("empty or short page".into()),
    }
}
fn p_residency(b: &[u8], env: &Env) -> Result<Val, String> {
    use cascette_client_storage::kmt::key_state::{ResidencyDb, ResidencyPage};
    let dir = env.tmp.join("res");
    std::fs::create_dir_all(&dir).map_err(|e| e.to_string())?;
    let path = dir.join("residency.db");
    std::fs::write(&path, b).map_err(|e| e.to_string())?;
    let _ = ResidencyPage::from_bytes(b);
    let db = ResidencyDb::load(&path).map_err(|e| e.to_string())?;
    let keys = db.scan_keys();
    for k in keys.iter().take(64) {
        let _ = db.is_resident(k);
    }
    let _ = db.entry_count();
    Ok(unit())
}
fn p_lru(b: &[u8], env: &Env) -> Result<Val, String> {
    use cascette_client_storage::lru::LruManager;
    use cascette_client_storage::lru::lru_file::{deserialize, lru_file_path};
    let d = deserialize(b);
    let dir = env.tmp.join("lru");
    std::fs::create_dir_all(&dir).map_err(|e| e.to_string())?;
    let generation = 7u64;
    std::fs::write(lru_file_path(&dir, generation), b).map_err(|e| e.to_string())?;
    let mut m = LruManager::new(8, dir.clone());
    let r = env.rt.block_on(m.load_from_disk(generation)).map_err(|e| e.to_string());
    if r.is_ok() {
        let mut n = 0u64;
        m.for_each_entry(|_| n += 1);
        let _ = m.len();
        let _ = m.touch(&[1, 2, 3, 4, 5, 6, 7, 8, 9]);
        let _ = m.evict_tail();
    }
    match (d, r) {
        (_, Ok(())) => Ok(unit()),
        (_, Err(e)) => Err(e),
    }
}
fn p_shmem(b: &[u8], _: &Env) -> Result<Val, String> {
    use cascette_client_storage::shmem::control_block::{PidTracking, ShmemControlBlock};
    let p = PidTracking::from_mapped(b);
    let _ = p.max_slots;
    match ShmemControlBlock::from_mapped(b) {
        Some(cb) => {
            let _ = cb.validate_for_bind();
            Ok(unit())
        }
        None => Err("not a control block".into()),
    }
}
fn p_build_info(b: &[u8], _: &Env) -> Result<Val, String> {
    use cascette_client_storage::build_info::BuildInfoFile;
    let s = std::str::from_utf8(b).map_err(|e| e.to_string())?;
    let f = BuildInfoFile::parse_str(s).map_err(|e| e.to_string())?;
    let _ = f.entry_count();
    if let Some(a) = f.active_entry() {
        let _ = (a.branch(), a.build_key(), a.cdn_key(), a.install_size(), a.cdn_hosts(), a.cdn_servers(), a.tags(), a.version(), a.product());
    }
    for e in f.entries() {
        let _ = (e.is_active(), e.install_key(), e.cdn_path(), e.armadillo(), e.last_activated());
    }
    Ok(unit())
}

static FORMATS: &[Fmt] = &[
    Fmt { name: "blte", decomp: false, text: false, parse: f_blte::parse, rt: Some(f_blte::rt), weight: 6 },
    Fmt { name: "blte_decompress", decomp: true, text: false, parse: p_blte_decompress, rt: None, weight: 6 },
    Fmt { name: "encoding", decomp: false, text: false, parse: f_encoding::parse, rt: Some(f_encoding::rt), weight: 6 },
    Fmt { name: "encoding_blte", decomp: true, text: false, parse: p_encoding_blte, rt: None, weight: 2 },
    Fmt { name: "archive_index", decomp: false, text: false, parse: f_aidx::parse, rt: Some(f_aidx::rt), weight: 6 },
    Fmt { name: "archive_group", decomp: false, text: false, parse: p_agroup, rt: None, weight: 3 },
    Fmt { name: "root", decomp: false, text: false, parse: f_root::parse, rt: Some(f_root::rt), weight: 6 },
    Fmt { name: "install", decomp: false, text: false, parse: f_install::parse, rt: Some(f_install::rt), weight: 5 },
    Fmt { name: "download", decomp: false, text: false, parse: f_download::parse, rt: Some(f_download::rt), weight: 5 },
    Fmt { name: "size", decomp: false, text: false, parse: f_size::parse, rt: Some(f_size::rt), weight: 5 },
    Fmt { name: "tvfs", decomp: false, text: false, parse: f_tvfs::parse, rt: Some(f_tvfs::rt), weight: 6 },
    Fmt { name: "tvfs_blte", decomp: true, text: false, parse: p_tvfs_blte, rt: None, weight: 2 },
    Fmt { name: "patch_archive", decomp: false, text: false, parse: f_pa::parse, rt: Some(f_pa::rt), weight: 5 },
    Fmt { name: "patch_index", decomp: false, text: false, parse: f_pi::parse, rt: Some(f_pi::rt), weight: 5 },
    Fmt { name: "zbsdiff", decomp: false, text: false, parse: f_zbs::parse, rt: Some(f_zbs::rt), weight: 4 },
    Fmt { name: "zbsdiff_apply", decomp: true, text: false, parse: p_zbs_apply, rt: None, weight: 5 },
    Fmt { name: "build_config", decomp: false, text: true, parse: f_buildcfg::parse, rt: Some(f_buildcfg::rt), weight: 3 },
    Fmt { name: "cdn_config", decomp: false, text: true, parse: f_cdncfg::parse, rt: Some(f_cdncfg::rt), weight: 3 },
    Fmt { name: "patch_config", decomp: false, text: true, parse: f_patchcfg::parse, rt: Some(f_patchcfg::rt), weight: 3 },
    Fmt { name: "product_config", decomp: false, text: true, parse: f_productcfg::parse, rt: Some(f_productcfg::rt), weight: 3 },
    Fmt { name: "keyring_config", decomp: false, text: true, parse: f_keyring::parse, rt: Some(f_keyring::rt), weight: 2 },
    Fmt { name: "bpsv", decomp: false, text: true, parse: f_bpsv::parse, rt: Some(f_bpsv::rt), weight: 4 },
    Fmt { name: "espec", decomp: false, text: true, parse: f_espec::parse, rt: Some(f_espec::rt), weight: 4 },
    Fmt { name: "mime", decomp: false, text: true, parse: p_mime, rt: None, weight: 4 },
    Fmt { name: "local_idx", decomp: false, text: false, parse: p_local_idx, rt: None, weight: 4 },
    Fmt { name: "update_section", decomp: false, text: false, parse: p_update_section, rt: None, weight: 2 },
    Fmt { name: "residency", decomp: false, text: false, parse: p_residency, rt: None, weight: 3 },
    Fmt { name: "lru", decomp: false, text: false, parse: p_lru, rt: None, weight: 3 },
    Fmt { name: "shmem", decomp: false, text: false, parse: p_shmem, rt: None, weight: 2 },
    Fmt { name: "build_info", decomp: false, text: true, parse: p_build_info, rt: None, weight: 2 },
];
fn fmt_index(name: &str) -> Option<usize> {
    FORMATS.iter().position(|f| f.name == name)
}

// ------------------------------------------------------------------------------------------------
// seeds: real CDN fixtures of /repo + small outputs of the crate's own builders
// ------------------------------------------------------------------------------------------------
#[derive(Clone)]
struct Seed {
    name: String,
    bytes: Vec<u8>,
    /// a real CDN file (C08: must round-trip byte-exactly)
    real: bool,
}
fn fixtures_dir() -> PathBuf {
    repo_root().join("crates/cascette-formats/test_fixtures")
}
fn fixture_files(sub: &str, pred: &dyn Fn(&str) -> bool) -> Vec<Seed> {
    let dir = fixtures_dir().join(sub);
    let mut names: Vec<String> = std::fs::read_dir(&dir)
        .map(|rd| rd.filter_map(|e| e.ok()).map(|e| e.file_name().to_string_lossy().to_string()).collect())
        .unwrap_or_default();
    names.sort();
    names
        .into_iter()
        .filter(|n| pred(n) && n != "manifest.json" && n != ".gitkeep")
        .filter_map(|n| std::fs::read(dir.join(&n)).ok().map(|b| Seed { name: format!("{sub}/{n}"), bytes: b, real: true }))
        .collect()
}
fn zbs_olds() -> Vec<Vec<u8>> {
    let mut v: Vec<Vec<u8>> = fixture_files("zbsdiff", &|n| n.ends_with(".old")).into_iter().map(|s| s.bytes).collect();
    v.sort_by_key(|b| b.len());
    v.insert(0, b"the quick brown fox jumps over the lazy dog".to_vec());
    v
}
fn k16(tag: u8, i: u64) -> [u8; 16] {
    let mut k = [tag; 16];
    k[..8].copy_from_slice(&(i.wrapping_mul(0x9E37_79B9_7F4A_7C15) | 1).to_be_bytes());
    k[15] = i as u8;
    k
}
fn k9(tag: u8, i: u64) -> [u8; 9] {
    let k = k16(tag, i);
    let mut o = [0u8; 9];
    o.copy_from_slice(&k[..9]);
    o
}
fn bseed(name: &str, r: Result<Vec<u8>, String>) -> Option<Seed> {
    match r {
        Ok(b) => Some(Seed { name: format!("builder/{name}"), bytes: b, real: false }),
        Err(e) => {
            eprintln!("driver: builder seed {name} unavailable: {e}");
            None
        }
    }
}
fn es<E: std::fmt::Display>(e: E) -> String {
    e.to_string()
}

fn build_blte_seed(multi: bool) -> Result<Vec<u8>, String> {
    use cascette_formats::blte::CompressionMode;
    let data: Vec<u8> = (0..300u32).map(|i| (i % 7) as u8 + b'a').collect();
    let f = if multi { BlteFile::compress(&data, 100, CompressionMode::ZLib).map_err(es)? } else { BlteFile::single_chunk(data, CompressionMode::None).map_err(es)? };
    <BlteFile as CascFormat>::build(&f).map_err(es)
}
fn build_encoding_file(n: u64) -> Result<EncodingFile, String> {
    use cascette_crypto::{ContentKey, EncodingKey};
    use cascette_formats::encoding::{CKeyEntryData, EKeyEntryData, EncodingBuilder};
    let mut b = EncodingBuilder::new().with_page_sizes(1, 1);
    for i in 0..n {
        b.add_ckey_entry(CKeyEntryData { content_key: ContentKey::from_bytes(k16(0xC0, i)), file_size: 100 + i, encoding_keys: vec![EncodingKey::from_bytes(k16(0xE0, i))] });
        b.add_ekey_entry(EKeyEntryData { encoding_key: EncodingKey::from_bytes(k16(0xE0, i)), espec: if i % 2 == 0 { "z".into() } else { "n".into() }, file_size: 90 + i });
    }
    b.build().map_err(es)
}
fn build_aidx_seed(n: u64, ow: u8) -> Result<Vec<u8>, String> {
    use cascette_formats::archive::{ArchiveGroupBuilder, ArchiveGroupEntry, ArchiveIndexBuilder};
    let mut out = Vec::new();
    if ow == 6 {
        let mut b = ArchiveGroupBuilder::new();
        for i in 0..n {
            b.add_entry(ArchiveGroupEntry::new(k16(0xA0, i).to_vec(), (i % 3) as u16, (i * 64) as u32, 32 + i as u32));
        }
        b.build(std::io::Cursor::new(&mut out)).map_err(es)?;
    } else {
        let mut b = ArchiveIndexBuilder::with_config(16, ow, 4);
        for i in 0..n {
            b.add_entry(k16(0xA0, i).to_vec(), 32 + i as u32, i * 64);
        }
        b.build(std::io::Cursor::new(&mut out)).map_err(es)?;
    }
    Ok(out)
}
fn build_root_seed(ver: u32, n: u64) -> Result<Vec<u8>, String> {
    use cascette_crypto::md5::{ContentKey, FileDataId};
    use cascette_formats::root::{ContentFlags, LocaleFlags, RootBuilder, RootVersion};
    let v = match ver {
        1 => RootVersion::V1,
        2 => RootVersion::V2,
        3 => RootVersion::V3,
        _ => RootVersion::V4,
    };
    let mut b = RootBuilder::new(v);
    for i in 0..n {
        let locale = if i % 2 == 1 { LocaleFlags::DEDE } else { LocaleFlags::ENUS };
        let path = format!("interface/file_{i}.blp");
        b.add_file(FileDataId::new(100 + 3 * i as u32), ContentKey::from_bytes(k16(0xC1, i)), Some(path.as_str()), LocaleFlags::new(locale), ContentFlags::new(ContentFlags::INSTALL));
    }
    b.build().map_err(es)
}
fn build_install_seed() -> Result<Vec<u8>, String> {
    use cascette_crypto::ContentKey;
    use cascette_formats::install::{InstallManifestBuilder, TagType};
    let mut b = InstallManifestBuilder::new().add_tag("Windows".into(), TagType::Platform).add_tag("enUS".into(), TagType::Locale);
    for i in 0..5u64 {
        b = b.add_file(format!("dir/file{i}.dat"), ContentKey::from_bytes(k16(0xC2, i)), 1000 + i as u32);
        b = b.associate_file_with_tag(i as usize, if i % 2 == 0 { "Windows" } else { "enUS" }).map_err(es)?;
    }
    b.build().map_err(es)?.build().map_err(es)
}
fn build_download_seed(ver: u8) -> Result<Vec<u8>, String> {
    use cascette_crypto::EncodingKey;
    use cascette_formats::download::DownloadManifestBuilder;
    use cascette_formats::install::TagType;
    let mut b = DownloadManifestBuilder::new(ver).map_err(es)?;
    if ver >= 2 {
        b = b.with_flags(1).map_err(es)?;
    }
    if ver >= 3 {
        b = b.with_base_priority(-1).map_err(es)?;
    }
    b = b.with_checksums(ver != 2);
    b = b.add_tag("Windows".into(), TagType::Platform).add_tag("enUS".into(), TagType::Locale);
    for i in 0..5u64 {
        b = b.add_file(EncodingKey::from_bytes(k16(0xE2, i)), 5000 + i, (i % 3) as i8).map_err(es)?;
        b = b.associate_file_with_tag(i as usize, if i % 2 == 0 { "Windows" } else { "enUS" }).map_err(es)?;
    }
    b.build().map_err(es)?.build().map_err(es)
}
fn build_size_seed(ver: u8) -> Result<Vec<u8>, String> {
    use cascette_formats::install::TagType;
    use cascette_formats::size::SizeManifestBuilder;
    let mut b = SizeManifestBuilder::new().version(ver).ekey_size(9).add_tag("Windows".into(), TagType::Platform);
    if ver == 1 {
        b = b.esize_bytes(4);
    }
    for i in 0..5u64 {
        b = b.add_entry(k9(0xE3, i).to_vec(), 700 + i);
    }
    b = b.tag_file(0, 1).tag_file(0, 3);
    b.build().map_err(es)?.build().map_err(es)
}
fn build_tvfs_seed(est: bool) -> Result<Vec<u8>, String> {
    use cascette_formats::tvfs::TvfsBuilder;
    let mut b = if est { TvfsBuilder::with_flags(0x7) } else { TvfsBuilder::new() };
    if est {
        b.add_est_spec("z".into());
        b.add_est_spec("b:{256K*=z}".into());
    }
    for i in 0..6u64 {
        let path = format!("data/sub{}/file{i}.bin", i % 2);
        if est {
            b.add_file_with_est(path, k9(0xE4, i), 100 + i as u32, 200 + i as u32, Some(k16(0xC4, i)), (i % 2) as u32);
        } else {
            b.add_file(path, k9(0xE4, i), 100 + i as u32, 200 + i as u32, Some(k16(0xC4, i)));
        }
    }
    b.build().map_err(es)
}
fn build_pa_seed(ext: bool) -> Result<Vec<u8>, String> {
    use cascette_formats::patch_archive::{PatchArchiveBuilder, PatchArchiveEncodingInfo};
    let mut b = PatchArchiveBuilder::new();
    if ext {
        b = b.encoding_info(PatchArchiveEncodingInfo { encoding_ckey: k16(0xC5, 90), encoding_ekey: k16(0xE5, 91), decoded_size: 1234, encoded_size: 999, espec: "b:{22=n,*=z}".into() });
    }
    for i in 0..4u64 {
        b.add_file_entry(k16(0xC5, i), 4000 + i, vec![(k16(0xE5, i), 3000 + i, k16(0xF5, i), 77 + i as u32, 1)]);
    }
    b.sort_entries();
    b.build().map_err(es)
}
fn build_pi_seed() -> Result<Vec<u8>, String> {
    use cascette_formats::patch_index::{PatchIndexBuilder, PatchIndexEntry};
    let mut b = PatchIndexBuilder::new().key_size(16);
    for i in 0..4u64 {
        b.add_entry(PatchIndexEntry { source_ekey: k16(0xE6, i), source_size: 100 + i as u32, target_ekey: k16(0xE7, i), target_size: 200 + i as u32, encoded_size: 50 + i as u32, suffix_offset: 1, patch_ekey: k16(0xF6, i) });
    }
    b.build().map_err(es)
}
fn build_zbs_seed() -> Result<Vec<u8>, String> {
    let old = b"the quick brown fox jumps over the lazy dog".to_vec();
    let new = b"the quick red fox jumped over the lazy dogs!".to_vec();
    cascette_formats::zbsdiff::ZbsdiffBuilder::new(old, new).build().map_err(es)
}
fn build_local_idx_seed(tmp: &Path, flush: bool) -> Result<Vec<u8>, String> {
    use cascette_client_storage::index::IndexManager;
    use cascette_crypto::EncodingKey;
    let dir = tmp.join(if flush { "seed_idx_f" } else { "seed_idx_u" });
    let _ = std::fs::remove_dir_all(&dir);
    std::fs::create_dir_all(&dir).map_err(es)?;
    let mut m = IndexManager::new(&dir);
    let mut bucket = None;
    let mut n = 0;
    for i in 0..400u64 {
        let k = EncodingKey::from_bytes(k16(0xE8, i));
        let b = IndexManager::bucket_for_key(&k);
        if bucket.is_none() {
            bucket = Some(b);
        }
        if Some(b) == bucket && n < 6 {
            m.add_entry(&k, 1, (n * 4096) as u32, 300 + n as u32).map_err(es)?;
            n += 1;
            if flush && n == 4 {
                m.flush_all_updates().map_err(es)?;
            }
        }
    }
    m.save_all().map_err(es)?;
    let mut files: Vec<PathBuf> = std::fs::read_dir(&dir).map_err(es)?.filter_map(|e| e.ok()).map(|e| e.path()).filter(|p| p.extension().is_some_and(|x| x == "idx")).collect();
    files.sort();
    let f = files.first().ok_or("no idx file written")?;
    std::fs::read(f).map_err(es)
}
fn build_update_section_seed() -> Result<Vec<u8>, String> {
    use cascette_client_storage::index::update::{UpdateEntry, UpdateSection, UpdateStatus};
    use cascette_client_storage::index::ArchiveLocation;
    let mut s = UpdateSection::new();
    for i in 0..30u64 {
        let _ = s.append(UpdateEntry::new(k9(0xE9, i), ArchiveLocation { archive_id: 1, archive_offset: (i * 512) as u32 }, 100 + i as u32, UpdateStatus::Normal));
    }
    Ok(s.to_bytes())
}
fn build_residency_seed(tmp: &Path) -> Result<Vec<u8>, String> {
    use cascette_client_storage::kmt::key_state::ResidencyDb;
    let p = tmp.join("seed_residency.db");
    let _ = std::fs::remove_file(&p);
    let mut db = ResidencyDb::new(p.clone());
    for i in 0..40u64 {
        db.mark_resident(&k16(0xEA, i));
    }
    db.mark_non_resident(&k16(0xEA, 3));
    db.save().map_err(es)?;
    std::fs::read(&p).map_err(es)
}
fn build_lru_seed(n: u32) -> Vec<u8> {
    use cascette_client_storage::lru::lru_file::{LRU_SENTINEL, LruFileEntry, LruFileHeader, serialize};
    // list tail -> head: 0 -> 1 -> ... -> n-1 (next points towards the MRU end), two free slots at the end
    let mut entries = Vec::new();
    for i in 0..n {
        entries.push(LruFileEntry { prev: if i == 0 { LRU_SENTINEL } else { i - 1 }, next: if i + 1 == n { LRU_SENTINEL } else { i + 1 }, ekey: k9(0xEB, u64::from(i)), flags: 0 });
    }
    for _ in 0..2 {
        entries.push(LruFileEntry { prev: LRU_SENTINEL, next: LRU_SENTINEL, ekey: [0; 9], flags: 0 });
    }
    let header = LruFileHeader { version: 1, hash: [0; 16], mru_head: if n == 0 { LRU_SENTINEL } else { n - 1 }, lru_tail: if n == 0 { LRU_SENTINEL } else { 0 } };
    serialize(&header, &entries)
}
fn build_shmem_seed(v5: bool) -> Vec<u8> {
    use cascette_client_storage::shmem::control_block::{ShmemControlBlock, v4_file_size, v5_file_size};
    if v5 {
        let mut cb = ShmemControlBlock::new_v5_with_pid_tracking(4);
        cb.initialize(0x1000);
        if let Some(p) = cb.pid_tracking_mut() {
            let _ = p.add_process(1234, 1);
        }
        let mut buf = vec![0u8; v5_file_size(true).max(0x258 + 0x1C + 64)];
        cb.to_mapped(&mut buf);
        buf
    } else {
        let mut buf = vec![0u8; v4_file_size()];
        if let Some(mut cb) = ShmemControlBlock::new(4) {
            cb.initialize(0x1000);
            cb.to_mapped(&mut buf);
        }
        buf
    }
}
const BPSV_SEED: &str = "Region!STRING:0|BuildConfig!HEX:16|CDNConfig!HEX:16|BuildId!DEC:4|VersionsName!String:0\n## seqn = 2241282\nus|be2bb98dc28aee05bbee519393696cdb|fac77b9ca52c84ac28ad83a7dbe1c829|61491|11.1.5.61491\neu|be2bb98dc28aee05bbee519393696cdb|fac77b9ca52c84ac28ad83a7dbe1c829|61491|11.1.5.61491\ncn|||0|\n";
const BUILD_INFO_SEED: &str = "Branch!STRING:0|Active!DEC:1|Build Key!HEX:16|CDN Key!HEX:16|Install Key!HEX:16|IM Size!DEC:4|CDN Path!STRING:0|CDN Hosts!STRING:0|CDN Servers!STRING:0|Tags!STRING:0|Armadillo!STRING:0|Last Activated!STRING:0|Version!STRING:0|Product!STRING:0\nus|1|be2bb98dc28aee05bbee519393696cdb|fac77b9ca52c84ac28ad83a7dbe1c829|0123456789abcdef0123456789abcdef|4096|tpr/wow|level3.blizzard.com us.cdn.blizzard.com|http://level3.blizzard.com/?maxhosts=4 https://us.cdn.blizzard.com/?maxhosts=4|Windows x86_64 US? enUS speech?:Windows x86_64 US? enUS text?||2025-01-01T00:00:00Z|11.1.5.61491|wow\neu|0|be2bb98dc28aee05bbee519393696cdb|fac77b9ca52c84ac28ad83a7dbe1c829||0|tpr/wow|eu.cdn.blizzard.com||||||wow\n";
const CDN_CONFIG_SEED: &str = "# CDN Configuration\n\narchives = 0017a402f556fbece46c38dc431a2c9b 00b79cc0eebdd26437c7e92e57ac7f5c 00872b40344ef1a3dac4aff09588603c\narchives-index-size = 173068 53588 41228\narchive-group = 58a3c9e02c964b0ec9dd6c085df99a77\npatch-archives = 071290388e1f3b898157c372f03bc435\npatch-archives-index-size = 2709\npatch-archive-group = aaad2399821319140599c508abd54c9c\nfile-index = e3fffe04f64007852408b86e44d91e5a\nfile-index-size = 9901\npatch-file-index = 35dc55e39ec07e21e9f9dd83c41ec208\npatch-file-index-size = 182\n";
const PATCH_CONFIG_SEED: &str = "# Patch Configuration\n\npatch = aaad2399821319140599c508abd54c9c\npatch-size = 16725\npatch-entry = install 4e173599a18ca79e8fac4aa63c66304c 24197 bc4e960bed45b649d32a269ff33f2b73 23331 b:{22=n,*=z}\npatch-entry = encoding e058fa32dfe994c5e143bd0fcd0994dd 147000 25c87b6ce82551dc8d62c2800aad6e8f 146000\npatch-entry = download 0123456789abcdef0123456789abcdef 2798 fedcba9876543210fedcba9876543210\n";
const PRODUCT_CONFIG_SEED: &str = r#"{"all":{"config":{"data_dir":"Data/","display_locales":["enUS","deDE"],"supported_locales":["enUS","deDE","frFR"],"product":"WoW","enable_block_copy_patch":true,"supports_multibox":true,"supports_offline":false,"shared_container_default_subfolder":"_retail_","launch_arguments":["-launch"],"opaque_product_specific":{"uses_web_credentials":"true","a":"1","b":"2"},"form":{"game_dir":{"dirname":"World of Warcraft"}}}},"enus":{"config":{"install":[{"add_remove_programs_key":{"display_name":"World of Warcraft","uninstall_path":"x","root":"HKEY_LOCAL_MACHINE"}}]}},"platform":{"win":{"config":{"binaries":{"game":{"relative_path":"Wow.exe","launch_arguments":[]}}}}}}"#;
const MIME_SEED: &str = "MIME-Version: 1.0\r\nContent-Type: multipart/alternative; boundary=\"d39ea8fd-f2a5-4b1c-a2a6-1f5f0d1f8a3e\"\r\n\r\n--d39ea8fd-f2a5-4b1c-a2a6-1f5f0d1f8a3e\r\nContent-Type: text/plain\r\nContent-Disposition: version\r\n\r\nRegion!STRING:0|BuildConfig!HEX:16|BuildId!DEC:4\n## seqn = 2241282\nus|be2bb98dc28aee05bbee519393696cdb|61491\neu|be2bb98dc28aee05bbee519393696cdb|61491\n\r\n--d39ea8fd-f2a5-4b1c-a2a6-1f5f0d1f8a3e\r\nContent-Type: application/octet-stream\r\nContent-Disposition: signature\r\n\r\nAAECAwQFBgcICQ==\r\n--d39ea8fd-f2a5-4b1c-a2a6-1f5f0d1f8a3e--\r\nChecksum: 0000000000000000000000000000000000000000000000000000000000000000\r\n";
const MIME_SEED_PLAIN: &str = "MIME-Version: 1.0\r\nContent-Type: multipart/mixed; boundary=\"xyz\"\r\n\r\n--xyz\r\nContent-Disposition: cdns\r\n\r\nName!STRING:0|Path!STRING:0|Hosts!STRING:0\nus|tpr/wow|level3.blizzard.com\n\r\n--xyz--\r\n";

fn text_seed(name: &str, s: &str) -> Seed {
    Seed { name: format!("text/{name}"), bytes: s.as_bytes().to_vec(), real: false }
}
fn espec_seeds() -> Vec<Seed> {
    let mut v: Vec<String> = ["n", "z", "z:9", "z:{9,15}", "z:{6,mpq}", "b:{256K*=z}", "b:{1M*3=z:9,16K=n,*=z}", "e:{0123456789ABCDEF,01020304,z}", "b:{22=n,100=e:{0123456789ABCDEF,01020304,b:{50=z,*=n}},*=z}", "c:{5}", "g:{3}"]
        .iter()
        .map(|s| (*s).to_string())
        .collect();
    if let Ok(t) = std::fs::read(fixtures_dir().join("espec/wow_classic_era_especs.json"))
        && let Ok(j) = serde_json::from_slice::<Value>(&t)
        && let Some(a) = j["especs"].as_array()
    {
        for (i, s) in a.iter().enumerate() {
            if i % 4 == 0
                && let Some(s) = s.as_str()
            {
                v.push(s.to_string());
            }
        }
    }
    v.into_iter().enumerate().map(|(i, s)| Seed { name: format!("espec/{i}"), bytes: s.into_bytes(), real: i >= 11 }).collect()
}

/// seeds per format index
fn all_seeds(tmp: &Path) -> Vec<Vec<Seed>> {
    let any = |_: &str| true;
    let mut out: Vec<Vec<Seed>> = Vec::new();
    let enc_small = build_encoding_file(5);
    for f in FORMATS {
        let mut v: Vec<Seed> = Vec::new();
        match f.name {
            "blte" | "blte_decompress" => {
                v.extend(bseed("blte_multi", guarded(|| build_blte_seed(true)).unwrap_or_else(Err)));
                v.extend(bseed("blte_single", guarded(|| build_blte_seed(false)).unwrap_or_else(Err)));
                v.extend(fixture_files("tvfs", &|n| n.ends_with(".blte")));
            }
            "encoding" => {
                v.extend(bseed("encoding5", enc_small.clone().and_then(|e| e.build().map_err(es))));
                v.extend(bseed("encoding40", build_encoding_file(40).and_then(|e| e.build().map_err(es))));
                v.extend(fixture_files("encoding", &|n| n.ends_with(".bin")));
            }
            "encoding_blte" => {
                v.extend(bseed("encoding5_blte", enc_small.clone().and_then(|e| e.build_blte().map_err(es))));
            }
            "archive_index" => {
                v.extend(bseed("aidx7", build_aidx_seed(7, 4)));
                v.extend(bseed("aidx300_o5", build_aidx_seed(300, 5)));
                v.extend(bseed("agroup9", build_aidx_seed(9, 6)));
                v.extend(fixture_files("archive", &|n| n.ends_with(".index")));
            }
            "archive_group" => {
                v.extend(bseed("agroup9", build_aidx_seed(9, 6)));
                v.extend(bseed("agroup200", build_aidx_seed(200, 6)));
            }
            "root" => {
                for ver in 1..=4u32 {
                    v.extend(bseed(&format!("root_v{ver}"), guarded(|| build_root_seed(ver, 6)).unwrap_or_else(Err)));
                }
                v.extend(fixture_files("root", &|n| n.ends_with(".root")));
            }
            "install" => {
                v.extend(bseed("install5", guarded(build_install_seed).unwrap_or_else(Err)));
                v.extend(fixture_files("install", &|n| n.ends_with(".install")));
            }
            "download" => {
                for ver in 1..=3u8 {
                    v.extend(bseed(&format!("download_v{ver}"), guarded(|| build_download_seed(ver)).unwrap_or_else(Err)));
                }
                v.extend(fixture_files("download", &|n| n.ends_with(".download")));
            }
            "size" => {
                for ver in 1..=2u8 {
                    v.extend(bseed(&format!("size_v{ver}"), guarded(|| build_size_seed(ver)).unwrap_or_else(Err)));
                }
            }
            "tvfs" => {
                v.extend(bseed("tvfs6", guarded(|| build_tvfs_seed(false)).unwrap_or_else(Err)));
                v.extend(bseed("tvfs6_est", guarded(|| build_tvfs_seed(true)).unwrap_or_else(Err)));
                v.extend(fixture_files("tvfs", &|n| n.ends_with(".bin")));
            }
            "tvfs_blte" => v.extend(fixture_files("tvfs", &|n| n.ends_with(".blte"))),
            "patch_archive" => {
                v.extend(bseed("pa4", guarded(|| build_pa_seed(false)).unwrap_or_else(Err)));
                v.extend(bseed("pa4_ext", guarded(|| build_pa_seed(true)).unwrap_or_else(Err)));
                v.extend(fixture_files("patch_archive", &|n| n.ends_with(".bin")));
            }
            "patch_index" => {
                v.extend(bseed("pi4", guarded(build_pi_seed).unwrap_or_else(Err)));
                v.extend(fixture_files("patch_index", &|n| n.ends_with(".bin")));
            }
            "zbsdiff" | "zbsdiff_apply" => {
                v.extend(bseed("zbs_small", guarded(build_zbs_seed).unwrap_or_else(Err)));
                v.extend(fixture_files("zbsdiff", &|n| n.ends_with(".zbsdiff")));
            }
            "build_config" => v.extend(fixture_files("config", &|n| n.contains("build_config"))),
            "cdn_config" => v.push(text_seed("cdn_config", CDN_CONFIG_SEED)),
            "patch_config" => v.push(text_seed("patch_config", PATCH_CONFIG_SEED)),
            "product_config" => v.push(text_seed("product_config", PRODUCT_CONFIG_SEED)),
            "keyring_config" => v.extend(fixture_files("config", &|n| n.contains("keyring"))),
            "bpsv" => {
                v.push(text_seed("bpsv_versions", BPSV_SEED));
                v.push(text_seed("build_info", BUILD_INFO_SEED));
            }
            "espec" => v.extend(espec_seeds()),
            "mime" => {
                v.push(text_seed("mime_v1", MIME_SEED));
                v.push(text_seed("mime_plain", MIME_SEED_PLAIN));
                v.push(text_seed("bpsv_versions", BPSV_SEED));
            }
            "local_idx" => {
                v.extend(bseed("idx_updates", guarded(|| build_local_idx_seed(tmp, false)).unwrap_or_else(Err)));
                v.extend(bseed("idx_flushed", guarded(|| build_local_idx_seed(tmp, true)).unwrap_or_else(Err)));
            }
            "update_section" => v.extend(bseed("update30", guarded(build_update_section_seed).unwrap_or_else(Err))),
            "residency" => v.extend(bseed("residency40", guarded(|| build_residency_seed(tmp)).unwrap_or_else(Err))),
            "lru" => {
                v.push(Seed { name: "builder/lru5".into(), bytes: build_lru_seed(5), real: false });
                v.push(Seed { name: "builder/lru0".into(), bytes: build_lru_seed(0), real: false });
            }
            "shmem" => {
                v.push(Seed { name: "builder/shmem_v5".into(), bytes: build_shmem_seed(true), real: false });
                v.push(Seed { name: "builder/shmem_v4".into(), bytes: build_shmem_seed(false), real: false });
            }
            "build_info" => v.push(text_seed("build_info", BUILD_INFO_SEED)),
            _ => {}
        }
        let _ = any;
        if v.is_empty() {
            eprintln!("driver: no seed for format {}", f.name);
            std::process::exit(4);
        }
        out.push(v);
    }
    out
}

//@@LAYOUT@@
//@@MUTATE@@
//@@BPROG@@
//@@PARENT@@

// ------------------------------------------------------------------------------------------------
// child
// ------------------------------------------------------------------------------------------------
fn child_main(args: &[String]) {
    quiet_panics();
    let tmp = PathBuf::from(arg(args, "--tmp").expect("--tmp"));
    std::fs::create_dir_all(&tmp).expect("tmp dir");
    let env = Env { tmp, rt: verif_harness::rt(), olds: zbs_olds() };
    let stdin = std::io::stdin();
    let mut rd = stdin.lock();
    let stdout = std::io::stdout();
    let mut out = stdout.lock();
    loop {
        let mut h = [0u8; 7];
        if rd.read_exact(&mut h).is_err() {
            break;
        }
        let kind = h[0];
        let fi = u16::from_le_bytes([h[1], h[2]]) as usize;
        let len = u32::from_le_bytes([h[3], h[4], h[5], h[6]]) as usize;
        let mut payload = vec![0u8; len];
        if rd.read_exact(&mut payload).is_err() {
            break;
        }
        if kind == b'B' {
            let prog: Value = serde_json::from_slice(&payload).expect("builder program json");
            let base = meter_reset();
            let t0 = Instant::now();
            let mut res = run_bprog(&prog);
            let (peak, largest, _) = meter_read(base);
            res["k"] = json!("b");
            res["peak"] = json!(peak);
            res["largest"] = json!(largest);
            res["us"] = json!(t0.elapsed().as_micros() as u64);
            writeln!(out, "{res}").expect("child stdout");
            out.flush().expect("child stdout");
            continue;
        }
        let f = &FORMATS[fi];
        let base = meter_reset();
        let t0 = Instant::now();
        let r = guarded(|| (f.parse)(&payload, &env));
        let us = t0.elapsed().as_micros() as u64;
        let (peak, largest, na) = meter_read(base);
        let (o, msg, val) = match r {
            Ok(Ok(v)) => ("ok", String::new(), Some(v)),
            Ok(Err(e)) => ("err", e, None),
            Err(p) => ("panic", p, None),
        };
        let more = val.is_some() && f.rt.is_some();
        writeln!(out, "{}", json!({"k": "p", "o": o, "msg": trunc(&msg, 200), "peak": peak, "largest": largest, "na": na, "us": us, "more": more})).expect("child stdout");
        out.flush().expect("child stdout");
        if more {
            let t1 = Instant::now();
            let mut res = (f.rt.expect("rt"))(val.expect("val"), &payload, &env);
            res["k"] = json!("r");
            res["us"] = json!(t1.elapsed().as_micros() as u64);
            writeln!(out, "{res}").expect("child stdout");
            out.flush().expect("child stdout");
        }
    }
}

fn main() {
    let args: Vec<String> = std::env::args().collect();
    if has_flag(&args, "--child") {
        child_main(&args);
        return;
    }
    parent_main(&args);
}
