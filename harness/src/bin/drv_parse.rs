//! C02 / C08 driver: every parser of cascette-rs on structured boundary vectors, seeded mutations and
//! builder programs, in an isolated child process under a counting allocator.
//!
//! Parent (`drv_parse --out trace.ndjson ...`): plans the inputs
//!   * `fixture`  every seed as it is (real CDN fixtures of /repo's test_fixtures + small builder outputs)
//!   * `model`    field vectors enumerated by TLC from spec/mc/MC_ParserGuard.tla (`--vectors`), patched into
//!                the seeds of the format through the layout table below
//!   * `mut`      seeded mutations (bit flips, byte/word overwrites, truncations, splices, length-field
//!                tweaks, checksum re-sealing) of the same seeds (`--mutations N`, `VERIF_SEED`)
//!   * `bprog`    builder programs enumerated by TLC from spec/mc/MC_RoundTrip.tla (`--bprogs`)
//! and feeds them to `--jobs` child processes (`drv_parse --child`).  A child runs each real parser under
//! `catch_unwind` with the allocator counters reset; a single request above 2 GiB (or more than 3 GiB live)
//! is refused, which the standard library turns into an abort - the parent observes the death of the child
//! (abort, stack overflow, timeout) as the *outcome* of that input, restarts the child and re-runs the input
//! alone before it records a hang or an abort.  For every accepted input of a format with a serialiser the
//! child also performs parse -> build -> parse -> build and logs digests (C08).
//!
//! The driver records; it never judges.  spec/trace/T_ParserGuard.tla and T_RoundTrip.tla do.

use cascette_formats::CascFormat;
use serde_json::{Map, Value, json};
use std::alloc::{GlobalAlloc, Layout, System};
use std::any::Any;
use std::io::{BufRead, BufReader, Read, Write};
use std::path::{Path, PathBuf};
use std::sync::atomic::{AtomicU64, AtomicUsize, Ordering::Relaxed};
use std::time::{Duration, Instant};
use verif_harness::{Rng, arg, arg_u64, guarded, has_flag, md5hex, quiet_panics, seed_from_env};

// ------------------------------------------------------------------------------------------------
// counting allocator
// ------------------------------------------------------------------------------------------------
struct Counting;
static CUR: AtomicUsize = AtomicUsize::new(0);
static PEAK: AtomicUsize = AtomicUsize::new(0);
static LARGEST: AtomicUsize = AtomicUsize::new(0);
static NALLOC: AtomicU64 = AtomicU64::new(0);
const MAX_SINGLE: usize = 2 << 30;
const MAX_LIVE: usize = 3 << 30;

#[inline]
fn admit(req: usize, delta: usize) -> bool {
    LARGEST.fetch_max(req, Relaxed);
    NALLOC.fetch_add(1, Relaxed);
    let c = CUR.fetch_add(delta, Relaxed) + delta;
    if req > MAX_SINGLE || c > MAX_LIVE {
        CUR.fetch_sub(delta, Relaxed);
        return false;
    }
    PEAK.fetch_max(c, Relaxed);
    true
}
unsafe impl GlobalAlloc for Counting {
    unsafe fn alloc(&self, l: Layout) -> *mut u8 {
        if !admit(l.size(), l.size()) {
            return std::ptr::null_mut();
        }
        let p = unsafe { System.alloc(l) };
        if p.is_null() {
            CUR.fetch_sub(l.size(), Relaxed);
        }
        p
    }
    unsafe fn alloc_zeroed(&self, l: Layout) -> *mut u8 {
        if !admit(l.size(), l.size()) {
            return std::ptr::null_mut();
        }
        let p = unsafe { System.alloc_zeroed(l) };
        if p.is_null() {
            CUR.fetch_sub(l.size(), Relaxed);
        }
        p
    }
    unsafe fn dealloc(&self, p: *mut u8, l: Layout) {
        CUR.fetch_sub(l.size(), Relaxed);
        unsafe { System.dealloc(p, l) }
    }
    unsafe fn realloc(&self, p: *mut u8, l: Layout, new: usize) -> *mut u8 {
        if new > l.size() {
            if !admit(new, new - l.size()) {
                return std::ptr::null_mut();
            }
            let q = unsafe { System.realloc(p, l, new) };
            if q.is_null() {
                CUR.fetch_sub(new - l.size(), Relaxed);
            }
            q
        } else {
            let q = unsafe { System.realloc(p, l, new) };
            if !q.is_null() {
                CUR.fetch_sub(l.size() - new, Relaxed);
            }
            q
        }
    }
}
#[global_allocator]
static ALLOC: Counting = Counting;

fn meter_reset() -> usize {
    let base = CUR.load(Relaxed);
    PEAK.store(base, Relaxed);
    LARGEST.store(0, Relaxed);
    NALLOC.store(0, Relaxed);
    base
}
fn meter_read(base: usize) -> (usize, usize, u64) {
    (PEAK.load(Relaxed).saturating_sub(base), LARGEST.load(Relaxed), NALLOC.load(Relaxed))
}

// ------------------------------------------------------------------------------------------------
// small helpers
// ------------------------------------------------------------------------------------------------
fn trunc(s: &str, n: usize) -> String {
    s.chars().take(n).collect()
}
fn kib(n: usize) -> u64 {
    (n as u64).div_ceil(1024)
}
fn repo_root() -> PathBuf {
    PathBuf::from(std::env::var("VERIF_REPO").unwrap_or_else(|_| "/repo".into()))
}
/// 16-bit limbs, most significant first (TLC integers are 32-bit).
fn limbs(v: u64, width: usize) -> Value {
    let n = width.div_ceil(2).max(1);
    Value::Array((0..n).rev().map(|i| json!((v >> (16 * i)) & 0xFFFF)).collect())
}

struct Env {
    tmp: PathBuf,
    rt: tokio::runtime::Runtime,
    olds: Vec<Vec<u8>>,
}

type Val = Box<dyn Any>;
type ParseFn = fn(&[u8], &Env) -> Result<Val, String>;
type RtFn = fn(Val, &[u8], &Env) -> Value;

struct Fmt {
    name: &'static str,
    /// the entry point decompresses: the documented 1 GiB cap is added to the allocation bound
    decomp: bool,
    text: bool,
    parse: ParseFn,
    rt: Option<RtFn>,
    weight: u32,
}

fn stage_out<T>(r: Result<Result<T, String>, String>) -> (Value, Option<T>) {
    match r {
        Ok(Ok(v)) => (json!({"o": "ok"}), Some(v)),
        Ok(Err(e)) => (json!({"o": "err", "msg": trunc(&e, 160)}), None),
        Err(p) => (json!({"o": "panic", "msg": trunc(&p, 200)}), None),
    }
}

/// parse -> build -> parse -> build with digests (C08).  `logical(v, texts)` is the format's logical
/// content as a canonical string (entries, keys, sizes, flags, tags - no layout, no lookup tables).
fn rt_run<T>(
    v: T,
    b: &[u8],
    parse: &dyn Fn(&[u8]) -> Result<T, String>,
    build: &dyn Fn(&T) -> Result<Vec<u8>, String>,
    logical: &dyn Fn(&T, &[&[u8]]) -> String,
) -> Value {
    let mut o = Map::new();
    let (s2, b2) = stage_out(guarded(|| build(&v)));
    let mut s2 = s2;
    if let Some(ref x) = b2 {
        s2["d"] = json!(md5hex(x));
        s2["n"] = json!(x.len());
    }
    o.insert("b2".into(), s2);
    let texts: Vec<&[u8]> = match b2 {
        Some(ref x) => vec![b, x.as_slice()],
        None => vec![b],
    };
    match guarded(|| logical(&v, &texts)) {
        Ok(s) => {
            o.insert("l1".into(), json!(md5hex(s.as_bytes())));
            if std::env::var("VERIF_PARSE_SHOW_LOGICAL").is_ok() {
                o.insert("l1_text".into(), json!(trunc(&s, 4000)));
            }
        }
        Err(p) => {
            o.insert("l1".into(), json!(format!("panic: {}", trunc(&p, 120))));
        }
    }
    let Some(b2) = b2 else { return Value::Object(o) };
    let (s, v2) = stage_out(guarded(|| parse(&b2)));
    o.insert("p2".into(), s);
    let Some(v2) = v2 else { return Value::Object(o) };
    match guarded(|| logical(&v2, &texts)) {
        Ok(s) => {
            o.insert("l2".into(), json!(md5hex(s.as_bytes())));
            if std::env::var("VERIF_PARSE_SHOW_LOGICAL").is_ok() {
                o.insert("l2_text".into(), json!(trunc(&s, 4000)));
            }
        }
        Err(p) => {
            o.insert("l2".into(), json!(format!("panic: {}", trunc(&p, 120))));
        }
    }
    let (s3, b3) = stage_out(guarded(|| build(&v2)));
    let mut s3 = s3;
    if let Some(ref x) = b3 {
        s3["d"] = json!(md5hex(x));
        s3["n"] = json!(x.len());
    }
    o.insert("b3".into(), s3);
    Value::Object(o)
}

macro_rules! casc_fmt {
    ($m:ident, $T:ty, $logical:expr) => {
        mod $m {
            use super::*;
            pub fn parse(b: &[u8], _: &Env) -> Result<Val, String> {
                <$T as CascFormat>::parse(b).map(|v| Box::new(v) as Val).map_err(|e| e.to_string())
            }
            pub fn rt(v: Val, b: &[u8], _: &Env) -> Value {
                let v = *v.downcast::<$T>().expect("value type");
                rt_run::<$T>(
                    v,
                    b,
                    &|x| <$T as CascFormat>::parse(x).map_err(|e| e.to_string()),
                    &|v| <$T as CascFormat>::build(v).map_err(|e| e.to_string()),
                    &$logical,
                )
            }
        }
    };
}

// ------------------------------------------------------------------------------------------------
// logical projections
// ------------------------------------------------------------------------------------------------
use cascette_formats::archive::{ArchiveGroup, ArchiveIndex};
use cascette_formats::blte::BlteFile;
use cascette_formats::bpsv::BpsvDocument;
use cascette_formats::config::{BuildConfig, CdnConfig, KeyringConfig, PatchConfig, ProductConfig};
use cascette_formats::download::DownloadManifest;
use cascette_formats::encoding::EncodingFile;
use cascette_formats::espec::ESpec;
use cascette_formats::install::InstallManifest;
use cascette_formats::patch_archive::PatchArchive;
use cascette_formats::patch_index::PatchIndex;
use cascette_formats::root::RootFile;
use cascette_formats::size::SizeManifest;
use cascette_formats::tvfs::TvfsFile;
use cascette_formats::zbsdiff::ZbsDiff;

fn l_blte(v: &BlteFile, _: &[&[u8]]) -> String {
    let chunks: Vec<(u8, String)> = v.chunks.iter().map(|c| (c.mode.as_byte(), md5hex(&c.data))).collect();
    format!("{:?}|{:?}", v.header, chunks)
}
fn l_encoding(v: &EncodingFile, _: &[&[u8]]) -> String {
    let h = &v.header;
    let ck: Vec<_> = v.ckey_pages.iter().map(|p| format!("{:?}", p.entries)).collect();
    let ek: Vec<_> = v.ekey_pages.iter().map(|p| format!("{:?}", p.entries)).collect();
    format!(
        "v{} ch{} eh{} cp{} ep{} fl{}|{:?}|{:?}|{:?}|{:?}",
        h.version, h.ckey_hash_size, h.ekey_hash_size, h.ckey_page_size_kb, h.ekey_page_size_kb, h.flags, v.espec_table.entries, ck, ek, v.trailing_espec
    )
}
fn l_aidx(v: &ArchiveIndex, _: &[&[u8]]) -> String {
    let f = &v.footer;
    format!("v{} ob{} sb{} kl{}|{:?}", f.version, f.offset_bytes, f.size_bytes, f.ekey_length, v.entries)
}
fn l_root(v: &RootFile, _: &[&[u8]]) -> String {
    let mut recs: Vec<String> = Vec::new();
    for b in &v.blocks {
        for r in &b.records {
            recs.push(format!("{:?}|{:?}|{:?}|{:?}|{:?}", r.file_data_id, r.content_key, r.name_hash, b.locale_flags(), b.content_flags()));
        }
    }
    recs.sort();
    format!("{:?}|{:?}", v.version, recs)
}
fn l_install(v: &InstallManifest, _: &[&[u8]]) -> String {
    format!("v{}|{:?}|{:?}", v.header.version, v.tags, v.entries)
}
fn l_download(v: &DownloadManifest, _: &[&[u8]]) -> String {
    format!("{:?}|{:?}|{:?}", v.header, v.entries, v.tags)
}
fn l_size(v: &SizeManifest, _: &[&[u8]]) -> String {
    format!("{:?}", v)
}
fn l_tvfs(v: &TvfsFile, _: &[&[u8]]) -> String {
    use std::collections::HashMap;
    let vfs: HashMap<u32, usize> = v.vfs_table.entries.iter().enumerate().map(|(i, e)| (e.offset, i)).collect();
    let cft: HashMap<u32, usize> = v.container_table.entries.iter().enumerate().map(|(i, e)| (e.offset, i)).collect();
    let mut files: Vec<String> = Vec::new();
    for f in &v.path_table.files {
        let mut s = format!("{:?}=>", f.path);
        match vfs.get(&f.vfs_offset) {
            None => s.push_str("novfs"),
            Some(&i) => {
                for sp in &v.vfs_table.entries[i].spans {
                    s.push_str(&format!("[{}+{}:", sp.file_offset, sp.span_length));
                    match cft.get(&sp.cft_offset) {
                        None => s.push_str("nocft"),
                        Some(&j) => {
                            let c = &v.container_table.entries[j];
                            let est = c.est_index.map(|x| v.est_table.as_ref().and_then(|t| t.specs.get(x as usize).cloned()));
                            s.push_str(&format!("{:?} {} {:?} {:?} {:?}", c.ekey, c.encoded_size, c.content_key, est, c.patch_offset.is_some()));
                        }
                    }
                    s.push(']');
                }
            }
        }
        files.push(s);
    }
    files.sort();
    format!("v{} ek{} pk{} fl{}|{:?}", v.header.format_version, v.header.ekey_size, v.header.pkey_size, v.header.flags, files)
}
fn l_pa(v: &PatchArchive, _: &[&[u8]]) -> String {
    let h = &v.header;
    let fe: Vec<_> = v.all_file_entries().collect();
    format!("v{} fk{} ok{} pk{} bb{} fl{}|{:?}|{:?}", h.version, h.file_key_size, h.old_key_size, h.patch_key_size, h.block_size_bits, h.flags, v.encoding_info, fe)
}
fn l_pi(v: &PatchIndex, _: &[&[u8]]) -> String {
    format!("v{} ks{}|{:?}", v.header.version, v.key_size, v.entries)
}
fn l_zbs(v: &ZbsDiff, _: &[&[u8]]) -> String {
    format!("{:?}|{}|{}|{}", v.header, md5hex(&v.control_data), md5hex(&v.diff_data), md5hex(&v.extra_data))
}
/// candidate keys of a `key = value` text: everything before the first " = " of each line
fn cand_keys(texts: &[&[u8]]) -> Vec<String> {
    let mut ks = std::collections::BTreeSet::new();
    for t in texts {
        let s = String::from_utf8_lossy(t);
        for line in s.split(['\n', '\r']) {
            let line = line.trim();
            if let Some(k) = line.split(" = ").next() {
                ks.insert(k.trim().to_string());
            }
        }
    }
    ks.into_iter().collect()
}
fn l_buildcfg(v: &BuildConfig, t: &[&[u8]]) -> String {
    let kv: Vec<_> = cand_keys(t).into_iter().filter_map(|k| v.get(&k).map(|x| (k.clone(), x.clone()))).collect();
    format!("{:?}", kv)
}
fn l_cdncfg(v: &CdnConfig, t: &[&[u8]]) -> String {
    let kv: Vec<_> = cand_keys(t).into_iter().filter_map(|k| v.get(&k).map(|x| (k.clone(), x.clone()))).collect();
    format!("{:?}", kv)
}
fn l_patchcfg(v: &PatchConfig, t: &[&[u8]]) -> String {
    let kv: Vec<_> = cand_keys(t).into_iter().filter_map(|k| v.get_property(&k).map(|x| (k.clone(), x.to_string()))).collect();
    format!("{:?}|{:?}|{}", kv, v.entries(), v.property_count())
}
fn l_productcfg(v: &ProductConfig, _: &[&[u8]]) -> String {
    serde_json::to_value(v).map(|x| x.to_string()).unwrap_or_else(|e| format!("unserialisable: {e}"))
}
fn l_keyring(v: &KeyringConfig, _: &[&[u8]]) -> String {
    format!("{:?}", v.entries())
}
fn l_bpsv(v: &BpsvDocument, _: &[&[u8]]) -> String {
    let rows: Vec<_> = v.rows().iter().map(|r| format!("{:?}|{:?}", r.raw_values(), r.values())).collect();
    format!("{:?}|{:?}|{:?}", v.schema().fields(), v.sequence_number(), rows)
}
fn l_espec(v: &ESpec, _: &[&[u8]]) -> String {
    format!("{:?}", v)
}

casc_fmt!(f_blte, BlteFile, l_blte);
casc_fmt!(f_aidx, ArchiveIndex, l_aidx);
casc_fmt!(f_root, RootFile, l_root);
casc_fmt!(f_install, InstallManifest, l_install);
casc_fmt!(f_download, DownloadManifest, l_download);
casc_fmt!(f_size, SizeManifest, l_size);
casc_fmt!(f_tvfs, TvfsFile, l_tvfs);
casc_fmt!(f_pa, PatchArchive, l_pa);
casc_fmt!(f_pi, PatchIndex, l_pi);
casc_fmt!(f_zbs, ZbsDiff, l_zbs);
casc_fmt!(f_buildcfg, BuildConfig, l_buildcfg);
casc_fmt!(f_cdncfg, CdnConfig, l_cdncfg);
casc_fmt!(f_patchcfg, PatchConfig, l_patchcfg);
casc_fmt!(f_productcfg, ProductConfig, l_productcfg);
casc_fmt!(f_keyring, KeyringConfig, l_keyring);
casc_fmt!(f_bpsv, BpsvDocument, l_bpsv);
casc_fmt!(f_espec, ESpec, l_espec);

// the encoding file's inherent parse/build are what callers use (CascFormat delegates to them)
mod f_encoding {
    use super::*;
    pub fn parse(b: &[u8], _: &Env) -> Result<Val, String> {
        EncodingFile::parse(b).map(|v| Box::new(v) as Val).map_err(|e| e.to_string())
    }
    pub fn rt(v: Val, b: &[u8], _: &Env) -> Value {
        let v = *v.downcast::<EncodingFile>().expect("value type");
        rt_run::<EncodingFile>(v, b, &|x| EncodingFile::parse(x).map_err(|e| e.to_string()), &|v| v.build().map_err(|e| e.to_string()), &l_encoding)
    }
}

// ------------------------------------------------------------------------------------------------
// entry points without a serialiser (C02 only)
// ------------------------------------------------------------------------------------------------
fn unit() -> Val {
    Box::new(())
}
fn p_blte_decompress(b: &[u8], _: &Env) -> Result<Val, String> {
    let f = <BlteFile as CascFormat>::parse(b).map_err(|e| e.to_string())?;
    let plain = f.decompress().map_err(|e| e.to_string());
    let ks = cascette_crypto::TactKeyStore::new();
    let keyed = f.decompress_with_keys(&ks).map_err(|e| e.to_string());
    match (plain, keyed) {
        (Ok(_), _) | (_, Ok(_)) => Ok(unit()),
        (Err(e), Err(_)) => Err(e),
    }
}
fn p_encoding_blte(b: &[u8], _: &Env) -> Result<Val, String> {
    EncodingFile::parse_blte(b).map(|_| unit()).map_err(|e| e.to_string())
}
fn p_tvfs_blte(b: &[u8], _: &Env) -> Result<Val, String> {
    TvfsFile::load_from_blte(b).map(|_| unit()).map_err(|e| e.to_string())
}
fn p_agroup(b: &[u8], _: &Env) -> Result<Val, String> {
    let mut c = std::io::Cursor::new(b);
    ArchiveGroup::parse(&mut c).map(|_| unit()).map_err(|e| e.to_string())
}
fn p_zbs_apply(b: &[u8], env: &Env) -> Result<Val, String> {
    // input = patch; applied to every old file of the fixtures (and an empty one): Ok if any application succeeds
    let p = ZbsDiff::parse(b).map_err(|e| e.to_string())?;
    let mut last = String::from("no old data");
    let mut ok = false;
    for old in env.olds.iter().take(3) {
        match p.apply(old) {
            Ok(_) => ok = true,
            Err(e) => last = e.to_string(),
        }
    }
    match cascette_formats::zbsdiff::apply_patch_memory(&env.olds[0], b) {
        Ok(_) => ok = true,
        Err(e) => last = e.to_string(),
    }
    if ok { Ok(unit()) } else { Err(last) }
}
fn p_mime(b: &[u8], _: &Env) -> Result<Val, String> {
    use cascette_protocol::mime_parser::{is_v1_mime_response, parse_v1_mime_response, parse_v1_mime_to_bpsv};
    let _ = is_v1_mime_response(b);
    let r = parse_v1_mime_response(b).map(|_| ()).map_err(|e| e.to_string());
    let _ = parse_v1_mime_to_bpsv(b);
    r.map(|()| unit())
}
fn p_local_idx(b: &[u8], env: &Env) -> Result<Val, String> {
    use cascette_client_storage::index::IndexManager;
    let dir = env.tmp.join("idx");
    std::fs::create_dir_all(&dir).map_err(|e| e.to_string())?;
    let path = dir.join("0100000001.idx");
    std::fs::write(&path, b).map_err(|e| e.to_string())?;
    let mut m = IndexManager::new(&dir);
    let r = m.load_index(1, &path).map_err(|e| e.to_string());
    if r.is_ok() {
        let _ = m.entry_count();
        let _ = m.iter_entries().count();
    }
    r.map(|()| unit())
}
fn p_update_section(b: &[u8], _: &Env) -> Result<Val, String> {
    use cascette_client_storage::index::update::{UpdatePage, UpdateSection};
    let s = UpdateSection::from_bytes(b);
    let _ = s.entry_count();
    let _ = s.all_entries().filter(|e| e.validate_hash_guard()).count();
    let _ = s.to_bytes();
    match UpdatePage::from_bytes(b) {
        Some(p) => {
            let _ = p.to_bytes();
            Ok(unit())
        }
        None => Err("empty or short page".into()),
    }
}
fn p_residency(b: &[u8], env: &Env) -> Result<Val, String> {
    use cascette_client_storage::kmt::key_state::{ResidencyDb, ResidencyPage};
    let dir = env.tmp.join("res");
    std::fs::create_dir_all(&dir).map_err(|e| e.to_string())?;
    let path = dir.join("residency.db");
    std::fs::write(&path, b).map_err(|e| e.to_string())?;
    let _ = ResidencyPage::from_bytes(b);
    let db = ResidencyDb::load(&path).map_err(|e| e.to_string())?;
    let keys = db.scan_keys();
    for k in keys.iter().take(64) {
        let _ = db.is_resident(k);
    }
    let _ = db.entry_count();
    Ok(unit())
}
fn p_lru(b: &[u8], env: &Env) -> Result<Val, String> {
    use cascette_client_storage::lru::LruManager;
    use cascette_client_storage::lru::lru_file::{deserialize, lru_file_path};
    let d = deserialize(b);
    let dir = env.tmp.join("lru");
    std::fs::create_dir_all(&dir).map_err(|e| e.to_string())?;
    let generation = 7u64;
    std::fs::write(lru_file_path(&dir, generation), b).map_err(|e| e.to_string())?;
    let mut m = LruManager::new(8, dir.clone());
    let r = env.rt.block_on(m.load_from_disk(generation)).map_err(|e| e.to_string());
    if r.is_ok() {
        let mut n = 0u64;
        m.for_each_entry(|_| n += 1);
        let _ = m.len();
        let _ = m.touch(&[1, 2, 3, 4, 5, 6, 7, 8, 9]);
        let _ = m.evict_tail();
    }
    match (d, r) {
        (_, Ok(())) => Ok(unit()),
        (_, Err(e)) => Err(e),
    }
}
fn p_shmem(b: &[u8], _: &Env) -> Result<Val, String> {
    use cascette_client_storage::shmem::control_block::{PidTracking, ShmemControlBlock};
    let p = PidTracking::from_mapped(b);
    let _ = p.max_slots;
    match ShmemControlBlock::from_mapped(b) {
        Some(cb) => {
            let _ = cb.validate_for_bind();
            Ok(unit())
        }
        None => Err("not a control block".into()),
    }
}
fn p_build_info(b: &[u8], _: &Env) -> Result<Val, String> {
    use cascette_client_storage::build_info::BuildInfoFile;
    let s = std::str::from_utf8(b).map_err(|e| e.to_string())?;
    let f = BuildInfoFile::parse_str(s).map_err(|e| e.to_string())?;
    let _ = f.entry_count();
    if let Some(a) = f.active_entry() {
        let _ = (a.branch(), a.build_key(), a.cdn_key(), a.install_size(), a.cdn_hosts(), a.cdn_servers(), a.tags(), a.version(), a.product());
    }
    for e in f.entries() {
        let _ = (e.is_active(), e.install_key(), e.cdn_path(), e.armadillo(), e.last_activated());
    }
    Ok(unit())
}

static FORMATS: &[Fmt] = &[
    Fmt { name: "blte", decomp: false, text: false, parse: f_blte::parse, rt: Some(f_blte::rt), weight: 6 },
    Fmt { name: "blte_decompress", decomp: true, text: false, parse: p_blte_decompress, rt: None, weight: 6 },
    Fmt { name: "encoding", decomp: false, text: false, parse: f_encoding::parse, rt: Some(f_encoding::rt), weight: 6 },
    Fmt { name: "encoding_blte", decomp: true, text: false, parse: p_encoding_blte, rt: None, weight: 2 },
    Fmt { name: "archive_index", decomp: false, text: false, parse: f_aidx::parse, rt: Some(f_aidx::rt), weight: 6 },
    Fmt { name: "archive_group", decomp: false, text: false, parse: p_agroup, rt: None, weight: 3 },
    Fmt { name: "root", decomp: false, text: false, parse: f_root::parse, rt: Some(f_root::rt), weight: 6 },
    Fmt { name: "install", decomp: false, text: false, parse: f_install::parse, rt: Some(f_install::rt), weight: 5 },
    Fmt { name: "download", decomp: false, text: false, parse: f_download::parse, rt: Some(f_download::rt), weight: 5 },
    Fmt { name: "size", decomp: false, text: false, parse: f_size::parse, rt: Some(f_size::rt), weight: 5 },
    Fmt { name: "tvfs", decomp: false, text: false, parse: f_tvfs::parse, rt: Some(f_tvfs::rt), weight: 6 },
    Fmt { name: "tvfs_blte", decomp: true, text: false, parse: p_tvfs_blte, rt: None, weight: 2 },
    Fmt { name: "patch_archive", decomp: false, text: false, parse: f_pa::parse, rt: Some(f_pa::rt), weight: 5 },
    Fmt { name: "patch_index", decomp: false, text: false, parse: f_pi::parse, rt: Some(f_pi::rt), weight: 5 },
    Fmt { name: "zbsdiff", decomp: false, text: false, parse: f_zbs::parse, rt: Some(f_zbs::rt), weight: 4 },
    Fmt { name: "zbsdiff_apply", decomp: true, text: false, parse: p_zbs_apply, rt: None, weight: 5 },
    Fmt { name: "build_config", decomp: false, text: true, parse: f_buildcfg::parse, rt: Some(f_buildcfg::rt), weight: 3 },
    Fmt { name: "cdn_config", decomp: false, text: true, parse: f_cdncfg::parse, rt: Some(f_cdncfg::rt), weight: 3 },
    Fmt { name: "patch_config", decomp: false, text: true, parse: f_patchcfg::parse, rt: Some(f_patchcfg::rt), weight: 3 },
    Fmt { name: "product_config", decomp: false, text: true, parse: f_productcfg::parse, rt: Some(f_productcfg::rt), weight: 3 },
    Fmt { name: "keyring_config", decomp: false, text: true, parse: f_keyring::parse, rt: Some(f_keyring::rt), weight: 2 },
    Fmt { name: "bpsv", decomp: false, text: true, parse: f_bpsv::parse, rt: Some(f_bpsv::rt), weight: 4 },
    Fmt { name: "espec", decomp: false, text: true, parse: f_espec::parse, rt: Some(f_espec::rt), weight: 4 },
    Fmt { name: "mime", decomp: false, text: true, parse: p_mime, rt: None, weight: 4 },
    Fmt { name: "local_idx", decomp: false, text: false, parse: p_local_idx, rt: None, weight: 4 },
    Fmt { name: "update_section", decomp: false, text: false, parse: p_update_section, rt: None, weight: 2 },
    Fmt { name: "residency", decomp: false, text: false, parse: p_residency, rt: None, weight: 3 },
    Fmt { name: "lru", decomp: false, text: false, parse: p_lru, rt: None, weight: 3 },
    Fmt { name: "shmem", decomp: false, text: false, parse: p_shmem, rt: None, weight: 2 },
    Fmt { name: "build_info", decomp: false, text: true, parse: p_build_info, rt: None, weight: 2 },
];
fn fmt_index(name: &str) -> Option<usize> {
    FORMATS.iter().position(|f| f.name == name)
}

include!("drv_parse/seeds.rs");
include!("drv_parse/layout.rs");
include!("drv_parse/mutate.rs");
include!("drv_parse/bprog.rs");
include!("drv_parse/parent.rs");

// ------------------------------------------------------------------------------------------------
// child
// ------------------------------------------------------------------------------------------------
fn child_main(args: &[String]) {
    quiet_panics();
    let tmp = PathBuf::from(arg(args, "--tmp").expect("--tmp"));
    std::fs::create_dir_all(&tmp).expect("tmp dir");
    let env = Env { tmp, rt: verif_harness::rt(), olds: zbs_olds() };
    let stdin = std::io::stdin();
    let mut rd = stdin.lock();
    let stdout = std::io::stdout();
    let mut out = stdout.lock();
    loop {
        let mut h = [0u8; 7];
        if rd.read_exact(&mut h).is_err() {
            break;
        }
        let kind = h[0];
        let fi = u16::from_le_bytes([h[1], h[2]]) as usize;
        let len = u32::from_le_bytes([h[3], h[4], h[5], h[6]]) as usize;
        let mut payload = vec![0u8; len];
        if rd.read_exact(&mut payload).is_err() {
            break;
        }
        if kind == b'B' {
            let prog: Value = serde_json::from_slice(&payload).expect("builder program json");
            let base = meter_reset();
            let t0 = Instant::now();
            let mut res = run_bprog(&prog);
            let (peak, largest, _) = meter_read(base);
            res["k"] = json!("b");
            res["peak"] = json!(peak);
            res["largest"] = json!(largest);
            res["us"] = json!(t0.elapsed().as_micros() as u64);
            writeln!(out, "{res}").expect("child stdout");
            out.flush().expect("child stdout");
            continue;
        }
        let f = &FORMATS[fi];
        let base = meter_reset();
        let t0 = Instant::now();
        let r = guarded(|| (f.parse)(&payload, &env));
        let us = t0.elapsed().as_micros() as u64;
        let (peak, largest, na) = meter_read(base);
        let (o, msg, val) = match r {
            Ok(Ok(v)) => ("ok", String::new(), Some(v)),
            Ok(Err(e)) => ("err", e, None),
            Err(p) => ("panic", p, None),
        };
        let more = val.is_some() && f.rt.is_some();
        writeln!(out, "{}", json!({"k": "p", "o": o, "msg": trunc(&msg, 200), "peak": peak, "largest": largest, "na": na, "us": us, "more": more})).expect("child stdout");
        out.flush().expect("child stdout");
        if more {
            let t1 = Instant::now();
            let mut res = (f.rt.expect("rt"))(val.expect("val"), &payload, &env);
            res["k"] = json!("r");
            res["us"] = json!(t1.elapsed().as_micros() as u64);
            writeln!(out, "{res}").expect("child stdout");
            out.flush().expect("child stdout");
        }
    }
}

fn main() {
    let args: Vec<String> = std::env::args().collect();
    if has_flag(&args, "--child") {
        child_main(&args);
        return;
    }
    parent_main(&args);
}
